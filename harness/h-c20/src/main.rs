//! C20 — the power-level helper predicates of `ruma_events::room::power_levels::RoomPowerLevels`
//! agree with the authorization rules (`ruma_state_res::auth_check`).
//!
//! Every action request carries a room version, a candidate event and a room state (same token
//! form as C08: `<event>` = JSON object with `event_id room_id sender type [state_key] content
//! prev_events auth_events [redacts]`, `<state>` = array of such objects). The harness
//!   * deserializes the content of the state's `m.room.power_levels` event the way a client does
//!     (`serde_json::from_str::<RoomPowerLevelsEventContent>` then `RoomPowerLevels::from`) and
//!     asks the real helper about the event's sender (and target),
//!   * runs the real `auth_check` on the event against the state,
//!   * decides whether the request lies in the domain of the property (`d`), independently of
//!     the Lean side, and reports a T3 failure when `d = 1` and the two answers differ.
//! Answer: `<h> <a> <d>` with `h` = `t`/`f` (helper) or `-` (helper not callable: content does not
//! deserialize / target is not a user id), `a` = `allow`/`reject`, `d` = `1`/`0`.
//!
//!   `c20.ban|kick|unban|invite <ver> <event> <state>`    user_can_{ban,kick,unban}_user / user_can_invite
//!   `c20.msg   <ver> <type> <event> <state>`             user_can_send_message(sender, type)
//!   `c20.state <ver> <type> <event> <state>`             user_can_send_state(sender, type)
//!   `c20.tpi   <ver> <event> <state>`                    user_can_invite vs an m.room.third_party_invite event
//!   `c20.redactown|redactother <ver> <event> <state>`    user_can_redact_{own_event,event_of_other}
//!   `c20.pl    <ver> <event> <state>`                    user_can_send_state(sender, RoomPowerLevels) vs a power-levels event
//!   `c20.chpl  <ver> <target> <event> <state>`           user_can_change_user_power_level(sender, target)
//!   `c20.levels <content> <user> <mtype> <stype>`        for_user / for_action / user_can_do / push condition
//!   `c20.deser <content>`                                the deserialized `RoomPowerLevels`
//!   `c20.deserred <ver> <content>`                       the `RoomPowerLevels` of the REDACTED event (redaction rules of <ver>)
#[allow(dead_code)]
#[path = "../../h-c08/src/pdu.rs"]
mod pdu;
#[allow(dead_code)]
#[path = "../../h-c08/src/scn.rs"]
mod scn;

mod gen;

use h_lib::{h_util, stok, Outcome};
use js_int::Int;
use ruma_common::{
    push::{FlattenedJson, PushCondition, PushConditionRoomCtx},
    serde::{deserialize_v1_powerlevel, Raw},
    OwnedRoomId, OwnedUserId, UserId,
};
use ruma_events::{
    room::power_levels::{
        NotificationPowerLevelType, PowerLevelAction, PowerLevelUserAction, RedactedRoomPowerLevelsEventContent,
        RoomPowerLevels, RoomPowerLevelsEventContent,
    },
    MessageLikeEventType, StateEventType,
};
use ruma_state_res::events::RoomPowerLevelsIntField;
use serde_json::{json, Value};

use crate::pdu::*;

const T_CREATE: &str = "m.room.create";
const T_MEMBER: &str = "m.room.member";
const T_PL: &str = "m.room.power_levels";
const T_TPI: &str = "m.room.third_party_invite";
const T_ALIASES: &str = "m.room.aliases";
const T_REDACTION: &str = "m.room.redaction";

const INT_FIELDS: [&str; 7] = ["users_default", "events_default", "state_default", "ban", "redact", "kick", "invite"];

fn bt(b: bool) -> &'static str {
    if b {
        "t"
    } else {
        "f"
    }
}

/// The helper's view of a power-levels content: what a client gets from the event JSON.
fn levels_of_str(content: &str) -> Option<RoomPowerLevels> {
    serde_json::from_str::<RoomPowerLevelsEventContent>(content).ok().map(Into::into)
}

pub fn levels_of_value(v: &Value) -> Option<RoomPowerLevels> {
    levels_of_str(&serde_json::to_string(v).ok()?)
}

fn content_value(p: &Pdu) -> Value {
    serde_json::from_str(p.content.get()).expect("content is JSON")
}

/// One value in a level position is readable by the authorization rules of that version.
fn level_ok(v: &Value, int_only: bool) -> bool {
    if int_only {
        serde_json::from_value::<Int>(v.clone()).is_ok()
    } else {
        deserialize_v1_powerlevel(v).is_ok()
    }
}

fn map_ok(v: Option<&Value>, int_only: bool, key_ok: impl Fn(&str) -> bool) -> bool {
    match v {
        None => true,
        Some(Value::Object(o)) => o.iter().all(|(k, x)| key_ok(k) && level_ok(x, int_only)),
        Some(_) => false,
    }
}

/// The power-levels content is one the authorization rules of that room version can read in full
/// (it would pass the parsing stage of `check_room_power_levels`): integer fields, `events`,
/// `users`, `notifications`.
fn auth_wf(ver: u32, c: &Value) -> bool {
    let int_only = ver >= 10;
    let Some(o) = c.as_object() else { return false };
    INT_FIELDS.iter().all(|f| o.get(*f).is_none_or(|v| level_ok(v, int_only)))
        && map_ok(o.get("events"), int_only, |_| true)
        && map_ok(o.get("users"), int_only, |k| <&UserId>::try_from(k).is_ok())
        && map_ok(o.get("notifications"), int_only, |_| true)
}

fn server_of(id: &str) -> Option<&str> {
    id.find(':').map(|i| &id[i + 1..])
}

fn membership_in_state(state: &State, user: &str) -> Option<String> {
    match state.get(&(T_MEMBER.to_owned(), user.to_owned())) {
        None => Some("leave".to_owned()),
        Some(e) => content_value(e).get("membership")?.as_str().map(str::to_owned),
    }
}

/// The room the property speaks about: a readable create event that the candidate event cites, the
/// sender allowed by federation, a creator the rules can determine, the sender a joined member, and
/// a power-levels event whose content both the helper and the rules of that version can read.
fn setting_ok(ver: u32, ev: &Pdu, state: &State) -> bool {
    let Some(create) = state.get(&(T_CREATE.to_owned(), String::new())) else { return false };
    if !ev.auth_events.contains(&create.event_id) {
        return false;
    }
    let cc = content_value(create);
    let fed_ok = match cc.get("m.federate") {
        None | Some(Value::Null) | Some(Value::Bool(true)) => true,
        Some(Value::Bool(false)) => create.sender.server_name() == ev.sender.server_name(),
        Some(_) => false,
    };
    let creator_ok =
        ver >= 11 || cc.get("creator").and_then(Value::as_str).is_some_and(|s| <&UserId>::try_from(s).is_ok());
    let joined = state
        .get(&(T_MEMBER.to_owned(), ev.sender.to_string()))
        .is_some_and(|e| content_value(e).get("membership").and_then(Value::as_str) == Some("join"));
    let pl_ok = state.get(&(T_PL.to_owned(), String::new())).is_some_and(|pl| {
        levels_of_str(pl.content.get()).is_some() && auth_wf(ver, &content_value(pl))
    });
    fed_ok && creator_ok && joined && pl_ok
}

fn is_foreign_user_key(ev: &Pdu) -> bool {
    ev.state_key.as_deref().is_some_and(|k| k.starts_with('@') && k != ev.sender.as_str())
}

fn run_action(op: &str, toks: &[&str]) -> Outcome {
    if toks.is_empty() {
        return Outcome::bad();
    }
    let Ok(ver) = toks[0].parse::<u32>() else { return Outcome::bad() };
    if !(1..=11).contains(&ver) {
        return Outcome::bad();
    }
    let rules = h_lib::version_id(ver).rules().expect("rules").authorization;
    let mut it = toks[1..].iter();
    // the extra leading token of msg / state / chpl
    let extra: Option<String> = match op {
        "c20.msg" | "c20.state" | "c20.chpl" => {
            let Some(t) = it.next() else { return Outcome::bad() };
            let Some(s) = t.strip_prefix('s').and_then(h_util::unhex_str) else { return Outcome::bad() };
            Some(s)
        }
        _ => None,
    };
    let Some(evv) = h_util::parse_tokens(&mut it) else { return Outcome::bad() };
    let Some(ev) = pdu_of_json(&evv) else { return Outcome::bad() };
    let Some(sv) = h_util::parse_tokens(&mut it) else { return Outcome::bad() };
    let Some(state) = state_of_json(&sv) else { return Outcome::bad() };
    if it.next().is_some() {
        return Outcome::bad();
    }
    let raw_type = evv.get("type").and_then(Value::as_str).unwrap_or_default().to_owned();
    if matches!(op, "c20.msg" | "c20.state") && extra.as_deref() != Some(raw_type.as_str()) {
        return Outcome::bad();
    }
    let kind = ev.kind.to_string();
    let econtent = content_value(&ev);
    let emembership = econtent.get("membership").and_then(Value::as_str).unwrap_or_default().to_owned();

    let (allowed, _) = run_auth(&rules, &ev, &state);
    let levels = state.get(&(T_PL.to_owned(), String::new())).and_then(|pl| levels_of_str(pl.content.get()));
    let common = setting_ok(ver, &ev, &state);
    let sender: &UserId = &ev.sender;
    let mut t3 = Vec::new();

    // (helper answer, in the property's domain)
    let (h, d): (Option<bool>, bool) = match op {
        "c20.ban" | "c20.kick" | "c20.unban" | "c20.invite" => {
            let target = ev.state_key.as_deref().and_then(|k| <&UserId>::try_from(k).ok());
            let h = match (&levels, target) {
                (Some(pl), Some(target)) => {
                    let (direct, action) = match op {
                        "c20.ban" => (pl.user_can_ban_user(sender, target), PowerLevelUserAction::Ban),
                        "c20.kick" => (pl.user_can_kick_user(sender, target), PowerLevelUserAction::Kick),
                        "c20.unban" => (pl.user_can_unban_user(sender, target), PowerLevelUserAction::Unban),
                        _ => (pl.user_can_invite(sender), PowerLevelUserAction::Invite),
                    };
                    if pl.user_can_do_to_user(sender, target, action.clone()) != direct {
                        t3.push(format!("user_can_do_to_user(.., {action:?}) differs from the helper it is documented to be a shorthand for"));
                    }
                    Some(direct)
                }
                _ => None,
            };
            let tm = target.and_then(|t| membership_in_state(&state, t.as_str()));
            let d = common
                && ev.kind.to_string() == T_MEMBER
                && target.is_some()
                && match op {
                    "c20.ban" => emembership == "ban",
                    "c20.kick" => {
                        emembership == "leave"
                            && target.is_some_and(|t| t != sender)
                            && tm.as_deref().is_some_and(|m| m != "ban")
                    }
                    "c20.unban" => {
                        emembership == "leave" && target.is_some_and(|t| t != sender) && tm.as_deref() == Some("ban")
                    }
                    _ => {
                        emembership == "invite"
                            && matches!(econtent.get("third_party_invite"), None | Some(Value::Null))
                            && tm.as_deref().is_some_and(|m| m != "join" && m != "ban")
                    }
                };
            (h, d)
        }
        "c20.msg" => {
            let h = levels.as_ref().map(|pl| {
                let ty = MessageLikeEventType::from(raw_type.as_str());
                let direct = pl.user_can_send_message(sender, ty.clone());
                if pl.user_can_do(sender, PowerLevelAction::SendMessage(ty)) != direct {
                    t3.push("user_can_do(SendMessage) differs from user_can_send_message".into());
                }
                direct
            });
            let own_rule = kind == T_CREATE
                || kind == T_MEMBER
                || kind == T_PL
                || kind == T_TPI
                || (ver <= 5 && kind == T_ALIASES)
                || (ver <= 2 && kind == T_REDACTION);
            (h, common && ev.state_key.is_none() && !own_rule)
        }
        "c20.state" => {
            let h = levels.as_ref().map(|pl| {
                let ty = StateEventType::from(raw_type.as_str());
                let direct = pl.user_can_send_state(sender, ty.clone());
                if pl.user_can_do(sender, PowerLevelAction::SendState(ty)) != direct {
                    t3.push("user_can_do(SendState) differs from user_can_send_state".into());
                }
                direct
            });
            // a state event type spelled with the one alias ruma knows is a message-like type
            let canonical = kind == raw_type;
            let d = common
                && ev.state_key.is_some()
                && !is_foreign_user_key(&ev)
                && canonical
                && !(kind == T_CREATE || kind == T_MEMBER || kind == T_PL)
                && !(ver <= 2 && kind == T_REDACTION);
            (h, d)
        }
        "c20.tpi" => {
            let h = levels.as_ref().map(|pl| pl.user_can_invite(sender));
            (h, common && kind == T_TPI)
        }
        "c20.redactown" | "c20.redactother" => {
            let own = op == "c20.redactown";
            let h = levels.as_ref().map(|pl| {
                let (direct, action) = if own {
                    (pl.user_can_redact_own_event(sender), PowerLevelAction::RedactOwn)
                } else {
                    (pl.user_can_redact_event_of_other(sender), PowerLevelAction::RedactOther)
                };
                if pl.user_can_do(sender, action) != direct {
                    t3.push("user_can_do(Redact*) differs from user_can_redact_*".into());
                }
                direct
            });
            let same_server =
                server_of(ev.event_id.as_str()) == ev.redacts.as_ref().and_then(|r| server_of(r.as_str()));
            let shape = common && kind == T_REDACTION && ev.state_key.is_none();
            let d = if own { shape && (ver >= 3 || same_server) } else { shape && ver <= 2 && !same_server };
            (h, d)
        }
        "c20.pl" => {
            let h = levels.as_ref().map(|pl| pl.user_can_send_state(sender, StateEventType::RoomPowerLevels));
            let cur = state.get(&(T_PL.to_owned(), String::new())).map(|p| content_value(p));
            let d = common && kind == T_PL && ev.state_key.as_deref() == Some("") && cur.as_ref() == Some(&econtent);
            (h, d)
        }
        "c20.chpl" => {
            let target_s = extra.clone().unwrap_or_default();
            let target = <&UserId>::try_from(target_s.as_str()).ok();
            let h = match (&levels, target) {
                (Some(pl), Some(target)) => {
                    let direct = pl.user_can_change_user_power_level(sender, target);
                    if pl.user_can_do_to_user(sender, target, PowerLevelUserAction::ChangePowerLevel) != direct {
                        t3.push("user_can_do_to_user(ChangePowerLevel) differs from user_can_change_user_power_level".into());
                    }
                    Some(direct)
                }
                _ => None,
            };
            let cur = state.get(&(T_PL.to_owned(), String::new())).map(|p| content_value(p));
            let d = common
                && kind == T_PL
                && ev.state_key.as_deref() == Some("")
                && target.is_some()
                && cur.as_ref().is_some_and(|cur| is_canonical_change(cur, &econtent, &target_s, sender.as_str(), levels.as_ref()));
            (h, d)
        }
        _ => return Outcome::bad(),
    };

    if d {
        match h {
            Some(hb) if hb != allowed => t3.push(format!(
                "the helper answers {} but auth_check {} the corresponding event (room version {ver})",
                if hb { "yes" } else { "no" },
                if allowed { "accepts" } else { "rejects" }
            )),
            None => t3.push("harness: request classified as in-domain although the helper is not callable".into()),
            _ => {}
        }
    }
    let imp = format!(
        "{} {} {}",
        h.map(bt).unwrap_or("-"),
        if allowed { "allow" } else { "reject" },
        if d { "1" } else { "0" }
    );
    Outcome { imp, t3 }
}

/// The candidate content is the current content with exactly the canonical change of `target`'s
/// entry in `users`: an existing entry removed, or a missing one added at the sender's own level
/// (as an integer). Everything else is identical.
fn is_canonical_change(cur: &Value, new: &Value, target: &str, sender: &str, levels: Option<&RoomPowerLevels>) -> bool {
    let (Some(co), Some(no)) = (cur.as_object(), new.as_object()) else { return false };
    let Some(levels) = levels else { return false };
    let Ok(sender) = <&UserId>::try_from(sender) else { return false };
    let sl = i64::from(levels.for_user(sender));
    let mut expect = co.clone();
    let users = co.get("users").and_then(Value::as_object);
    match users {
        Some(u) if u.contains_key(target) => {
            let mut u2 = u.clone();
            u2.remove(target);
            expect.insert("users".into(), Value::Object(u2));
        }
        Some(u) => {
            let mut u2 = u.clone();
            u2.insert(target.to_owned(), json!(sl));
            expect.insert("users".into(), Value::Object(u2));
        }
        None => {
            if co.contains_key("users") {
                return false;
            }
            expect.insert("users".into(), json!({ target: sl }));
        }
    }
    &expect == no
}

fn parse_one(toks: &[&str]) -> Option<(Value, usize)> {
    let mut it = toks.iter();
    let v = h_util::parse_tokens(&mut it)?;
    Some((v, toks.len() - it.len()))
}

fn str_tok(t: &str) -> Option<String> {
    t.strip_prefix('s').and_then(h_util::unhex_str)
}

/// The answer line of `c20.deser` / `c20.deserred`.
fn show_levels_line(pl: &RoomPowerLevels) -> String {
    let mut s = format!(
        "ok {} {} {} {} {} {} {} {} e{}",
        pl.ban,
        pl.events_default,
        pl.invite,
        pl.kick,
        pl.redact,
        pl.state_default,
        pl.users_default,
        pl.notifications.room,
        pl.events.len()
    );
    for (k, v) in &pl.events {
        s.push_str(&format!(" {} {}", stok(&k.to_string()), v));
    }
    s.push_str(&format!(" u{}", pl.users.len()));
    for (k, v) in &pl.users {
        s.push_str(&format!(" {} {}", stok(k.as_str()), v));
    }
    s
}

/// `c20.deserred <ver> <content>`: the content redacted by the real redaction algorithm under the
/// rules of room version `<ver>`, read as `RedactedRoomPowerLevelsEventContent`, converted to
/// `RoomPowerLevels`.
fn run_deserred(toks: &[&str]) -> Outcome {
    let Some(ver) = toks.first().and_then(|v| v.parse::<u32>().ok()).filter(|v| (1..=11).contains(v)) else {
        return Outcome::bad();
    };
    let Some((c, used)) = parse_one(&toks[1..]) else { return Outcome::bad() };
    if used + 1 != toks.len() || !c.is_object() {
        return Outcome::bad();
    }
    let Ok(ruma_common::CanonicalJsonValue::Object(mut obj)) = ruma_common::CanonicalJsonValue::try_from(c) else {
        return Outcome::bad();
    };
    let rules = h_lib::version_id(ver).rules().expect("rules");
    if ruma_common::canonical_json::redact_content_in_place(&mut obj, &rules.redaction, T_PL).is_err() {
        return Outcome::new("err");
    }
    let text = serde_json::to_string(&obj).unwrap();
    match serde_json::from_str::<RedactedRoomPowerLevelsEventContent>(&text) {
        Ok(r) => Outcome::new(show_levels_line(&RoomPowerLevels::from(r))),
        Err(_) => Outcome::new("err"),
    }
}

fn run_deser(toks: &[&str]) -> Outcome {
    let Some((c, used)) = parse_one(toks) else { return Outcome::bad() };
    if used != toks.len() || !c.is_object() {
        return Outcome::bad();
    }
    let text = serde_json::to_string(&c).unwrap();
    let Some(pl) = levels_of_str(&text) else { return Outcome::new("err") };
    let mut t3 = Vec::new();
    // the same content through `from_value` must give the same levels
    match serde_json::from_value::<RoomPowerLevelsEventContent>(c.clone()) {
        Ok(c2) => {
            let p2: RoomPowerLevels = c2.into();
            if format!("{p2:?}") != format!("{pl:?}") {
                t3.push("from_str and from_value give different power levels".into());
            }
        }
        Err(_) => t3.push("from_str accepts the content but from_value rejects it".into()),
    }
    // A client can also reach `RoomPowerLevels` from a REDACTED power-levels event. For the redaction
    // rules of every room-version family: redact the content as the redaction algorithm does (the JSON
    // the authorization rules then read), and compare the three routes to the helper's levels — the
    // redacted JSON read as an ordinary content (the route all other operations validate against the
    // authorization rules), the redacted JSON read as `RedactedRoomPowerLevelsEventContent`, and the
    // typed `RedactContent::redact` of the original content.
    if let Ok(ruma_common::CanonicalJsonValue::Object(obj)) = ruma_common::CanonicalJsonValue::try_from(c.clone()) {
        for ver in [3u32, 9, 10, 11] {
            let Some(rules) = h_lib::version_id(ver).rules() else { continue };
            let mut red = obj.clone();
            if ruma_common::canonical_json::redact_content_in_place(&mut red, &rules.redaction, T_PL).is_err() {
                continue;
            }
            let red_text = serde_json::to_string(&red).unwrap();
            let a = levels_of_str(&red_text).map(|p| format!("{p:?}"));
            let b = serde_json::from_str::<RedactedRoomPowerLevelsEventContent>(&red_text)
                .ok()
                .map(|r| format!("{:?}", RoomPowerLevels::from(r)));
            let typed = serde_json::from_str::<RoomPowerLevelsEventContent>(&text)
                .ok()
                .map(|o| format!("{:?}", RoomPowerLevels::from(ruma_events::RedactContent::redact(o, &rules.redaction))));
            if a.is_none() || a != b {
                t3.push(format!("room version {ver}: the redacted power-levels content {red_text} gives different helper levels as a redacted event ({b:?}) than as an ordinary content ({a:?})"));
            } else if typed.is_some() && typed != a {
                t3.push(format!("room version {ver}: RedactContent::redact of the typed content gives {typed:?}, the redaction algorithm on the JSON gives {a:?}"));
            }
        }
    }
    let s = show_levels_line(&pl);
    Outcome { imp: s, t3 }
}

fn run_levels(toks: &[&str]) -> Outcome {
    let Some((c, used)) = parse_one(toks) else { return Outcome::bad() };
    if toks.len() != used + 3 || !c.is_object() {
        return Outcome::bad();
    }
    let (Some(user), Some(mt), Some(st)) = (str_tok(toks[used]), str_tok(toks[used + 1]), str_tok(toks[used + 2])) else {
        return Outcome::bad();
    };
    let Ok(user) = OwnedUserId::try_from(user.as_str()) else { return Outcome::bad() };
    let text = serde_json::to_string(&c).unwrap();
    let Some(pl) = levels_of_str(&text) else { return Outcome::new("err") };
    let mty = MessageLikeEventType::from(mt.as_str());
    let sty = StateEventType::from(st.as_str());
    let actions = [
        PowerLevelAction::Ban,
        PowerLevelAction::Unban,
        PowerLevelAction::Invite,
        PowerLevelAction::Kick,
        PowerLevelAction::RedactOwn,
        PowerLevelAction::RedactOther,
        PowerLevelAction::SendMessage(mty.clone()),
        PowerLevelAction::SendState(sty.clone()),
        PowerLevelAction::TriggerNotification(NotificationPowerLevelType::Room),
    ];
    let fu = pl.for_user(&user);
    let mut t3 = Vec::new();
    let mut s = format!("ok {fu}");
    let mut bits = String::new();
    for a in &actions {
        let need = pl.for_action(a.clone());
        let can = pl.user_can_do(&user, a.clone());
        if can != (fu >= need) {
            t3.push(format!("user_can_do({a:?}) = {can} but for_user = {fu}, for_action = {need}"));
        }
        s.push_str(&format!(" {need}"));
        bits.push_str(bt(can));
    }
    if pl.for_message(mty.clone()) != pl.for_action(PowerLevelAction::SendMessage(mty.clone()))
        || pl.for_state(sty.clone()) != pl.for_action(PowerLevelAction::SendState(sty.clone()))
    {
        t3.push("for_message / for_state differ from for_action".into());
    }
    let direct = [
        pl.user_can_ban(&user),
        pl.user_can_unban(&user),
        pl.user_can_invite(&user),
        pl.user_can_kick(&user),
        pl.user_can_redact_own_event(&user),
        pl.user_can_redact_event_of_other(&user),
        pl.user_can_send_message(&user, mty),
        pl.user_can_send_state(&user, sty),
        pl.user_can_trigger_room_notification(&user),
    ];
    let direct_bits: String = direct.iter().map(|b| bt(*b)).collect();
    if direct_bits != bits {
        t3.push(format!("user_can_* helpers {direct_bits} differ from user_can_do {bits}"));
    }
    // the push condition `sender_notification_permission` with key `room` for an event sent by `user`
    let raw_ev: Raw<Value> = Raw::from_json(
        serde_json::value::to_raw_value(&json!({"sender": user, "type": "m.room.message", "content": {}})).unwrap(),
    );
    let flat = FlattenedJson::from_raw(&raw_ev);
    let ctx = PushConditionRoomCtx {
        room_id: OwnedRoomId::try_from("!room:s1").unwrap(),
        member_count: js_int::uint!(2),
        user_id: OwnedUserId::try_from("@push-owner:s9").unwrap(),
        user_display_name: String::new(),
        power_levels: Some(pl.clone().into()),
    };
    let push = PushCondition::SenderNotificationPermission { key: "room".into() }.applies(&flat, &ctx);
    if push != direct[8] {
        t3.push(format!(
            "user_can_trigger_room_notification = {} but the push condition sender_notification_permission(room) = {push}",
            direct[8]
        ));
    }
    s.push_str(&format!(" {bits} {}", bt(push)));
    Outcome { imp: s, t3 }
}

pub fn run(req: &str) -> Outcome {
    let toks: Vec<&str> = req.split(' ').collect();
    match toks[0] {
        "c20.deser" => run_deser(&toks[1..]),
        "c20.deserred" => run_deserred(&toks[1..]),
        "c20.levels" => run_levels(&toks[1..]),
        op => run_action(op, &toks[1..]),
    }
}

/// T1: the defaults on both sides, read from the running code.
fn extract() -> String {
    let helper: RoomPowerLevels = RoomPowerLevelsEventContent::default().into();
    let serde: RoomPowerLevels = levels_of_str("{}").expect("empty content deserializes");
    let row = |p: &RoomPowerLevels| {
        format!(
            "[(\"users_default\", {}), (\"events_default\", {}), (\"state_default\", {}), (\"ban\", {}), (\"redact\", {}), (\"kick\", {}), (\"invite\", {})]",
            p.users_default, p.events_default, p.state_default, p.ban, p.redact, p.kick, p.invite
        )
    };
    let fields = [
        RoomPowerLevelsIntField::UsersDefault,
        RoomPowerLevelsIntField::EventsDefault,
        RoomPowerLevelsIntField::StateDefault,
        RoomPowerLevelsIntField::Ban,
        RoomPowerLevelsIntField::Redact,
        RoomPowerLevelsIntField::Kick,
        RoomPowerLevelsIntField::Invite,
    ];
    let auth: Vec<String> = fields.iter().map(|f| format!("(\"{}\", {})", f.as_str(), f.default_value())).collect();
    let mut s = String::new();
    s.push_str("-- GENERATED by `h-c20 c20 extract` from the running implementation. Do not edit.\n");
    s.push_str("namespace Ruma.Generated.C20\n\n");
    s.push_str("/-- `RoomPowerLevels::from(RoomPowerLevelsEventContent::default())`, the integer fields. -/\n");
    s.push_str(&format!("def helperDefaults : List (String × Int) := {}\n\n", row(&helper)));
    s.push_str("/-- The same fields of the `RoomPowerLevels` deserialized from the content `{}`. -/\n");
    s.push_str(&format!("def serdeDefaults : List (String × Int) := {}\n\n", row(&serde)));
    s.push_str("/-- `notifications.room`, `events.len()`, `users.len()` of both. -/\n");
    s.push_str(&format!(
        "def helperRest : List (String × Int) := [(\"notifications.room\", {}), (\"events.len\", {}), (\"users.len\", {})]\n",
        helper.notifications.room,
        helper.events.len(),
        helper.users.len()
    ));
    s.push_str(&format!(
        "def serdeRest : List (String × Int) := [(\"notifications.room\", {}), (\"events.len\", {}), (\"users.len\", {})]\n\n",
        serde.notifications.room,
        serde.events.len(),
        serde.users.len()
    ));
    s.push_str("/-- `RoomPowerLevelsIntField::{as_str, default_value}` of ruma-state-res, variant by variant. -/\n");
    s.push_str(&format!("def authDefaults : List (String × Int) := [{}]\n\n", auth.join(", ")));
    s.push_str("end Ruma.Generated.C20\n");
    s
}

fn main() {
    let prop = std::env::args().nth(1).unwrap_or_default();
    match prop.as_str() {
        "c20" => h_lib::std_main(Some(&extract), &gen::gen, &run),
        p => {
            eprintln!("unknown property {p}");
            std::process::exit(2);
        }
    }
}
