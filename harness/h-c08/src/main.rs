//! C08 — event authorization decides exactly as the spec's rules in every room version.
//! C09 — auth-event selection matches the spec; authorization reads nothing else.
//! (One binary serves both properties; the first CLI argument selects `c08` or `c09`.)
//!
//! Requests (`<rules>` = `1`..`11`, or `r` + nine `0`/`1` flags in `AuthorizationRules` order;
//! `<event>` = a JSON object in token form with `event_id room_id sender type [state_key] content
//! prev_events auth_events [redacts] [verified]`; `<state>` = an array of such objects, keyed by their
//! own `(type, state_key)`; `verified` is the oracle table for the Ed25519 check inside third-party
//! invites):
//!   `c08.auth  <rules> <event> <state>` → `allow` / `reject`   (model side)
//!   `c08.spec  <ver>   <event> <state>` → `allow` / `reject`   (SPEC side of the driver)
//!   `c09.types <rules> <event>`         → `ok <n> (<type> <key>)*` sorted, or `err`
//!   `c09.reads <rules> <event> <state>` → `allow|reject <n> (<type> <key>)*` the state reads, sorted
//!   `c09.typespec <ver> <event>`        → like `c09.types`, answered by the SPEC side
#[path = "../../h-c07/src/sr.rs"]
mod sr;
mod gen;
mod pdu;
mod scn;

use std::collections::BTreeSet;

use h_lib::{h_util, stok, Outcome, Req, Rng};
use serde_json::{json, Value};

use crate::pdu::*;

fn show_pairs(head: &str, pairs: &BTreeSet<(String, String)>) -> String {
    let mut s = format!("{head} {}", pairs.len());
    for (t, k) in pairs {
        s.push(' ');
        s.push_str(&stok(t));
        s.push(' ');
        s.push_str(&stok(k));
    }
    s
}

/// Deterministic perturbations of the state outside the selected pairs (T3 of C09).
fn perturbations(req: &str, state: &State, selected: &BTreeSet<(String, String)>) -> Vec<State> {
    let mut h: u64 = 0xcbf29ce484222325;
    for b in req.bytes() {
        h = (h ^ b as u64).wrapping_mul(0x100000001b3);
    }
    let mut rng = Rng::new(h);
    let mut out = Vec::new();
    let mk = |ty: &str, key: &str, content: Value| {
        std::sync::Arc::new(
            pdu_of_json(&json!({"event_id": "$perturb", "room_id": "!room:s1", "sender": "@zed:s9", "type": ty,
                "state_key": key, "content": content, "prev_events": [], "auth_events": []}))
            .unwrap(),
        )
    };
    let pool: Vec<(&str, String, Value)> = vec![
        ("m.room.history_visibility", String::new(), json!({"history_visibility": "joined"})),
        ("m.room.member", "@zed:s9".into(), json!({"membership": "ban"})),
        ("m.room.member", "@creator:s1".into(), json!({"membership": "ban"})),
        ("m.room.member", "@alice:s1".into(), json!({"membership": "ban"})),
        ("m.room.member", "@bob:s1".into(), json!({"membership": "join"})),
        ("m.room.member", "@carol:s2".into(), json!({"membership": "join"})),
        ("m.room.join_rules", String::new(), json!({"join_rule": "public"})),
        ("m.room.join_rules", String::new(), json!({"join_rule": 5})),
        ("m.room.power_levels", String::new(), json!({"users_default": 100, "ban": 0, "kick": 0, "invite": 0})),
        ("m.room.power_levels", String::new(), json!({"users": 5})),
        ("m.room.third_party_invite", "tok".into(), json!({"public_key": "AAAA"})),
        ("m.room.third_party_invite", "t2".into(), json!({})),
        ("m.room.create", "x".into(), json!({})),
        ("m.room.topic", String::new(), json!({"topic": "t"})),
    ];
    // add / replace entries outside the selection
    for _ in 0..3 {
        let mut s = state.clone();
        let mut changed = false;
        for _ in 0..1 + rng.below(4) {
            let (ty, key, c) = rng.pick(&pool).clone();
            let k = (ty.to_owned(), key.clone());
            if !selected.contains(&k) {
                s.insert(k, mk(ty, &key, c));
                changed = true;
            }
        }
        if changed {
            out.push(s);
        }
    }
    // remove every entry outside the selection; remove a random subset
    let outside: Vec<_> = state.keys().filter(|k| !selected.contains(*k)).cloned().collect();
    if !outside.is_empty() {
        let mut s = state.clone();
        for k in &outside {
            s.remove(k);
        }
        out.push(s);
        let mut s = state.clone();
        for k in &outside {
            if rng.chance(1, 2) {
                s.remove(k);
            }
        }
        out.push(s);
    }
    out
}

pub fn run(req: &str) -> Outcome {
    let toks: Vec<&str> = req.split(' ').collect();
    if toks.len() < 3 {
        return Outcome::bad();
    }
    // C09 at the level of `resolve` (anchor: "iterative_auth_check builds the auth state from exactly
    // these keys"): rooms in which an event's own auth_events omit / replace selected entries, so
    // that what `iterative_auth_check` hands to `auth_check` matters. Answer = the resolved state.
    if toks[0] == "c09.iter" || toks[0] == "c09.iterspec" {
        let Some(sc) = sr::parse_resolve_args(&toks[1..]) else { return Outcome::bad() };
        let rules = sr::rules_of(sc.ver);
        let r = sr::run_resolve(&rules, &sc.store(), &sc.state_maps(), sc.chain_sets());
        return Outcome::new(sr::show_state(&r));
    }
    let Some(rules) = rules_of_tok(toks[1]) else { return Outcome::bad() };
    let mut it = toks[2..].iter();
    let Some(evv) = h_util::parse_tokens(&mut it) else { return Outcome::bad() };
    let Some(ev) = pdu_of_json(&evv) else { return Outcome::bad() };
    let mut t3 = Vec::new();
    match toks[0] {
        "c08.auth" | "c08.spec" | "c09.reads" => {
            let Some(sv) = h_util::parse_tokens(&mut it) else { return Outcome::bad() };
            let Some(state) = state_of_json(&sv) else { return Outcome::bad() };
            if it.next().is_some() || (toks[0] == "c08.spec" && toks[1].starts_with('r')) {
                return Outcome::bad();
            }
            let (ok, reads) = run_auth(&rules, &ev, &state);
            let verdict = if ok { "allow" } else { "reject" };
            if toks[0] != "c09.reads" {
                return Outcome::new(verdict);
            }
            let read_set: BTreeSet<(String, String)> = reads.into_iter().collect();
            // T3 (only for rule sets of real room versions)
            if !toks[1].starts_with('r') {
                match run_types(&rules, &ev) {
                    Ok(sel) => {
                        let sel: BTreeSet<(String, String)> = sel.into_iter().collect();
                        for r in &read_set {
                            if !sel.contains(r) {
                                t3.push(format!("auth_check read ({}, {:?}) which auth_types_for_event does not select", r.0, r.1));
                            }
                        }
                        for (i, st) in perturbations(req, &state, &sel).iter().enumerate() {
                            let (ok2, _) = run_auth(&rules, &ev, st);
                            if ok2 != ok {
                                t3.push(format!("outcome changed ({verdict} -> {}) under perturbation #{i} of state entries outside the selected auth types", if ok2 { "allow" } else { "reject" }));
                            }
                        }
                    }
                    // When the selection itself fails (malformed content) the property statement says
                    // nothing; model and implementation are compared on it by T2 (see findings/C09.json
                    // for the one class where `auth_check` allows such an event).
                    Err(()) => {}
                }
            }
            Outcome { imp: show_pairs(verdict, &read_set), t3 }
        }
        "c09.types" | "c09.typespec" => {
            if it.next().is_some() || (toks[0] == "c09.typespec" && toks[1].starts_with('r')) {
                return Outcome::bad();
            }
            match run_types(&rules, &ev) {
                Ok(sel) => {
                    let n = sel.len();
                    let set: BTreeSet<(String, String)> = sel.into_iter().collect();
                    if set.len() != n {
                        t3.push("auth_types_for_event returned a duplicate pair".into());
                    }
                    Outcome { imp: show_pairs("ok", &set), t3 }
                }
                Err(()) => Outcome::new("err"),
            }
        }
        _ => Outcome::bad(),
    }
}

const ALIAS: &str = "org.matrix.call.sdp_stream_metadata_changed";

fn scenarios(rng: &mut Rng, n: usize, tier: &str) -> Vec<(scn::Scn, String)> {
    let mut v = gen::exhaustive(rng, tier);
    // the same abstract cases with other concrete ids
    let k = v.len();
    let extra = if tier == "thorough" { k / 4 } else { k / 3 };
    for _ in 0..extra {
        let i = rng.below(k);
        let r = gen::rename(rng, &v[i].0).seal();
        let cls = format!("renamed.{}", v[i].1);
        v.push((r, cls));
    }
    v.extend(gen::random(rng, n));
    v
}

fn gen_c08(rng: &mut Rng, n: usize, tier: &str) -> Vec<Req> {
    let mut out = Vec::new();
    for (s, cls) in scenarios(rng, n, tier) {
        let p = s.payload();
        // The spec is stated over event-type strings; ruma identifies one unstable spelling with its
        // stable name when parsing types (props/C08.json, assumptions): such inputs go to the model only.
        if s.is_version() && !s.no_spec && !s.has_non_object_signature_entity() && !p.contains(&h_util::hex(ALIAS.as_bytes())) {
            out.push(Req::new(format!("c08.spec {p}"), format!("{cls}.spec")));
        }
        out.push(Req::new(format!("c08.auth {p}"), cls));
    }
    out
}

fn gen_c09(rng: &mut Rng, n: usize, tier: &str) -> Vec<Req> {
    let mut out = Vec::new();
    for (s, cls) in scenarios(rng, n, tier) {
        out.push(Req::new(format!("c09.types {}", s.payload_event_only()), format!("{cls}.types")));
        if s.is_version() {
            out.push(Req::new(format!("c09.typespec {}", s.payload_event_only()), format!("{cls}.typespec")));
        }
        out.push(Req::new(format!("c09.reads {}", s.payload()), format!("{cls}.reads")));
    }
    // resolve-level: the selection of every checked event is computed from THAT event (two member events
    // of one sender and target with different selections in one pass), and nothing of an earlier
    // iteration is reused; plus the other deterministic resolve families
    for sc in sr::same_sender_member_cells().into_iter().chain(sr::overlay_member_cells()).chain(sr::early_creator_cells()) {
        if !sr::f4_free(&sc) {
            continue;
        }
        let args = format!("{} {} {}", sc.ver, rng.below(8), sc.payload());
        out.push(Req::new(format!("c09.iter {args}"), "iter.model"));
        out.push(Req::new(format!("c09.iterspec {args}"), "iter.spec"));
    }
    // resolve-level non-interference: histories with incomplete / stale / padded auth_events
    for _ in 0..(n / 40).max(24) {
        let sc = sr::gen_sloppy_auth(rng);
        if !sr::f4_free(&sc) {
            continue;
        }
        let args = format!("{} {} {}", sc.ver, rng.below(8), sc.payload());
        out.push(Req::new(format!("c09.iter {args}"), "iter.model"));
        out.push(Req::new(format!("c09.iterspec {args}"), "iter.spec"));
    }
    out
}

/// T1: the nine `AuthorizationRules` flags per `RoomVersionId::V<n>.rules()`.
fn extract() -> String {
    let mut s = String::new();
    s.push_str("-- GENERATED by `h-c08 c08 extract` from the running implementation. Do not edit.\n");
    s.push_str("import RumaModel.Model.Event\nnamespace Ruma.Generated.C08\nopen Ruma\n\n");
    s.push_str("/-- `RoomVersionId::V<n>.rules().authorization` for n = 1..11, read field by field. -/\n");
    s.push_str("def rulesTable : List (Nat × AuthRules) := [\n");
    for v in 1..=11u32 {
        let r = h_lib::version_id(v).rules().expect("rules").authorization;
        s.push_str(&format!(
            "  ({v}, ⟨{}, {}, {}, {}, {}, {}, {}, {}, {}⟩){}\n",
            r.special_case_room_redaction,
            r.special_case_room_aliases,
            r.strict_canonical_json,
            r.limit_notifications_power_levels,
            r.knocking,
            r.restricted_join_rule,
            r.knock_restricted_join_rule,
            r.integer_power_levels,
            r.use_room_create_sender,
            if v == 11 { "" } else { "," }
        ));
    }
    s.push_str("]\n\nend Ruma.Generated.C08\n");
    s
}

fn main() {
    let prop = std::env::args().nth(1).unwrap_or_default();
    match prop.as_str() {
        "c08" => h_lib::std_main(Some(&extract), &gen_c08, &run),
        "c09" => h_lib::std_main(None, &gen_c09, &run),
        p => {
            eprintln!("unknown property {p}");
            std::process::exit(2);
        }
    }
}
