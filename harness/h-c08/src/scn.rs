//! Scenario builder: a room state plus a candidate event, concretised with fixed ids, and the
//! signature oracle for third-party invites.
use h_lib::h_util;
use ruma_common::{
    serde::{base64::Standard, Base64},
    third_party_invite::IdentityServerBase64PublicKey,
    AnyKeyName, CanonicalJsonObject, CanonicalJsonValue, SigningKeyId,
};
use ruma_signatures::{Ed25519KeyPair, KeyPair};
use serde_json::{json, Map, Value};

pub const CREATOR: &str = "@creator:s1";
pub const ALICE: &str = "@alice:s1";
pub const BOB: &str = "@bob:s1";
pub const CAROL: &str = "@carol:s2";
pub const ROOM: &str = "!room:s1";
pub const CREATE_ID: &str = "$create";

/// The PKCS#8 test key of ruma-signatures' own test-suite (tests/keys/ed25519.der).
const PKCS8: [u8; 48] = [
    0x30, 0x2e, 0x02, 0x01, 0x00, 0x30, 0x05, 0x06, 0x03, 0x2b, 0x65, 0x70, 0x04, 0x22, 0x04, 0x20,
    0x3e, 0x1d, 0x3b, 0x89, 0x2c, 0x20, 0x36, 0x70, 0xb7, 0xe9, 0x38, 0x20, 0x4a, 0x18, 0x9a, 0x93,
    0x4b, 0x61, 0x1d, 0x4a, 0xde, 0x7d, 0x4d, 0xae, 0xb7, 0x49, 0xaa, 0x0a, 0xc5, 0x90, 0xb0, 0xa2,
];

pub fn keypair() -> Ed25519KeyPair {
    Ed25519KeyPair::from_der(&PKCS8, "1".to_owned()).expect("test key")
}

pub fn public_key_b64() -> String {
    IdentityServerBase64PublicKey::new(&keypair().public_key()).0
}

/// Sign a `signed` object (without its `signatures`) with the test key; returns the base64 signature.
pub fn sign_signed(signed: &Value) -> Option<String> {
    let CanonicalJsonValue::Object(o) = CanonicalJsonValue::try_from(signed.clone()).ok()? else {
        return None;
    };
    let text = ruma_signatures::canonical_json(&o).ok()?;
    Some(keypair().sign(text.as_bytes()).base64())
}

#[derive(Clone, Debug)]
pub struct Ev {
    pub id: String,
    pub room: String,
    pub sender: String,
    pub ty: String,
    pub sk: Option<String>,
    pub content: Value,
    pub prev: Vec<String>,
    pub auth: Vec<String>,
    pub redacts: Option<String>,
    pub verified: Vec<[String; 3]>,
}

impl Ev {
    pub fn new(id: &str, sender: &str, ty: &str, sk: Option<&str>, content: Value) -> Ev {
        Ev {
            id: id.to_owned(),
            room: ROOM.to_owned(),
            sender: sender.to_owned(),
            ty: ty.to_owned(),
            sk: sk.map(str::to_owned),
            content,
            prev: vec!["$prev".to_owned()],
            auth: vec![CREATE_ID.to_owned()],
            redacts: None,
            verified: vec![],
        }
    }

    pub fn json(&self) -> Value {
        let mut m = Map::new();
        m.insert("event_id".into(), json!(self.id));
        m.insert("room_id".into(), json!(self.room));
        m.insert("sender".into(), json!(self.sender));
        m.insert("type".into(), json!(self.ty));
        if let Some(k) = &self.sk {
            m.insert("state_key".into(), json!(k));
        }
        m.insert("content".into(), self.content.clone());
        m.insert("prev_events".into(), json!(self.prev));
        m.insert("auth_events".into(), json!(self.auth));
        if let Some(r) = &self.redacts {
            m.insert("redacts".into(), json!(r));
        }
        if !self.verified.is_empty() {
            m.insert("verified".into(), json!(self.verified));
        }
        Value::Object(m)
    }
}

#[derive(Clone, Debug)]
pub struct Scn {
    /// `1`..`11` or `r` + nine bits.
    pub rules: String,
    pub create: Option<Ev>,
    /// user id → content of that user's `m.room.member` state event.
    pub members: Vec<(String, Value)>,
    pub jr: Option<Value>,
    pub pl: Option<Value>,
    pub tpis: Vec<Ev>,
    pub extra: Vec<Ev>,
    pub ev: Ev,
    /// Outside the domain of the spec side (see props/C08.json, assumptions): compared with the model only.
    pub no_spec: bool,
}

impl Scn {
    /// A healthy room of version `ver`: create event by CREATOR (with `creator`), CREATOR joined.
    pub fn new(ver: u32, ev: Ev) -> Scn {
        let create = Ev {
            prev: vec![],
            auth: vec![],
            ..Ev::new(
                CREATE_ID,
                CREATOR,
                "m.room.create",
                Some(""),
                json!({"creator": CREATOR, "room_version": ver.to_string()}),
            )
        };
        Scn {
            rules: ver.to_string(),
            create: Some(create),
            members: vec![(CREATOR.to_owned(), json!({"membership": "join"}))],
            jr: None,
            pl: None,
            tpis: vec![],
            extra: vec![],
            ev,
            no_spec: false,
        }
    }

    pub fn set_member(&mut self, user: &str, content: Option<Value>) {
        self.members.retain(|(u, _)| u != user);
        if let Some(c) = content {
            self.members.push((user.to_owned(), c));
        }
    }

    pub fn state(&self) -> Vec<Ev> {
        let mut v = Vec::new();
        if let Some(c) = &self.create {
            v.push(c.clone());
        }
        if let Some(pl) = &self.pl {
            v.push(Ev::new("$pl", CREATOR, "m.room.power_levels", Some(""), pl.clone()));
        }
        if let Some(jr) = &self.jr {
            v.push(Ev::new("$jr", CREATOR, "m.room.join_rules", Some(""), jr.clone()));
        }
        for (i, (u, c)) in self.members.iter().enumerate() {
            v.push(Ev::new(&format!("$m{i}"), u, "m.room.member", Some(u), c.clone()));
        }
        v.extend(self.tpis.iter().cloned());
        v.extend(self.extra.iter().cloned());
        v
    }

    /// Fill `ev.verified` with the oracle table for the external signature check.
    pub fn seal(mut self) -> Scn {
        self.ev.verified = compute_verified(&self.ev, &self.state());
        self
    }

    /// `<rules> <event> <state>`.
    pub fn payload(&self) -> String {
        let state: Vec<Value> = self.state().iter().map(Ev::json).collect();
        format!("{} {} {}", self.rules, h_util::jtoks(&self.ev.json()), h_util::jtoks(&Value::Array(state)))
    }

    /// `<rules> <event>`.
    pub fn payload_event_only(&self) -> String {
        format!("{} {}", self.rules, h_util::jtoks(&self.ev.json()))
    }

    pub fn is_version(&self) -> bool {
        !self.rules.starts_with('r')
    }

    /// `signed.signatures` has an entity whose value is not an object.
    pub fn has_non_object_signature_entity(&self) -> bool {
        let tpi = self.ev.content.get("third_party_invite");
        let signed = match tpi {
            Some(Value::Object(o)) => o.get("signed"),
            Some(Value::Array(a)) => a.first(),
            _ => None,
        };
        match signed.and_then(|s| s.get("signatures")) {
            Some(Value::Object(sigs)) => sigs.values().any(|v| !v.is_object()),
            _ => false,
        }
    }
}

fn collect_pk_strings(content: &Value, out: &mut Vec<String>) {
    if let Some(s) = content.get("public_key").and_then(Value::as_str) {
        out.push(s.to_owned());
    }
    if let Some(a) = content.get("public_keys").and_then(Value::as_array) {
        for e in a {
            if let Some(s) = e.get("public_key").and_then(Value::as_str) {
                out.push(s.to_owned());
            }
            if let Some(s) = e.as_array().and_then(|x| x.first()).and_then(Value::as_str) {
                out.push(s.to_owned());
            }
        }
    }
}

/// The oracle for the external cryptographic check: all (key id, signature string, public key
/// string) triples occurring in the event's `third_party_invite.signed.signatures` and in any
/// `m.room.third_party_invite` state event for which key-id parsing, base64 decoding and
/// `verify_canonical_json_bytes` over the canonical `signed` object succeed.
pub fn compute_verified(ev: &Ev, state: &[Ev]) -> Vec<[String; 3]> {
    let mut out = Vec::new();
    let tpi = match ev.content.get("third_party_invite") {
        Some(t) => t,
        None => return out,
    };
    let signed = match tpi {
        Value::Object(o) => o.get("signed"),
        Value::Array(a) => a.first(),
        _ => None,
    };
    let Some(signed) = signed else { return out };
    let Ok(CanonicalJsonValue::Object(signed)) = CanonicalJsonValue::try_from(signed.clone()) else {
        return out;
    };
    let signed: CanonicalJsonObject = signed;
    let Ok(text) = ruma_signatures::canonical_json(&signed) else { return out };
    let mut pks = Vec::new();
    for s in state {
        if s.ty == "m.room.third_party_invite" {
            collect_pk_strings(&s.content, &mut pks);
        }
    }
    pks.sort();
    pks.dedup();
    let Some(CanonicalJsonValue::Object(sigs)) = signed.get("signatures") else { return out };
    for ent in sigs.values() {
        let CanonicalJsonValue::Object(ent) = ent else { continue };
        for (kid, sv) in ent {
            let CanonicalJsonValue::String(sig) = sv else { continue };
            let Ok(parsed) = <&SigningKeyId<AnyKeyName>>::try_from(kid.as_str()) else { continue };
            let Ok(sigb) = Base64::<Standard>::parse(sig) else { continue };
            for pk in &pks {
                let Ok(pkb) = IdentityServerBase64PublicKey(pk.clone()).decode() else { continue };
                if ruma_signatures::verify_canonical_json_bytes(
                    &parsed.algorithm(),
                    &pkb,
                    sigb.as_bytes(),
                    text.as_bytes(),
                )
                .is_ok()
                {
                    let t = [kid.clone(), sig.clone(), pk.clone()];
                    if !out.contains(&t) {
                        out.push(t);
                    }
                }
            }
        }
    }
    out
}
