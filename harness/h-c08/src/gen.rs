//! Generators. (a) the exhaustive abstraction, family by family (thorough enumerates it, quick
//! samples it); (b) random concrete instances with malformed contents, odd ids, extreme levels and
//! arbitrary rule-flag combinations.
use h_lib::Rng;
use serde_json::{json, Map, Value};

use crate::scn::*;

pub struct Out {
    pub scns: Vec<(Scn, String)>,
    /// keep probability numerator / 1_000_000 per family (thorough: 1_000_000)
    keep: u64,
    rng: Rng,
    /// strata already represented (see `want_s`)
    seen: std::collections::HashSet<u64>,
}

/// The seven classes of room versions with identical authorization-rule flags.
fn vclass(ver: u32) -> u32 {
    match ver {
        1 | 2 => 0,
        3..=5 => 1,
        6 => 2,
        7 => 3,
        8 | 9 => 4,
        10 => 5,
        _ => 6,
    }
}

impl Out {
    fn want(&mut self) -> bool {
        self.keep >= 1_000_000 || (self.rng.next() % 1_000_000) < self.keep
    }
    /// Stratified sampling for the quick tier: the first cell of every stratum (the projection of
    /// the family's product onto the dimensions that select the rule applied: version class,
    /// memberships, join rule, ...) is always kept, the others with the family's keep probability.
    /// A uniform sample of a 260 000-cell product at 0.35 % would miss a stratum such as
    /// "banned user joins a public room" (88 cells) most of the time.
    fn want_s<K: std::hash::Hash>(&mut self, key: K) -> bool {
        use std::hash::Hasher;
        let mut h = std::collections::hash_map::DefaultHasher::new();
        key.hash(&mut h);
        let fresh = self.seen.insert(h.finish());
        fresh || self.want()
    }
    /// Two projections at once (e.g. rule-selecting dimensions, and threshold position): kept when
    /// either stratum is new.
    fn want_s2<K: std::hash::Hash, L: std::hash::Hash>(&mut self, k1: K, k2: L) -> bool {
        use std::hash::Hasher;
        let mut h1 = std::collections::hash_map::DefaultHasher::new();
        k1.hash(&mut h1);
        let mut h2 = std::collections::hash_map::DefaultHasher::new();
        k2.hash(&mut h2);
        let f1 = self.seen.insert(h1.finish());
        let f2 = self.seen.insert(h2.finish() ^ 0x9e37_79b9_7f4a_7c15);
        f1 || f2 || self.want()
    }
    fn push(&mut self, s: Scn, cls: &str) {
        self.scns.push((s.seal(), cls.to_owned()));
    }
}

#[derive(Clone, Copy, PartialEq, Debug)]
pub enum Mem {
    Absent,
    Join,
    Invite,
    Leave,
    Ban,
    Knock,
    Weird,
}
pub const MEMS: [Mem; 7] = [Mem::Absent, Mem::Join, Mem::Invite, Mem::Leave, Mem::Ban, Mem::Knock, Mem::Weird];

pub fn mem_content(m: Mem) -> Option<Value> {
    let s = match m {
        Mem::Absent => return None,
        Mem::Join => "join",
        Mem::Invite => "invite",
        Mem::Leave => "leave",
        Mem::Ban => "ban",
        Mem::Knock => "knock",
        Mem::Weird => "x.weird",
    };
    Some(json!({ "membership": s }))
}

pub const JRS: [Option<&str>; 8] = [
    None,
    Some("public"),
    Some("invite"),
    Some("knock"),
    Some("restricted"),
    Some("knock_restricted"),
    Some("private"),
    Some("x.weird"),
];

fn jr_content(j: Option<&str>) -> Option<Value> {
    j.map(|s| json!({ "join_rule": s }))
}

/// A level as an integer or as a string (accepted before room version 10).
fn lv(v: i64, as_str: bool) -> Value {
    if as_str {
        json!(v.to_string())
    } else {
        json!(v)
    }
}

fn pl_content(users: &[(&str, i64)], fields: &[(&str, i64)], events: &[(&str, i64)], as_str: bool) -> Value {
    let mut m = Map::new();
    for (k, v) in fields {
        m.insert((*k).to_owned(), lv(*v, as_str));
    }
    if !users.is_empty() {
        let mut u = Map::new();
        for (k, v) in users {
            u.insert((*k).to_owned(), lv(*v, as_str));
        }
        m.insert("users".into(), Value::Object(u));
    }
    if !events.is_empty() {
        let mut e = Map::new();
        for (k, v) in events {
            e.insert((*k).to_owned(), lv(*v, as_str));
        }
        m.insert("events".into(), Value::Object(e));
    }
    Value::Object(m)
}

fn member_ev(sender: &str, target: &str, membership: &str) -> Ev {
    Ev::new("$ev", sender, "m.room.member", Some(target), json!({ "membership": membership }))
}

fn sizes(tier: &str, full: u64, quick_target: u64) -> u64 {
    if tier == "thorough" {
        1_000_000
    } else {
        (quick_target * 1_000_000 / full.max(1)).clamp(1, 1_000_000)
    }
}

// ---------------------------------------------------------------------------------------------
// families
// ---------------------------------------------------------------------------------------------

fn fam_create(o: &mut Out) {
    let rooms = ["!room:s1", "!room:s2", "!room", "!room:not a server", "!room:s1:8448", "!room:[::1]"];
    let creators = [None, Some(json!(CREATOR)), Some(Value::Null), Some(json!(5)), Some(json!("x"))];
    for ver in 1..=11u32 {
        for room in rooms {
            for prev in [0usize, 1] {
                for c in &creators {
                    for sender in [CREATOR, "@creator:s1:8448", "@creator:[::1]"] {
                        if !o.want() {
                            continue;
                        }
                        let mut content = Map::new();
                        content.insert("room_version".into(), json!(ver.to_string()));
                        if let Some(c) = c {
                            content.insert("creator".into(), c.clone());
                        }
                        let mut ev = Ev::new(CREATE_ID, sender, "m.room.create", Some(""), Value::Object(content));
                        ev.room = room.to_owned();
                        ev.prev = if prev == 0 { vec![] } else { vec!["$x".into()] };
                        ev.auth = vec![];
                        let mut s = Scn::new(ver, ev);
                        s.create = None;
                        s.members.clear();
                        o.push(s, "create");
                    }
                }
            }
        }
    }
}

fn fam_prechecks(o: &mut Out) {
    let feds = [None, Some(json!(true)), Some(json!(false)), Some(Value::Null), Some(json!("x"))];
    for ver in 1..=11u32 {
        for in_state in [true, false] {
            for in_auth in [true, false] {
                for fed in &feds {
                    for sender in [ALICE, CAROL] {
                        for kind in 0..4 {
                            if !o.want() {
                                continue;
                            }
                            let ev = match kind {
                                0 => Ev::new("$ev", sender, "m.room.message", None, json!({"body": "x"})),
                                1 => member_ev(sender, sender, "join"),
                                2 => Ev::new("$ev", sender, "m.room.aliases", Some(&sender[sender.find(':').unwrap() + 1..]), json!({})),
                                _ => member_ev(sender, sender, "leave"),
                            };
                            let mut s = Scn::new(ver, ev);
                            if !in_auth {
                                s.ev.auth = vec!["$other".into()];
                            }
                            if let Some(f) = fed {
                                s.create.as_mut().unwrap().content["m.federate"] = f.clone();
                            }
                            if !in_state {
                                s.create = None;
                            }
                            s.set_member(sender, Some(json!({"membership": "join"})));
                            s.jr = Some(json!({"join_rule": "public"}));
                            o.push(s, "prechecks");
                        }
                    }
                }
            }
        }
    }
}

fn fam_aliases(o: &mut Out) {
    for ver in 1..=11u32 {
        for sk in [None, Some("s1"), Some("s2"), Some(""), Some("S1")] {
            for m in MEMS {
                for lvl in [0i64, 50] {
                    if !o.want() {
                        continue;
                    }
                    let mut ev = Ev::new("$ev", ALICE, "m.room.aliases", sk, json!({"aliases": []}));
                    ev.sk = sk.map(str::to_owned);
                    let mut s = Scn::new(ver, ev);
                    s.set_member(ALICE, mem_content(m));
                    s.pl = Some(pl_content(&[(ALICE, lvl)], &[], &[], false));
                    o.push(s, "aliases");
                }
            }
        }
    }
}

#[derive(Clone, Copy)]
enum Via {
    Absent,
    Joined,
    NotJoined,
    NoMember,
    Invalid,
    Null,
    NonString,
    Creator,
}

fn fam_join(o: &mut Out) {
    let vias = [Via::Absent, Via::Joined, Via::NotJoined, Via::NoMember, Via::Invalid, Via::Null, Via::NonString, Via::Creator];
    for ver in 1..=11u32 {
        for sender in [CREATOR, ALICE] {
            for tgt in 0..3 {
                let target = match tgt {
                    0 => sender,
                    1 => BOB,
                    _ => CREATOR,
                };
                for prev in 0..4 {
                    for cur in MEMS {
                        for jr in JRS {
                            let restricted = matches!(jr, Some("restricted") | Some("knock_restricted"));
                            // (via, pl variant) combinations only matter under restricted rules;
                            // elsewhere one arbitrary pick keeps the dimension alive.
                            let mut combos: Vec<(Via, usize, bool)> = Vec::new();
                            if restricted && sender == target {
                                for v in vias {
                                    for plv in 0..8usize {
                                        for as_str in [false, true] {
                                            combos.push((v, plv, as_str));
                                        }
                                    }
                                }
                            } else {
                                let v = vias[o.rng.below(vias.len())];
                                combos.push((v, o.rng.below(8), o.rng.chance(1, 2)));
                            }
                            for (via, plv, as_str) in combos {
                                if !o.want_s((0u8, vclass(ver), tgt, cur as u8, jr, matches!(via, Via::Absent))) {
                                    continue;
                                }
                                let mut ev = member_ev(sender, target, "join");
                                ev.prev = match prev {
                                    0 => vec![CREATE_ID.into()],
                                    1 => vec![CREATE_ID.into(), "$x".into()],
                                    2 => vec!["$x".into()],
                                    _ => vec![],
                                };
                                let via_user = match via {
                                    Via::Creator => CREATOR,
                                    _ => CAROL,
                                };
                                match via {
                                    Via::Absent => {}
                                    Via::Invalid => ev.content["join_authorised_via_users_server"] = json!("carol"),
                                    Via::Null => ev.content["join_authorised_via_users_server"] = Value::Null,
                                    Via::NonString => ev.content["join_authorised_via_users_server"] = json!(1),
                                    _ => ev.content["join_authorised_via_users_server"] = json!(via_user),
                                }
                                let mut s = Scn::new(ver, ev);
                                s.set_member(target, mem_content(cur));
                                match via {
                                    Via::Joined => s.set_member(CAROL, mem_content(Mem::Join)),
                                    Via::NotJoined => s.set_member(CAROL, mem_content(Mem::Leave)),
                                    _ => {}
                                }
                                if matches!(via, Via::Creator) && target != CREATOR {
                                    s.set_member(CREATOR, mem_content(Mem::Join));
                                }
                                s.jr = jr_content(jr);
                                // pl variants: 0 none; 1..=3 invite absent (0), via level -1/0/1;
                                // 4..=6 invite 10, via level 9/10/11; 7 invite 10, via via users_default 10
                                s.pl = match plv {
                                    0 => None,
                                    1..=3 => Some(pl_content(&[(via_user, plv as i64 - 2)], &[], &[], as_str)),
                                    4..=6 => Some(pl_content(&[(via_user, plv as i64 + 5)], &[("invite", 10)], &[], as_str)),
                                    _ => Some(pl_content(&[], &[("invite", 10), ("users_default", 10)], &[], as_str)),
                                };
                                o.push(s, "join");
                            }
                        }
                    }
                }
            }
        }
    }
}

/// (power-levels content or none) for "sender level vs threshold field": none; field absent with
/// sender at default-1/default/default+1; field = t with sender at t-1/t/t+1.
fn threshold_pls(user: &str, field: &str, dflt: i64, t: i64) -> Vec<Option<Value>> {
    let mut v = vec![None];
    for as_str in [false, true] {
        for d in [-1, 0, 1] {
            v.push(Some(pl_content(&[(user, dflt + d)], &[], &[], as_str)));
            v.push(Some(pl_content(&[(user, t + d)], &[(field, t)], &[], as_str)));
            v.push(Some(pl_content(&[], &[(field, t), ("users_default", t + d)], &[], as_str)));
        }
    }
    v
}

fn fam_invite(o: &mut Out) {
    for ver in 1..=11u32 {
        for sender in [CREATOR, ALICE] {
            for target_self in [false, true] {
                let target = if target_self { sender } else { BOB };
                for sm in MEMS {
                    for tm in MEMS {
                        let pls = if sm == Mem::Join {
                            threshold_pls(sender, "invite", 0, 10)
                        } else {
                            let all = threshold_pls(sender, "invite", 0, 10);
                            vec![all[o.rng.below(all.len())].clone()]
                        };
                        for (vi, pl) in pls.into_iter().enumerate() {
                            if !o.want_s2((1u8, vclass(ver), target_self, sm as u8, tm as u8), (11u8, vi, tm as u8, target_self, sm == Mem::Join)) {
                                continue;
                            }
                            let mut s = Scn::new(ver, member_ev(sender, target, "invite"));
                            s.set_member(sender, mem_content(sm));
                            if !target_self {
                                s.set_member(target, mem_content(tm));
                            }
                            s.pl = pl;
                            o.push(s, "invite");
                        }
                    }
                }
            }
        }
    }
}

fn signed_obj(mxid: &str, token: &str, with_sig: bool) -> Value {
    let mut signed = json!({"mxid": mxid, "token": token});
    if with_sig {
        let sig = sign_signed(&signed).unwrap();
        signed["signatures"] = json!({"id.s1": {"ed25519:1": sig}});
    }
    signed
}

fn fam_tpi_invite(o: &mut Out) {
    let pk = public_key_b64();
    let other_pk = "AAAAAAAAAAAAAAAAAAAAAAAAAAAAAAAAAAAAAAAAAAA";
    for ver in 1..=11u32 {
        for tm in MEMS {
            for signed_kind in 0..12 {
                for tpi_kind in 0..8 {
                    if !o.want_s((2u8, tm as u8, signed_kind, tpi_kind)) {
                        continue;
                    }
                    let good = signed_obj(BOB, "tok", true);
                    let sig = good["signatures"]["id.s1"]["ed25519:1"].clone();
                    let tpi_val = match signed_kind {
                        0 => json!({"signed": good}),
                        1 => json!({}),
                        2 => json!({"signed": {"mxid": BOB, "signatures": {"id.s1": {"ed25519:1": sig}}}}),
                        3 => json!({"signed": {"token": "tok", "signatures": {"id.s1": {"ed25519:1": sig}}}}),
                        4 => json!({"signed": signed_obj(CAROL, "tok", true)}),
                        5 => json!({"signed": signed_obj(BOB, "tok", false)}),
                        6 => json!({"signed": {"mxid": BOB, "token": "tok", "signatures": 5}}),
                        7 => json!({"signed": {"mxid": BOB, "token": "tok", "signatures": {"a": 5, "id.s1": {"ed25519:1": sig}}}}),
                        8 => json!({"signed": {"mxid": BOB, "token": "tok", "signatures": {"id.s1": {"ed25519:1": sig}, "z": 5}}}),
                        9 => json!({"signed": {"mxid": BOB, "token": "tok", "signatures": {"id.s1": {"bad key id": sig, "ed25519:2": 7, "ed25519:3": "!!!", "ed25519:1": "AAAA"}}}}),
                        10 => json!([good]),
                        _ => json!({"signed": {"mxid": BOB, "token": "other", "signatures": {"id.s1": {"ed25519:1": sig}}}}),
                    };
                    let mut ev = member_ev(ALICE, BOB, "invite");
                    ev.content["third_party_invite"] = tpi_val;
                    let mut s = Scn::new(ver, ev);
                    s.set_member(ALICE, mem_content(Mem::Join));
                    s.set_member(BOB, mem_content(tm));
                    let tpi_content = match tpi_kind {
                        0 => Some((ALICE, json!({"public_key": pk}))),
                        1 => None,
                        2 => Some((CAROL, json!({"public_key": pk}))),
                        3 => Some((ALICE, json!({"public_key": other_pk}))),
                        4 => Some((ALICE, json!({"public_keys": [{"public_key": other_pk}, {"public_key": pk}]}))),
                        5 => Some((ALICE, json!({"public_key": other_pk, "public_keys": [[pk]]}))),
                        6 => Some((ALICE, json!({"public_key": 5}))),
                        _ => Some((ALICE, json!({"public_keys": [{"key": pk}]}))),
                    };
                    if let Some((snd, c)) = tpi_content {
                        s.tpis.push(Ev::new("$tpi", snd, "m.room.third_party_invite", Some("tok"), c));
                    }
                    o.push(s, "tpi_invite");
                }
            }
        }
    }
}

fn fam_leave(o: &mut Out) {
    for ver in 1..=11u32 {
        for sender in [CREATOR, ALICE] {
            for sm in MEMS {
                // self
                if o.want_s((3u8, vclass(ver), sm as u8)) {
                    let mut s = Scn::new(ver, member_ev(sender, sender, "leave"));
                    s.set_member(sender, mem_content(sm));
                    if o.rng.chance(1, 2) {
                        s.pl = Some(pl_content(&[(sender, 0)], &[("kick", 100)], &[], false));
                    }
                    o.push(s, "leave.self");
                }
                for tm in MEMS {
                    // kick / unban: kick K ∈ {absent(50), 30}; sender s ∈ K-1..K+1; target t ∈ s-1..s+1;
                    // ban B ∈ {absent, s-1, s, s+1}
                    let mut variants: Vec<Option<Value>> = vec![None];
                    for as_str in [false, true] {
                        for k in [None, Some(30i64)] {
                            let kv = k.unwrap_or(50);
                            for ds in [-1, 0, 1] {
                                let sl = kv + ds;
                                for dt in [-1, 0, 1] {
                                    for b in [None, Some(sl - 1), Some(sl), Some(sl + 1)] {
                                        let mut f: Vec<(&str, i64)> = vec![];
                                        if let Some(k) = k {
                                            f.push(("kick", k));
                                        }
                                        if let Some(b) = b {
                                            f.push(("ban", b));
                                        }
                                        variants.push(Some(pl_content(&[(sender, sl), (BOB, sl + dt)], &f, &[], as_str)));
                                    }
                                }
                            }
                        }
                    }
                    if sm != Mem::Join {
                        let pick = variants[o.rng.below(variants.len())].clone();
                        variants = vec![pick];
                    }
                    for (vi, pl) in variants.into_iter().enumerate() {
                        if !o.want_s2((31u8, vclass(ver), sm as u8, tm as u8), (32u8, vi, tm as u8, sm == Mem::Join)) {
                            continue;
                        }
                        let mut s = Scn::new(ver, member_ev(sender, BOB, "leave"));
                        s.set_member(sender, mem_content(sm));
                        s.set_member(BOB, mem_content(tm));
                        s.pl = pl;
                        o.push(s, "leave.other");
                    }
                }
            }
        }
    }
}

fn fam_ban(o: &mut Out) {
    for ver in 1..=11u32 {
        for sender in [CREATOR, ALICE] {
            for target_self in [false, true] {
                let target = if target_self { sender } else { BOB };
                for sm in MEMS {
                    for tm in MEMS {
                        let mut variants: Vec<Option<Value>> = vec![None];
                        for as_str in [false, true] {
                            for b in [None, Some(30i64)] {
                                let bv = b.unwrap_or(50);
                                for ds in [-1, 0, 1] {
                                    for dt in [-1, 0, 1] {
                                        let sl = bv + ds;
                                        let f: Vec<(&str, i64)> = b.map(|b| vec![("ban", b)]).unwrap_or_default();
                                        if target_self {
                                            variants.push(Some(pl_content(&[(sender, sl)], &f, &[], as_str)));
                                        } else {
                                            variants.push(Some(pl_content(&[(sender, sl), (BOB, sl + dt)], &f, &[], as_str)));
                                            variants.push(Some(pl_content(&[(sender, sl)], &{ let mut g = f.clone(); g.push(("users_default", sl + dt)); g }, &[], as_str)));
                                        }
                                    }
                                }
                            }
                        }
                        if sm != Mem::Join {
                            let pick = variants[o.rng.below(variants.len())].clone();
                            variants = vec![pick];
                        }
                        for (vi, pl) in variants.into_iter().enumerate() {
                            if !o.want_s2((4u8, vclass(ver), target_self, sm as u8, tm as u8), (41u8, vi, tm as u8, target_self, sm == Mem::Join)) {
                                continue;
                            }
                            let mut s = Scn::new(ver, member_ev(sender, target, "ban"));
                            s.set_member(sender, mem_content(sm));
                            if !target_self {
                                s.set_member(target, mem_content(tm));
                            }
                            s.pl = pl;
                            o.push(s, "ban");
                        }
                    }
                }
            }
        }
    }
}

fn fam_knock(o: &mut Out) {
    for ver in 1..=11u32 {
        for target_self in [true, false] {
            for jr in JRS {
                for sm in MEMS {
                    if !o.want_s((5u8, vclass(ver), target_self, jr, sm as u8)) {
                        continue;
                    }
                    let target = if target_self { ALICE } else { BOB };
                    let mut s = Scn::new(ver, member_ev(ALICE, target, "knock"));
                    s.set_member(ALICE, mem_content(sm));
                    s.jr = jr_content(jr);
                    o.push(s, "knock");
                }
            }
        }
    }
}

fn fam_member_shape(o: &mut Out) {
    // state_key / membership shape
    let sks = [None, Some("@bob:s1"), Some("bob"), Some("@bob"), Some("@bob:s1:x"), Some("@:s1"), Some("")];
    let ms = [Some(json!("join")), Some(json!("leave")), Some(json!("x.weird")), Some(json!(5)), Some(Value::Null), None, Some(json!("knock")), Some(json!("invite")), Some(json!("ban"))];
    for ver in 1..=11u32 {
        for sk in sks {
            for m in &ms {
                if !o.want() {
                    continue;
                }
                let mut ev = Ev::new("$ev", ALICE, "m.room.member", sk, json!({}));
                if let Some(m) = m {
                    ev.content["membership"] = m.clone();
                }
                let mut s = Scn::new(ver, ev);
                s.set_member(ALICE, mem_content(Mem::Join));
                s.jr = jr_content(Some("public"));
                s.pl = Some(pl_content(&[(ALICE, 100)], &[], &[], false));
                o.push(s, "member.shape");
            }
        }
    }
}

fn fam_tpi_event(o: &mut Out) {
    for ver in 1..=11u32 {
        for sm in MEMS {
            for pl in threshold_pls(ALICE, "invite", 0, 10) {
                if !o.want() {
                    continue;
                }
                let ev = Ev::new("$ev", ALICE, "m.room.third_party_invite", Some("tok"), json!({"public_key": "x"}));
                let mut s = Scn::new(ver, ev);
                s.set_member(ALICE, mem_content(sm));
                s.pl = pl;
                o.push(s, "tpi_event");
            }
        }
    }
}

fn fam_required_power(o: &mut Out) {
    // (type, state_key)
    let kinds: [(&str, Option<&str>); 9] = [
        ("m.room.message", None),
        ("m.room.topic", Some("")),
        ("x.custom", Some(ALICE)),
        ("x.custom", Some(BOB)),
        ("x.custom", Some("abc")),
        ("x.custom", Some("@")),
        ("m.room.join_rules", Some("")),
        ("m.room.redaction", None),
        ("m.room.aliases", Some("s1")),
    ];
    for ver in 1..=11u32 {
        for (ty, sk) in kinds {
            for sm in MEMS {
                let dfield = if sk.is_some() { "state_default" } else { "events_default" };
                let ddef = if sk.is_some() { 50 } else { 0 };
                let mut variants: Vec<Option<Value>> = vec![None];
                for as_str in [false, true] {
                    for in_events in [None, Some(20i64)] {
                        for d in [None, Some(30i64)] {
                            let thr = in_events.or(d).unwrap_or(ddef);
                            for ds in [-1, 0, 1] {
                                let mut f: Vec<(&str, i64)> = vec![];
                                if let Some(d) = d {
                                    f.push((dfield, d));
                                }
                                let e: Vec<(&str, i64)> = in_events.map(|x| vec![(ty, x)]).unwrap_or_default();
                                variants.push(Some(pl_content(&[(ALICE, thr + ds)], &f, &e, as_str)));
                            }
                        }
                    }
                }
                if sm != Mem::Join {
                    let pick = variants[o.rng.below(variants.len())].clone();
                    variants = vec![pick];
                }
                for (vi, pl) in variants.into_iter().enumerate() {
                    if !o.want_s2((6u8, vclass(ver), ty, sk, sm as u8), (61u8, vi, ty, sk, sm == Mem::Join)) {
                        continue;
                    }
                    let mut ev = Ev::new("$ev:s1", ALICE, ty, sk, json!({}));
                    if ty == "m.room.redaction" {
                        ev.redacts = Some("$x:s1".into());
                    }
                    let mut s = Scn::new(ver, ev);
                    s.set_member(ALICE, mem_content(sm));
                    s.pl = pl;
                    o.push(s, "required_power");
                }
            }
        }
    }
}

fn fam_power_levels(o: &mut Out) {
    let int_fields = ["users_default", "events_default", "state_default", "ban", "redact", "kick", "invite"];
    // which single dimension is varied: 0..7 int field; 7 events entry; 8 notifications entry;
    // 9 users entry of BOB; 10 users entry of the sender; 11 users entry of CAROL with cur = sender level
    for ver in 1..=11u32 {
        for sl in [0i64, 50, 100] {
            for cur_present in [true, false] {
                for dim in 0..11usize {
                    for old in [None, Some(-1i64), Some(0), Some(1)] {
                        for new in [None, Some(-1i64), Some(0), Some(1)] {
                            for as_str in [false, true] {
                                if !o.want_s((7u8, ver >= 10, sl, dim, old, new)) {
                                    continue;
                                }
                                let val = |d: Option<i64>| d.map(|d| lv(sl + d, as_str));
                                // the sender may always send m.room.power_levels in these scenarios
                                let base = |users_sender: Option<Value>| {
                                    let mut m = Map::new();
                                    m.insert("events".into(), json!({"m.room.power_levels": lv(sl.min(0), as_str)}));
                                    let mut u = Map::new();
                                    if let Some(v) = users_sender {
                                        u.insert(ALICE.into(), v);
                                    }
                                    m.insert("users".into(), Value::Object(u));
                                    m
                                };
                                let mut cur = base(Some(lv(sl, as_str)));
                                let mut newc = base(Some(lv(sl, as_str)));
                                let put = |m: &mut Map<String, Value>, v: Option<Value>| {
                                    let Some(v) = v else { return };
                                    match dim {
                                        0..=6 => {
                                            m.insert(int_fields[dim].into(), v);
                                        }
                                        7 => {
                                            m["events"]["m.room.name"] = v;
                                        }
                                        8 => {
                                            m.insert("notifications".into(), json!({ "room": v }));
                                        }
                                        9 => {
                                            m["users"][BOB] = v;
                                        }
                                        _ => {
                                            m["users"][ALICE] = v;
                                        }
                                    }
                                };
                                if dim == 10 {
                                    // sender's own entry: current is always the sender level; absent
                                    // means "through users_default"
                                    if old.is_none() {
                                        cur["users"].as_object_mut().unwrap().remove(ALICE);
                                        cur.insert("users_default".into(), lv(sl, as_str));
                                        newc.insert("users_default".into(), lv(sl, as_str));
                                    }
                                    match new {
                                        None => {
                                            newc["users"].as_object_mut().unwrap().remove(ALICE);
                                        }
                                        Some(_) => put(&mut newc, val(new)),
                                    }
                                } else {
                                    put(&mut cur, val(old));
                                    put(&mut newc, val(new));
                                }
                                let ev = Ev::new("$ev", ALICE, "m.room.power_levels", Some(""), Value::Object(newc));
                                let mut s = Scn::new(ver, ev);
                                s.set_member(ALICE, mem_content(Mem::Join));
                                s.pl = if cur_present { Some(Value::Object(cur)) } else { None };
                                o.push(s, "power_levels");
                            }
                        }
                    }
                }
            }
        }
    }
}

fn fam_redaction(o: &mut Out) {
    for ver in 1..=11u32 {
        for id in ["$e:s1", "$e"] {
            for red in [None, Some("$x:s1"), Some("$x:s2"), Some("$x")] {
                for pl in threshold_pls(ALICE, "redact", 50, 30) {
                    if !o.want() {
                        continue;
                    }
                    let mut ev = Ev::new(id, ALICE, "m.room.redaction", None, json!({}));
                    ev.redacts = red.map(str::to_owned);
                    let mut s = Scn::new(ver, ev);
                    s.set_member(ALICE, mem_content(Mem::Join));
                    s.pl = pl.map(|mut p| {
                        p["events_default"] = json!(-5);
                        p
                    });
                    o.push(s, "redaction");
                }
            }
        }
    }
}


/// String-encoded levels (accepted before room version 10): every spelling, in every position
/// where the level decides the outcome.
fn fam_level_formats(o: &mut Out) {
    let spellings: &[&str] = &[
        "50", " 50", "50 ", "\n 50 \n", "+50", "-0", "++50", "+-50", "-+50", "--50", "+ 50", "- 50", "050", "+050",
        "\u{ff15}\u{ff10}", "50.0", "5e1", "0x32", "\u{a0}50", "50\u{2003}", "\u{3000}50\u{1680}", "\u{200b}50",
        "\u{1c}50", "\u{85}50\u{2028}", "", "+", "-", " ", "5 0", "9007199254740991", "9007199254740992",
        "-9007199254740991", "-9007199254740992", "+9007199254740991", "+9007199254740992",
        "18446744073709551616", "-9223372036854775809", "00000000000000000000000050", "50x", "x50",
    ];
    for ver in 1..=11u32 {
        for sp in spellings {
            for pos in 0..5 {
                if !o.want() {
                    continue;
                }
                let v = json!(sp);
                // the sender needs exactly level 50 to send this state event
                let pl = match pos {
                    0 => json!({"users": {ALICE: v}, "state_default": 50}),
                    1 => json!({"users_default": v, "state_default": 50}),
                    2 => json!({"users": {ALICE: 50}, "state_default": v}),
                    3 => json!({"users": {ALICE: 50}, "events": {"m.room.topic": v}}),
                    _ => json!({"users": {ALICE: 50, BOB: v}, "state_default": 50}),
                };
                let ev = Ev::new("$ev", ALICE, "m.room.topic", Some(""), json!({"topic": "t"}));
                let mut s = Scn::new(ver, ev);
                s.set_member(ALICE, mem_content(Mem::Join));
                s.pl = Some(pl);
                o.push(s, "level_formats");
            }
        }
    }
}

type Fam = fn(&mut Out);

/// (family, approximate full size, quick target)
const FAMILIES: &[(Fam, u64, u64)] = &[
    (fam_create, 2000, 120),
    (fam_prechecks, 3600, 150),
    (fam_aliases, 800, 80),
    (fam_join, 260_000, 900),
    (fam_invite, 16_000, 400),
    (fam_tpi_invite, 7400, 300),
    (fam_leave, 50_000, 600),
    (fam_ban, 40_000, 400),
    (fam_knock, 1232, 250),
    (fam_member_shape, 700, 80),
    (fam_tpi_event, 1500, 80),
    (fam_required_power, 20_000, 400),
    (fam_power_levels, 24_000, 600),
    (fam_redaction, 1800, 120),
    (fam_level_formats, 2200, 500),
];

pub fn exhaustive(rng: &mut Rng, tier: &str) -> Vec<(Scn, String)> {
    let mut scns = Vec::new();
    for (f, full, quick) in FAMILIES {
        let mut o = Out { scns: Vec::new(), keep: sizes(tier, *full, *quick), rng: rng.fork(), seen: Default::default() };
        f(&mut o);
        scns.extend(o.scns);
    }
    scns
}

// ---------------------------------------------------------------------------------------------
// random concrete instances
// ---------------------------------------------------------------------------------------------

const USERS: &[&str] = &[
    CREATOR, ALICE, BOB, CAROL, "@dave:s1:8448", "@e:[::1]", "@f:[::ffff:1.2.3.4]:80", "@UPPER:s1", "@a b:s1",
    "@:s1", "@g:1.2.3.4",
];
const BAD_USERS: &[&str] = &["alice", "@alice", "@alice:", "@al\u{0}ice:s1", "@alice:s 1", "@alice:[::1", "@alice:[1::2::3]", "@alice:s1:99999", "@alice:s1:", ""];
const TYPES: &[(&str, bool)] = &[
    ("m.room.message", false),
    ("m.room.topic", true),
    ("m.room.name", true),
    ("m.room.power_levels", true),
    ("m.room.join_rules", true),
    ("m.room.member", true),
    ("m.room.third_party_invite", true),
    ("m.room.aliases", true),
    ("m.room.redaction", false),
    ("m.room.create", true),
    ("m.call.sdp_stream_metadata_changed", false),
    ("org.matrix.call.sdp_stream_metadata_changed", false),
    ("x.custom", true),
    ("m.reaction", false),
];

fn rand_level(rng: &mut Rng) -> Value {
    const INTS: &[i64] = &[0, 1, -1, 49, 50, 51, 99, 100, 101, 9007199254740991, -9007199254740991, 9007199254740992, -9007199254740992, i64::MAX, i64::MIN];
    match rng.below(14) {
        0..=5 => json!(*rng.pick(INTS)),
        6 => json!(rng.range(-3, 120)),
        7 => json!(rng.pick(INTS).to_string()),
        8 => json!(format!("{}{}{}", rng.pick(&["", " ", "\t", "\u{a0}", "\u{2003}", "\u{3000}", "\u{200b}", "\n "]), rng.pick(&["+", "", "-", "++", "+-", "0"]), rng.range(0, 120))),
        9 => json!(format!("{}{}", rng.range(-120, 120), rng.pick(&["", " ", "\u{85}", "\u{1680}", "x", ".0", "\u{2028}\u{205f}"]))),
        10 => json!(*rng.pick(&["", "+", "-", " ", "abc", "1e3", "0x10", "९", "18446744073709551616", "+9007199254740991", "+9007199254740992", "-9007199254740992", "-0", "+0", "00050"])),
        11 => json!(1.5),
        12 => Value::Null,
        _ => rng.pick(&[json!(true), json!([]), json!({}), json!(18446744073709551615u64)]).clone(),
    }
}

fn rand_user(rng: &mut Rng) -> String {
    if rng.chance(1, 8) {
        (*rng.pick(BAD_USERS)).to_owned()
    } else {
        (*rng.pick(USERS)).to_owned()
    }
}

fn rand_pl(rng: &mut Rng) -> Value {
    let mut m = Map::new();
    for f in ["users_default", "events_default", "state_default", "ban", "redact", "kick", "invite"] {
        if rng.chance(1, 3) {
            m.insert(f.into(), rand_level(rng));
        }
    }
    for (name, kind) in [("users", 0), ("events", 1), ("notifications", 2)] {
        match rng.below(10) {
            0..=2 => {}
            3 => {
                m.insert(name.into(), rng.pick(&[json!([]), json!(5), Value::Null, json!("x")]).clone());
            }
            _ => {
                let mut e = Map::new();
                for _ in 0..rng.below(4) {
                    let k = match kind {
                        0 => rand_user(rng),
                        1 => rng.pick(TYPES).0.to_owned(),
                        _ => (*rng.pick(&["room", "x", ""])).to_owned(),
                    };
                    e.insert(k, rand_level(rng));
                }
                m.insert(name.into(), Value::Object(e));
            }
        }
    }
    Value::Object(m)
}

fn rand_membership(rng: &mut Rng) -> Value {
    match rng.below(12) {
        0..=8 => json!(*rng.pick(&["join", "invite", "leave", "ban", "knock"])),
        9 => json!(*rng.pick(&["x.weird", "", "JOIN", "join "])),
        10 => rng.pick(&[json!(5), Value::Null, json!(["join"]), json!({"membership": "join"})]).clone(),
        _ => json!("join"),
    }
}

fn rand_member_content(rng: &mut Rng) -> Value {
    let mut c = Map::new();
    if !rng.chance(1, 20) {
        c.insert("membership".into(), rand_membership(rng));
    }
    if rng.chance(1, 4) {
        let v = if rng.chance(1, 6) { rng.pick(&[json!(5), Value::Null, json!({})]).clone() } else { json!(rand_user(rng)) };
        c.insert("join_authorised_via_users_server".into(), v);
    }
    if rng.chance(1, 5) {
        let signed = match rng.below(6) {
            0 => signed_obj(&rand_user(rng), *rng.pick(&["tok", "t2"]), true),
            1 => signed_obj(BOB, "tok", true),
            2 => json!({"mxid": BOB, "token": "tok", "signatures": {"x": {"ed25519:1": "AAAA"}}, "extra": 1.5}),
            3 => json!({"mxid": 5, "token": "tok", "signatures": {}}),
            4 => json!(7),
            _ => json!({"mxid": BOB, "token": "tok", "n": 9007199254740992u64}),
        };
        let v = match rng.below(8) {
            0 => Value::Null,
            1 => json!([signed]),
            2 => json!([signed, 1]),
            3 => json!("x"),
            4 => json!([]),
            _ => json!({ "signed": signed }),
        };
        c.insert("third_party_invite".into(), v);
    }
    Value::Object(c)
}

fn rand_bits(rng: &mut Rng) -> String {
    let mut s = String::from("r");
    for _ in 0..9 {
        s.push(if rng.chance(1, 2) { '1' } else { '0' });
    }
    s
}

pub fn random_scn(rng: &mut Rng) -> (Scn, String) {
    let ver = rng.range(1, 11) as u32;
    let (ty, is_state) = *rng.pick(TYPES);
    let sender = (*rng.pick(USERS)).to_owned();
    let sk: Option<String> = if ty == "m.room.member" {
        if rng.chance(1, 25) {
            None
        } else if rng.chance(1, 3) {
            Some(sender.clone())
        } else {
            Some(rand_user(rng))
        }
    } else if is_state && !rng.chance(1, 10) {
        Some(match rng.below(6) {
            0 => sender.clone(),
            1 => rand_user(rng),
            2 => sender[sender.find(':').unwrap() + 1..].to_owned(),
            3 => "tok".to_owned(),
            _ => String::new(),
        })
    } else if rng.chance(1, 10) {
        Some(String::new())
    } else {
        None
    };
    let content = match ty {
        "m.room.member" => rand_member_content(rng),
        "m.room.power_levels" => rand_pl(rng),
        "m.room.create" => {
            let mut c = Map::new();
            if rng.chance(2, 3) {
                c.insert("creator".into(), if rng.chance(1, 5) { rand_level(rng) } else { json!(rand_user(rng)) });
            }
            Value::Object(c)
        }
        _ => json!({}),
    };
    let ids = ["$ev", "$ev:s1", "$ev:s2", "$create", "$x:s1:80"];
    let mut ev = Ev::new(*rng.pick(&ids), &sender, ty, sk.as_deref(), content);
    ev.prev = match rng.below(5) {
        0 => vec![],
        1 => vec![CREATE_ID.into()],
        2 => vec![CREATE_ID.into(), "$x".into()],
        3 => vec!["$x".into(), CREATE_ID.into()],
        _ => vec!["$x".into()],
    };
    ev.auth = match rng.below(8) {
        0 => vec![],
        1 => vec!["$x".into()],
        2 => vec!["$x".into(), CREATE_ID.into()],
        _ => vec![CREATE_ID.into()],
    };
    if rng.chance(1, 6) {
        ev.room = (*rng.pick(&["!room:s1", "!room:s2", "!room", "!r:[::1]:1", "!r:s1:+80", "!r::80"])).to_owned();
    }
    if ty == "m.room.redaction" || rng.chance(1, 30) {
        ev.redacts = rng.pick(&[None, Some("$x:s1"), Some("$x:s2"), Some("$x")]).map(str::to_owned);
    }
    let mut s = Scn::new(ver, ev);
    if rng.chance(1, 8) {
        s.rules = rand_bits(rng);
    }
    // create event
    if rng.chance(1, 25) {
        s.create = None;
    } else {
        let c = s.create.as_mut().unwrap();
        if rng.chance(1, 4) {
            c.sender = (*rng.pick(USERS)).to_owned();
        }
        match rng.below(10) {
            0 => {
                c.content.as_object_mut().unwrap().remove("creator");
            }
            1 => c.content["creator"] = json!(rand_user(rng)),
            2 => c.content["creator"] = rand_level(rng),
            _ => {}
        }
        if rng.chance(1, 5) {
            c.content["m.federate"] = rng.pick(&[json!(true), json!(false), Value::Null, json!(0), json!("false")]).clone();
        }
    }
    // members
    s.members.clear();
    for u in USERS {
        if rng.chance(1, 2) {
            let c = if rng.chance(1, 10) { rand_member_content(rng) } else { json!({"membership": *rng.pick(&["join", "join", "join", "invite", "leave", "ban", "knock"])}) };
            s.members.push(((*u).to_owned(), c));
        }
    }
    if rng.chance(2, 3) {
        s.set_member(&sender, Some(json!({"membership": "join"})));
    }
    if rng.chance(3, 4) {
        s.jr = Some(match rng.below(12) {
            0 => json!({}),
            1 => json!({"join_rule": 5}),
            2 => json!({"join_rule": null}),
            _ => json!({"join_rule": rng.pick(&JRS[1..]).unwrap()}),
        });
    }
    if rng.chance(3, 4) {
        s.pl = Some(rand_pl(rng));
    }
    if rng.chance(1, 3) {
        let pk = public_key_b64();
        let c = match rng.below(8) {
            0 => json!({"public_key": pk}),
            1 => json!({"public_keys": [{"public_key": pk}]}),
            2 => json!({"public_key": null, "public_keys": [{"public_key": "AAAA"}, {"public_key": pk}]}),
            3 => json!({"public_keys": null}),
            4 => json!({"public_keys": [5]}),
            5 => json!({"public_keys": [[pk]]}),
            6 => json!({"public_key": pk.replace('+', "-").replace('/', "_")}),
            _ => json!({}),
        };
        s.tpis.push(Ev::new("$tpi", *rng.pick(USERS), "m.room.third_party_invite", Some(*rng.pick(&["tok", "t2"])), c));
    }
    if rng.chance(1, 4) {
        s.extra.push(Ev::new("$hv", CREATOR, "m.room.history_visibility", Some(""), json!({"history_visibility": "shared"})));
    }
    (s, format!("random.{ty}"))
}

pub fn random(rng: &mut Rng, n: usize) -> Vec<(Scn, String)> {
    (0..n).map(|_| { let (s, c) = random_scn(rng); (s.seal(), c) }).collect()
}

/// Variations of an exhaustive scenario with randomised concrete ids.
pub fn rename(rng: &mut Rng, s: &Scn) -> Scn {
    let users = ["@creator:s1", "@alice:s1", "@bob:s1", "@carol:s2"];
    let to = [
        *rng.pick(&["@c:x.org", "@creator:s1", "@0:h"]),
        *rng.pick(&["@a:x.org", "@alice:s1", "@1:h"]),
        *rng.pick(&["@b:x.org", "@bob:s1", "@2:h"]),
        *rng.pick(&["@d:y.org", "@carol:s2", "@3:k"]),
    ];
    let ren = |x: &str| -> String {
        let mut y = x.to_owned();
        for (a, b) in users.iter().zip(to.iter()) {
            y = y.replace(a, &format!("\u{1}{b}"));
        }
        y.replace('\u{1}', "")
    };
    fn ren_val(v: &Value, ren: &dyn Fn(&str) -> String) -> Value {
        match v {
            Value::String(s) => Value::String(ren(s)),
            Value::Array(a) => Value::Array(a.iter().map(|x| ren_val(x, ren)).collect()),
            Value::Object(o) => Value::Object(o.iter().map(|(k, x)| (ren(k), ren_val(x, ren))).collect()),
            x => x.clone(),
        }
    }
    let ren_ev = |e: &Ev| -> Ev {
        Ev { sender: ren(&e.sender), sk: e.sk.as_deref().map(ren), content: ren_val(&e.content, &ren), verified: vec![], ..e.clone() }
    };
    let mut t = s.clone();
    t.create = s.create.as_ref().map(ren_ev);
    t.members = s.members.iter().map(|(u, c)| (ren(u), ren_val(c, &ren))).collect();
    t.pl = s.pl.as_ref().map(|p| ren_val(p, &ren));
    t.tpis = s.tpis.iter().map(ren_ev).collect();
    t.ev = ren_ev(&s.ev);
    t
}
