//! The harness' own PDU type (implements `ruma_state_res::Event`), request decoding, and the calls
//! into the real `auth_check` / `auth_types_for_event`. The `fetch_state` closure records every
//! `(type, state_key)` it is asked for.
use std::{cell::RefCell, collections::HashMap, sync::Arc};

use ruma_common::{
    room_version_rules::AuthorizationRules, MilliSecondsSinceUnixEpoch, OwnedEventId, OwnedRoomId,
    OwnedUserId, RoomId, UserId,
};
use ruma_events::{StateEventType, TimelineEventType};
use ruma_state_res::Event;
use serde_json::{value::RawValue, Value};

#[derive(Debug)]
pub struct Pdu {
    pub event_id: OwnedEventId,
    pub room_id: OwnedRoomId,
    pub sender: OwnedUserId,
    pub kind: TimelineEventType,
    pub state_key: Option<String>,
    pub content: Box<RawValue>,
    pub prev_events: Vec<OwnedEventId>,
    pub auth_events: Vec<OwnedEventId>,
    pub redacts: Option<OwnedEventId>,
}

impl Event for Pdu {
    type Id = OwnedEventId;
    fn event_id(&self) -> &Self::Id {
        &self.event_id
    }
    fn room_id(&self) -> &RoomId {
        &self.room_id
    }
    fn sender(&self) -> &UserId {
        &self.sender
    }
    fn origin_server_ts(&self) -> MilliSecondsSinceUnixEpoch {
        MilliSecondsSinceUnixEpoch(js_int::uint!(0))
    }
    fn event_type(&self) -> &TimelineEventType {
        &self.kind
    }
    fn content(&self) -> &RawValue {
        &self.content
    }
    fn state_key(&self) -> Option<&str> {
        self.state_key.as_deref()
    }
    fn prev_events(&self) -> Box<dyn DoubleEndedIterator<Item = &Self::Id> + '_> {
        Box::new(self.prev_events.iter())
    }
    fn auth_events(&self) -> Box<dyn DoubleEndedIterator<Item = &Self::Id> + '_> {
        Box::new(self.auth_events.iter())
    }
    fn redacts(&self) -> Option<&Self::Id> {
        self.redacts.as_ref()
    }
}

fn ids(v: Option<&Value>) -> Option<Vec<OwnedEventId>> {
    match v {
        None => Some(vec![]),
        Some(Value::Array(a)) => a.iter().map(|x| OwnedEventId::try_from(x.as_str()?).ok()).collect(),
        _ => None,
    }
}

/// Decode the request's event object. `None` = the request is not readable (harness bug).
pub fn pdu_of_json(v: &Value) -> Option<Pdu> {
    let o = v.as_object()?;
    let content = o.get("content")?;
    if !content.is_object() {
        return None;
    }
    Some(Pdu {
        event_id: OwnedEventId::try_from(o.get("event_id")?.as_str()?).ok()?,
        room_id: OwnedRoomId::try_from(o.get("room_id")?.as_str()?).ok()?,
        sender: OwnedUserId::try_from(o.get("sender")?.as_str()?).ok()?,
        kind: TimelineEventType::from(o.get("type")?.as_str()?),
        state_key: match o.get("state_key") {
            None | Some(Value::Null) => None,
            Some(Value::String(s)) => Some(s.clone()),
            _ => return None,
        },
        content: RawValue::from_string(serde_json::to_string(content).ok()?).ok()?,
        prev_events: ids(o.get("prev_events"))?,
        auth_events: ids(o.get("auth_events"))?,
        redacts: match o.get("redacts") {
            None | Some(Value::Null) => None,
            Some(Value::String(s)) => Some(OwnedEventId::try_from(s.as_str()).ok()?),
            _ => return None,
        },
    })
}

/// `1`..`11` = `RoomVersionId::V<n>.rules().authorization`; `r` + nine `0`/`1` = the flags given
/// explicitly, in the declaration order of `AuthorizationRules`.
pub fn rules_of_tok(t: &str) -> Option<AuthorizationRules> {
    if let Some(bits) = t.strip_prefix('r') {
        let b: Vec<bool> = bits.chars().map(|c| c == '1').collect();
        if b.len() != 9 || !bits.chars().all(|c| c == '0' || c == '1') {
            return None;
        }
        let mut r = AuthorizationRules::V1;
        r.special_case_room_redaction = b[0];
        r.special_case_room_aliases = b[1];
        r.strict_canonical_json = b[2];
        r.limit_notifications_power_levels = b[3];
        r.knocking = b[4];
        r.restricted_join_rule = b[5];
        r.knock_restricted_join_rule = b[6];
        r.integer_power_levels = b[7];
        r.use_room_create_sender = b[8];
        Some(r)
    } else {
        let v: u32 = t.parse().ok()?;
        if !(1..=11).contains(&v) {
            return None;
        }
        Some(h_lib::version_id(v).rules()?.authorization)
    }
}

pub type State = HashMap<(String, String), Arc<Pdu>>;

/// The state list of a request: events keyed by their own `(type, state_key)`; the first entry for
/// a key wins.
pub fn state_of_json(v: &Value) -> Option<State> {
    let mut m = State::new();
    for e in v.as_array()? {
        let p = pdu_of_json(e)?;
        let key = (StateEventType::from(p.kind.to_string()).to_string(), p.state_key.clone()?);
        m.entry(key).or_insert_with(|| Arc::new(p));
    }
    Some(m)
}

/// Run the real `auth_check`; returns allow/reject and the recorded state reads in call order.
pub fn run_auth(rules: &AuthorizationRules, ev: &Pdu, state: &State) -> (bool, Vec<(String, String)>) {
    let reads = RefCell::new(Vec::new());
    let res = ruma_state_res::auth_check(rules, ev, |ty: &StateEventType, key: &str| {
        let k = (ty.to_string(), key.to_owned());
        reads.borrow_mut().push(k.clone());
        state.get(&k).cloned()
    });
    (res.is_ok(), reads.into_inner())
}

/// Run the real `auth_types_for_event`.
pub fn run_types(rules: &AuthorizationRules, ev: &Pdu) -> Result<Vec<(String, String)>, ()> {
    ruma_state_res::auth_types_for_event(&ev.kind, &ev.sender, ev.state_key.as_deref(), &ev.content, rules)
        .map(|v| v.into_iter().map(|(t, k)| (t.to_string(), k)).collect())
        .map_err(|_| ())
}
