//! C15 — HTML sanitization is idempotent and leaves already-clean documents unchanged; deprecated
//! elements and attributes are rewritten to their documented replacements.
//!
//! Requests (codec as in h-c14: strings `s<hex utf-8>`, `<cfg>` the 14-field array, forests
//! `<count> node…`):
//!   `c15.twice <cfg> <html> <forest of Html::parse(html)>` → `ok <forest after sanitizing the same
//!       Html object twice>`; Lean MODEL: `clean (clean f)`. T3 (plain configurations): the tree
//!       and the serialization after the second pass equal those after the first.
//!   `c15.fix <cfg> <html> <forest of Html::parse(out1)>`, `out1 = to_string(sanitize(parse(html)))`
//!       → `ok <forest of sanitize(parse(out1))>`; Lean MODEL: `clean f`. T3 (plain): the tree is
//!       unchanged, `to_string` equals `Html::parse(out1).to_string()`, and `sanitize_html(out1)`
//!       equals it too ("sanitizing sanitized output is a plain parse-and-reserialize").
//!   `c15.unchanged <mode> <rrf> <html> <forest of Html::parse(html)>` → `t`/`f`: does sanitizing
//!       leave the parsed tree unchanged? Lean SPEC: `allowedB` (document of the allow-list grammar).
//!       T3: the harness' own allow-list predicate (spec tables) agrees with what happened.
//!   `c15.rewrite <mode> <rrf> <html> <forest of Html::parse(html)>` → `ok <forest after sanitizing>`
//!       if the tree with font→span, font[color]→data-mx-color, strike→s applied is in the grammar,
//!       else `skip`. Lean SPEC: the rewritten tree (`rewriteDeprecatedL`) under the same condition.
#[path = "../../h-c14/src/common.rs"]
mod common;
#[path = "../../h-c14/src/extract.rs"]
mod extract;
#[path = "../../h-c14/src/gen.rs"]
mod gen;
#[path = "../../h-c14/src/spec.rs"]
mod spec;

use common::*;
use h_lib::{h_util, stok, Outcome, Req, Rng};
use ruma_html::{remove_html_reply_fallback, sanitize_html, Html, RemoveReplyFallback};

fn unstr(t: &str) -> Option<String> {
    h_util::unhex_str(t.strip_prefix('s')?)
}
fn mode_tok(m: u8) -> &'static str {
    match m {
        0 => "none",
        1 => "strict",
        _ => "compat",
    }
}
fn parse_mode(s: &str) -> Option<u8> {
    match s {
        "strict" => Some(1),
        "compat" => Some(2),
        _ => None,
    }
}
fn plain(m: u8, rrf: bool) -> Cfg {
    let mut c = Cfg::mode(m);
    c.rrf = rrf;
    c
}

/// The string entry point that corresponds to a plain configuration, if there is one.
fn string_api(cfg: &Cfg, src: &str) -> Option<String> {
    if !cfg.is_plain() {
        return None;
    }
    match cfg.sanitizer_mode() {
        Some(m) => {
            let r = if cfg.rrf { RemoveReplyFallback::Yes } else { RemoveReplyFallback::No };
            Some(sanitize_html(src, m, r))
        }
        None if cfg.rrf => Some(remove_html_reply_fallback(src)),
        None => None,
    }
}

fn sanitize_to_string(cfg: &Cfg, src: &str) -> String {
    let html = Html::parse(src);
    html.sanitize_with(&cfg.build());
    html.to_string()
}

// ------------------------------------------------------------------ request builders

fn twice_req(cfg: &Cfg, src: &str) -> String {
    format!("c15.twice {} {}{}", cfg.toks(), stok(src), forest_toks(&dump(&Html::parse(src))))
}
fn fix_req(cfg: &Cfg, src: &str) -> String {
    let out1 = sanitize_to_string(cfg, src);
    format!("c15.fix {} {}{}", cfg.toks(), stok(src), forest_toks(&dump(&Html::parse(&out1))))
}
fn unchanged_req(m: u8, rrf: bool, src: &str) -> String {
    format!("c15.unchanged {} {} {}{}", mode_tok(m), if rrf { "t" } else { "f" }, stok(src), forest_toks(&dump(&Html::parse(src))))
}
fn rewrite_req(m: u8, rrf: bool, src: &str) -> String {
    format!("c15.rewrite {} {} {}{}", mode_tok(m), if rrf { "t" } else { "f" }, stok(src), forest_toks(&dump(&Html::parse(src))))
}

// ------------------------------------------------------------------ the harness' own spec side

fn has_other(f: &[N]) -> bool {
    f.iter().any(|n| match n {
        N::O => true,
        N::E { ch, .. } => has_other(ch),
        N::T(_) => false,
    })
}

/// Is the forest a document of the allow-list grammar of the plain configuration? (spec tables)
fn in_grammar(cfg: &Cfg, f: &[N]) -> bool {
    let mut fails = Vec::new();
    Policy { c: cfg }.walk(f, 0, "doc", &[], &mut fails);
    fails.is_empty() && !has_other(f)
}

/// The documented rewriting of deprecated markup, written from `spec::DEPRECATED_*`: element and
/// attribute names only; the attribute set is a set again (sorted, duplicates collapse).
fn rewrite_deprecated(f: &[N]) -> Vec<N> {
    f.iter()
        .map(|n| match n {
            N::E { name, attrs, ch } => {
                let new_name = spec::DEPRECATED_ELEMENTS
                    .iter()
                    .find(|(o, _)| *o == name)
                    .map(|(_, n)| n.to_string())
                    .unwrap_or_else(|| name.clone());
                let has_table = spec::DEPRECATED_ATTRS.iter().any(|(e, _, _)| *e == name);
                let mut new_attrs: Vec<(String, String, String)> = attrs
                    .iter()
                    .map(|(q, a, v)| {
                        let a2 = spec::DEPRECATED_ATTRS
                            .iter()
                            .find(|(e, o, _)| *e == name && *o == a)
                            .map(|(_, _, n)| n.to_string())
                            .unwrap_or_else(|| a.clone());
                        (q.clone(), a2, v.clone())
                    })
                    .collect();
                if has_table {
                    new_attrs.sort();
                    new_attrs.dedup();
                }
                N::E { name: new_name, attrs: new_attrs, ch: rewrite_deprecated(ch) }
            }
            other => other.clone(),
        })
        .collect()
}

// ------------------------------------------------------------------ running the implementation

fn parse_cfg_src<'a>(toks: &'a [&'a str]) -> Option<(Cfg, String, String)> {
    let mut it = toks.iter();
    let v = h_util::parse_tokens(&mut it)?;
    let cfg = Cfg::from_value(&v)?;
    let src = it.next().and_then(|t| unstr(t))?;
    let rest: Vec<&str> = it.copied().collect();
    Some((cfg, src, rest.join(" ")))
}

fn run_twice(cfg: &Cfg, src: &str, tree_toks: &str) -> Outcome {
    let real = cfg.build();
    let html = Html::parse(src);
    if forest_toks(&dump(&html)).trim_start() != tree_toks {
        return Outcome::bad();
    }
    html.sanitize_with(&real);
    let once = dump(&html);
    let once_str = html.to_string();
    html.sanitize_with(&real);
    let twice = dump(&html);
    let twice_str = html.to_string();
    let mut t3 = Vec::new();
    if cfg.is_plain() {
        if once != twice {
            t3.push(format!(
                "sanitizing the same Html twice differs from once: once {once_str:?}, twice {twice_str:?}"
            ));
        } else if once_str != twice_str {
            t3.push("serialization differs after a second sanitization of the same Html".into());
        }
    }
    Outcome { imp: format!("ok{}", forest_toks(&merge_text(twice))), t3 }
}

fn run_fix(cfg: &Cfg, src: &str, tree_toks: &str) -> Outcome {
    let real = cfg.build();
    let out1 = sanitize_to_string(cfg, src);
    let html = Html::parse(&out1);
    let before = dump(&html);
    if forest_toks(&before).trim_start() != tree_toks {
        return Outcome::bad();
    }
    let plain_reserialized = html.to_string();
    html.sanitize_with(&real);
    let after = dump(&html);
    let out2 = html.to_string();
    let mut t3 = Vec::new();
    if cfg.is_plain() {
        if after != before {
            t3.push(format!(
                "sanitizing sanitized output changes it: input {src:?}, first output {out1:?}, its parse-and-reserialize {plain_reserialized:?}, second output {out2:?}"
            ));
        } else if out2 != plain_reserialized {
            t3.push(format!("sanitize(out1) = {out2:?} differs from serialize(parse(out1)) = {plain_reserialized:?}"));
        }
        if let Some(s) = string_api(cfg, &out1) {
            if s != plain_reserialized {
                t3.push(format!(
                    "sanitize_html applied to its own output {out1:?} gives {s:?}, a plain parse-and-reserialize gives {plain_reserialized:?}"
                ));
            }
        }
    }
    t3.truncate(3);
    Outcome { imp: format!("ok{}", forest_toks(&merge_text(after))), t3 }
}

fn run_unchanged(m: u8, rrf: bool, src: &str, tree_toks: &str) -> Outcome {
    let cfg = plain(m, rrf);
    let html = Html::parse(src);
    let before = dump(&html);
    if forest_toks(&before).trim_start() != tree_toks {
        return Outcome::bad();
    }
    let reserialized = html.to_string();
    html.sanitize_with(&cfg.build());
    let after = dump(&html);
    let unchanged = after == before;
    let mut t3 = Vec::new();
    let grammar = in_grammar(&cfg, &before);
    if grammar && !unchanged {
        t3.push(format!(
            "a document built only from allowed elements, attributes, schemes and classes within the depth limit was changed: {reserialized:?} -> {:?}",
            html.to_string()
        ));
    }
    if !grammar && unchanged {
        t3.push(format!("a document outside the allow-list grammar was returned unchanged: {reserialized:?}"));
    }
    if unchanged {
        if let Some(s) = string_api(&cfg, src) {
            if s != reserialized {
                t3.push("sanitize_html of an unchanged document differs from its parse-and-reserialize".into());
            }
        }
    }
    Outcome { imp: if unchanged { "t".into() } else { "f".into() }, t3 }
}

fn run_rewrite(m: u8, rrf: bool, src: &str, tree_toks: &str) -> Outcome {
    let cfg = plain(m, rrf);
    let html = Html::parse(src);
    let before = dump(&html);
    if forest_toks(&before).trim_start() != tree_toks {
        return Outcome::bad();
    }
    let want = rewrite_deprecated(&before);
    if has_other(&before) || !in_grammar(&cfg, &want) {
        return Outcome::new("skip");
    }
    html.sanitize_with(&cfg.build());
    let after = dump(&html);
    let mut t3 = Vec::new();
    if after != want {
        t3.push(format!(
            "deprecated elements/attributes are not rewritten to their documented replacements with content and other attributes preserved: {src:?} -> {:?}",
            html.to_string()
        ));
    }
    // the rewritten document is a fixpoint
    let out1 = html.to_string();
    if sanitize_to_string(&cfg, &out1) != Html::parse(&out1).to_string() {
        t3.push(format!("the rewritten document {out1:?} is not a fixpoint of sanitization"));
    }
    Outcome { imp: format!("ok{}", forest_toks(&merge_text(after))), t3 }
}

fn run(req: &str) -> Outcome {
    let toks: Vec<&str> = req.split(' ').collect();
    let bad = Outcome::bad;
    match toks[0] {
        "c15.twice" => match parse_cfg_src(&toks[1..]) {
            Some((cfg, src, tree)) => run_twice(&cfg, &src, &tree),
            None => bad(),
        },
        "c15.fix" => match parse_cfg_src(&toks[1..]) {
            Some((cfg, src, tree)) => run_fix(&cfg, &src, &tree),
            None => bad(),
        },
        op @ ("c15.unchanged" | "c15.rewrite") if toks.len() >= 5 => {
            let (Some(m), Some(rrf), Some(src)) = (
                parse_mode(toks[1]),
                match toks[2] {
                    "t" => Some(true),
                    "f" => Some(false),
                    _ => None,
                },
                unstr(toks[3]),
            ) else {
                return bad();
            };
            let tree = toks[4..].join(" ");
            if op == "c15.unchanged" {
                run_unchanged(m, rrf, &src, &tree)
            } else {
                run_rewrite(m, rrf, &src, &tree)
            }
        }
        _ => bad(),
    }
}

// ------------------------------------------------------------------ generation

/// One disallowed thing put into a grammar document (or a harmless edit): the document is then
/// (mostly) outside the grammar and must be changed.
fn perturb(rng: &mut Rng, doc: &str) -> String {
    let inserts: &[&str] = &[
        "<script>x</script>", "<!-- c -->", "<span style=\"x\">y</span>", "<a href=\"javascript:x\">l</a>",
        "<img src=\"https://x/y\">", "<code class=\"x\">c</code>", "<code class=\"language-a x\">c</code>",
        "<font color=\"red\">f</font>", "<strike>s</strike>", "<x-foo>t</x-foo>", "<a href=\"matrix:u/a:b\">m</a>",
        "<mx-reply>r</mx-reply>", "<div class=\"x\">d</div>", "<a name=\"n\">l</a>", "<ol type=\"a\"><li>i</li></ol>",
        "<span data-mx-color=\"red\" title=\"t\">s</span>", "<a href=\"https://x\" target=\"_blank\">ok</a>",
        "<svg><a xlink:href=\"https://x\">t</a></svg>", "<img alt=\"a\" src=\"mxc://s/m\" srcset=\"x\">",
        "<code class=\" language-a \">c</code>", "<code class=\"language-a  language-b\">c</code>",
        "<code class=\"language-a x language-b\">c</code>",
        "<a href=\" https://x\">l</a>", "<a href=\"HTTPS://x\">l</a>", "<del>d</del>", "<p>p</p>",
    ];
    let ins = gen::pick(rng, inserts);
    // insert at a tag boundary (before a random '<') or at the end
    let cuts: Vec<usize> = doc.char_indices().filter(|(_, c)| *c == '<').map(|(i, _)| i).collect();
    if cuts.is_empty() || rng.chance(1, 4) {
        format!("{doc}{ins}")
    } else {
        let i = cuts[rng.below(cuts.len())];
        format!("{}{}{}", &doc[..i], ins, &doc[i..])
    }
}

fn any_doc(rng: &mut Rng, i: usize) -> (String, &'static str) {
    match i % 20 {
        0 => {
            let k = 90 + rng.below(220);
            (gen::gen_deep(rng, k), "deep")
        }
        1 => {
            let k = 95 + rng.below(12);
            (gen::gen_deep(rng, k), "deep.boundary")
        }
        2..=5 => (gen::gen_doc(rng, &gen::HOSTILE), "hostile"),
        6 | 7 => (gen::gen_doc(rng, &gen::TABLEY), "tables"),
        8 | 9 => {
            let compat = rng.chance(1, 2);
            (gen::gen_allowed_doc(rng, compat, true, true), "allowed")
        }
        10 => {
            let mut docs = Vec::new();
            gen::foreign_docs(rng, &mut docs);
            (docs[rng.below(docs.len())].clone(), "foreign")
        }
        _ => (gen::gen_doc(rng, &gen::MIXED), "mixed"),
    }
}

fn gen(rng: &mut Rng, n: usize, tier: &str) -> Vec<Req> {
    let thorough = tier == "thorough";
    let mut reqs = Vec::new();
    let plains = gen::plain_cfgs(); // strict, strict+rrf, compat, compat+rrf, none+rrf

    // fixed witnesses: F3, the namespaced attribute, chained replacements
    for (m, rrf, d) in [
        (1u8, false, "<a class=\"x\" href=\"javascript:alert(1)\">t</a>"),
        (2, true, "<img alt=\"a\" src=\"http://x/y\">"),
        (1, false, "<svg><a xlink:href=\"https://x\">t</a></svg>"),
        (2, false, "<math><a xlink:href=\"https://x\" href=\"https://y\">t</a></math>"),
        (1, true, "<font color=\"#f00\" data-mx-color=\"#f00\"><strike>t</strike></font>"),
        (1, false, "<font color=\"#f00\" data-mx-color=\"#0f0\">t</font>"),
    ] {
        let c = plain(m, rrf);
        reqs.push(Req::new(twice_req(&c, d), "witness.twice"));
        reqs.push(Req::new(fix_req(&c, d), "witness.fix"));
        reqs.push(Req::new(unchanged_req(m, rrf, d), "witness.unchanged"));
        reqs.push(Req::new(rewrite_req(m, rrf, d), "witness.rewrite"));
    }
    let mut chained = Cfg::mode(0);
    chained.replace_elements = Some((false, vec![("big".into(), "b".into()), ("b".into(), "strong".into())]));
    reqs.push(Req::new(twice_req(&chained, "<big>t</big>"), "witness.chained"));
    reqs.push(Req::new(fix_req(&chained, "<big>t</big>"), "witness.chained"));

    // scheme spellings and attribute subsets: idempotence on the cells C14 is about
    let mut docs = Vec::new();
    gen::scheme_matrix(&mut docs);
    let step = if thorough { 1 } else { 5 };
    for (i, d) in docs.iter().enumerate() {
        if i % step == 0 {
            let c = &plains[rng.below(4)];
            reqs.push(Req::new(fix_req(c, d), "schemes.fix"));
        }
    }
    for el in ["a", "img", "span", "code", "font", "ol", "div"] {
        let mut docs = Vec::new();
        gen::attr_subsets(rng, el, if thorough { 11 } else { 2 }, &mut docs);
        for d in &docs {
            let c = plains[rng.below(5)].clone();
            match rng.below(3) {
                0 => reqs.push(Req::new(twice_req(&c, d), format!("attrsets.{el}.twice"))),
                1 => reqs.push(Req::new(fix_req(&c, d), format!("attrsets.{el}.fix"))),
                _ => {
                    let m = 1 + rng.below(2) as u8;
                    reqs.push(Req::new(rewrite_req(m, rng.chance(1, 2), d), format!("attrsets.{el}.rewrite")));
                }
            }
        }
    }

    // builder matrix (shared with C14): model comparison of the second pass under custom lists
    let mut bm = Vec::new();
    gen::builder_matrix(rng, &mut bm);
    let step = if thorough { 1 } else { 4 };
    for (i, (cfg, d)) in bm.iter().enumerate() {
        if i % step == 0 {
            if i % 2 == 0 {
                reqs.push(Req::new(fix_req(cfg, d), "builder.fix"));
            } else {
                reqs.push(Req::new(twice_req(cfg, d), "builder.twice"));
            }
        }
    }

    // depth boundary: allowed elements nested exactly k deep
    for k in (1..=6).chain(96..=104).chain([150, 250]) {
        let d = gen::gen_allowed_deep(rng, k);
        for (m, rrf) in [(1u8, false), (2, true)] {
            reqs.push(Req::new(unchanged_req(m, rrf, &d), "grammar.depth"));
            reqs.push(Req::new(fix_req(&plain(m, rrf), &d), "grammar.depth.fix"));
        }
    }

    for i in 0..n {
        match i % 10 {
            // idempotence on arbitrary inputs, plain configurations (T3 asserted) …
            0..=2 => {
                let k = rng.below(20);
                let (doc, cls) = any_doc(rng, k);
                let c = plains[rng.below(5)].clone();
                if rng.chance(1, 2) {
                    reqs.push(Req::new(fix_req(&c, &doc), format!("{cls}.fix.plain")));
                } else {
                    reqs.push(Req::new(twice_req(&c, &doc), format!("{cls}.twice.plain")));
                }
            }
            // … and random builder configurations (model comparison)
            3 | 4 => {
                let k = rng.below(20);
                let (doc, cls) = any_doc(rng, k);
                let c = gen::gen_cfg(rng);
                let k = if c.is_plain() { "plain" } else { "custom" };
                if rng.chance(1, 2) {
                    reqs.push(Req::new(fix_req(&c, &doc), format!("{cls}.fix.{k}")));
                } else {
                    reqs.push(Req::new(twice_req(&c, &doc), format!("{cls}.twice.{k}")));
                }
            }
            // documents of the allow-list grammar are unchanged
            5 | 6 => {
                let m = 1 + rng.below(2) as u8;
                let rrf = rng.chance(1, 2);
                let doc = gen::gen_allowed_doc(rng, m == 2, false, !rrf);
                reqs.push(Req::new(unchanged_req(m, rrf, &doc), "grammar"));
            }
            // one edit away from the grammar; sanitized outputs; arbitrary documents
            7 => {
                let m = 1 + rng.below(2) as u8;
                let rrf = rng.chance(1, 2);
                let doc = gen::gen_allowed_doc(rng, m == 2, false, !rrf);
                let doc = perturb(rng, &doc);
                reqs.push(Req::new(unchanged_req(m, rrf, &doc), "grammar.perturbed"));
            }
            8 => {
                let m = 1 + rng.below(2) as u8;
                let rrf = rng.chance(1, 2);
                let k = rng.below(20);
                let (doc, cls) = any_doc(rng, k);
                if rng.chance(1, 2) {
                    let out1 = sanitize_to_string(&plain(m, rrf), &doc);
                    reqs.push(Req::new(unchanged_req(m, rrf, &out1), format!("{cls}.sanitized.unchanged")));
                } else {
                    reqs.push(Req::new(unchanged_req(m, rrf, &doc), format!("{cls}.unchanged")));
                }
            }
            // deprecated markup inside grammar documents
            _ => {
                let m = 1 + rng.below(2) as u8;
                let rrf = rng.chance(1, 2);
                let doc = gen::gen_allowed_doc(rng, m == 2, true, !rrf);
                let doc = if rng.chance(1, 5) { perturb(rng, &doc) } else { doc };
                reqs.push(Req::new(rewrite_req(m, rrf, &doc), "deprecated"));
            }
        }
    }
    reqs
}

fn main() {
    h_lib::std_main(Some(&|| extract::extract("C15")), &gen, &run);
}
