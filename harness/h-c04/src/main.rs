//! C04 — redaction keeps exactly the spec's keys per room version and is idempotent.
//!
//! Requests:
//!   `c04.cell <v> <type> <level: top|content|tpi> <key>`  → `t` / `f` (key kept?), answered by the
//!       SPEC side of the driver: a mismatch is an implementation-vs-spec difference on that cell.
//!   `c04.redact <v> <because: n | object> <event object>` → `ok <object>` / `err`
//!   `c04.content <v> <type> <content object>`             → `ok <object>` / `err`
use h_lib::{
    cj::{cj_obj_toks, cj_parse, cj_parse_obj, gen_canonical_value},
    h_util, stok, version_id, Outcome, Req, Rng,
};
use ruma_common::{
    canonical_json::{redact, redact_content_in_place, redact_in_place, RedactedBecause},
    room_version_rules::RedactionRules,
    CanonicalJsonObject, CanonicalJsonValue, RoomVersionId,
};
use serde_json::{json, Value};

/// The path callers use: room version id → rules.
pub fn rules(v: u32) -> RedactionRules {
    version_id(v).rules().expect("known version has rules").redaction
}

const TYPES: &[&str] = &[
    "m.room.member",
    "m.room.create",
    "m.room.join_rules",
    "m.room.power_levels",
    "m.room.history_visibility",
    "m.room.redaction",
    "m.room.aliases",
    "m.room.server_acl",
    "m.room.message",
    "m.room.topic",
    "m.room.name",
    "m.room.third_party_invite",
    "x.custom",
    "",
    // near misses of the seven special types: a dispatch that trims, strips, lower-cases or
    // prefix-matches the type instead of comparing it would treat these like the real type
    "member", "create", "join_rules", "power_levels", "history_visibility", "redaction", "aliases",
    "m.room.m.room.member", "m.room.m.room.create", "m.room.m.room.power_levels", "m.room.m.room.aliases",
    "m.room.m.room.redaction", "m.room.m.room.join_rules", "m.room.m.room.history_visibility",
    "m.room.members", "m.room.create2", "m.room.join_rule", "m.room.power_level", "m.room.alias",
    "m.room.redactions", "m.room.history_visibilit",
    "M.ROOM.MEMBER", "m.room.Create", "m.Room.power_levels", " m.room.member", "m.room.member ",
    "room.member", "m.member", "xm.room.create", "m.room.", "m.room", "org.example.m.room.power_levels",
];

const TOP_KEYS: &[&str] = &[
    "event_id", "type", "room_id", "sender", "state_key", "content", "hashes", "signatures",
    "depth", "prev_events", "auth_events", "origin_server_ts", "origin", "membership",
    "prev_state", "unsigned", "redacts", "age_ts", "prev_content", "replaces_state", "outlier",
    "destination", "zz.fresh", "",
];

const CONTENT_KEYS: &[&str] = &[
    "membership", "join_authorised_via_users_server", "third_party_invite", "displayname",
    "avatar_url", "is_direct", "reason", "creator", "m.federate", "room_version", "predecessor",
    "type", "additional_creators", "join_rule", "allow", "ban", "events", "events_default", "kick",
    "redact", "state_default", "users", "users_default", "invite", "notifications",
    "history_visibility", "redacts", "aliases", "deny", "allow_ip_literals", "body", "msgtype",
    "topic", "name", "signed", "display_name", "key_validity_url", "public_key", "public_keys",
    "zz.fresh", "content", "",
];

const TPI_KEYS: &[&str] = &["signed", "display_name", "mxid", "token", "signatures", "zz.fresh", ""];

fn cell_requests() -> Vec<Req> {
    let mut v = Vec::new();
    for ver in 1..=11u32 {
        for ty in TYPES {
            for k in TOP_KEYS {
                v.push(Req {
                    req: format!("c04.cell {ver} {} top {}", stok(ty), stok(k)),
                    cls: "cell.top".into(),
                });
            }
            for k in CONTENT_KEYS {
                v.push(Req {
                    req: format!("c04.cell {ver} {} content {}", stok(ty), stok(k)),
                    cls: "cell.content".into(),
                });
            }
        }
        for k in TPI_KEYS {
            v.push(Req {
                req: format!("c04.cell {ver} {} tpi {}", stok("m.room.member"), stok(k)),
                cls: "cell.tpi".into(),
            });
        }
    }
    v
}

fn to_cj_obj(v: Value) -> CanonicalJsonObject {
    match CanonicalJsonValue::try_from(v).expect("canonical") {
        CanonicalJsonValue::Object(o) => o,
        _ => panic!("not an object"),
    }
}

/// Behavioural evaluation of one cell of the retention table through the public API.
fn run_cell(ver: u32, ty: &str, level: &str, key: &str) -> String {
    let r = rules(ver);
    let kept = match level {
        "top" => {
            let mut ev = serde_json::Map::new();
            ev.insert(key.to_owned(), if key == "content" { json!({}) } else { json!(1) });
            ev.insert("type".to_owned(), json!(ty));
            let out = redact(to_cj_obj(Value::Object(ev)), &r, None);
            match out {
                Ok(o) => o.contains_key(key),
                Err(_) => return "err".into(),
            }
        }
        "content" => {
            let val =
                if key == "third_party_invite" { json!({"signed": 1, "other": 2}) } else { json!(1) };
            let mut c = serde_json::Map::new();
            c.insert(key.to_owned(), val);
            let ev = json!({"type": ty, "content": Value::Object(c)});
            match redact(to_cj_obj(ev), &r, None) {
                Ok(o) => match o.get("content") {
                    Some(CanonicalJsonValue::Object(c)) => c.contains_key(key),
                    _ => return "err".into(),
                },
                Err(_) => return "err".into(),
            }
        }
        "tpi" => {
            let mut t = serde_json::Map::new();
            t.insert(key.to_owned(), json!(1));
            let ev = json!({"type": ty, "content": {"third_party_invite": Value::Object(t)}});
            match redact(to_cj_obj(ev), &r, None) {
                Ok(o) => match o.get("content") {
                    Some(CanonicalJsonValue::Object(c)) => match c.get("third_party_invite") {
                        Some(CanonicalJsonValue::Object(t)) => t.contains_key(key),
                        Some(_) => return "err".into(),
                        None => false,
                    },
                    _ => return "err".into(),
                },
                Err(_) => return "err".into(),
            }
        }
        _ => return "bad-op".into(),
    };
    if kept { "t".into() } else { "f".into() }
}

fn gen_event(rng: &mut Rng) -> Value {
    let mut ev = serde_json::Map::new();
    // type: mostly a string from the table, sometimes missing / malformed
    match rng.below(20) {
        0 => {}
        1 => {
            ev.insert("type".into(), json!(5));
        }
        _ => {
            ev.insert("type".into(), json!(*rng.pick(TYPES)));
        }
    }
    for k in TOP_KEYS {
        if *k != "type" && *k != "content" && rng.chance(1, 3) {
            ev.insert((*k).to_owned(), gen_canonical_value(rng, 2));
        }
    }
    match rng.below(12) {
        0 => {}
        1 => {
            ev.insert("content".into(), gen_canonical_value(rng, 1));
        }
        _ => {
            let mut c = serde_json::Map::new();
            for k in CONTENT_KEYS {
                if rng.chance(1, 4) {
                    c.insert((*k).to_owned(), gen_canonical_value(rng, 2));
                }
            }
            if rng.chance(1, 2) {
                let mut t = serde_json::Map::new();
                for k in TPI_KEYS {
                    if rng.chance(1, 2) {
                        t.insert((*k).to_owned(), gen_canonical_value(rng, 1));
                    }
                }
                if rng.chance(1, 8) {
                    c.insert("third_party_invite".into(), gen_canonical_value(rng, 1));
                } else {
                    c.insert("third_party_invite".into(), Value::Object(t));
                }
            }
            ev.insert("content".into(), Value::Object(c));
        }
    }
    Value::Object(ev)
}

fn random_requests(rng: &mut Rng, n: usize) -> Vec<Req> {
    let mut v = Vec::new();
    for _ in 0..n {
        let ver = rng.range(1, 11) as u32;
        let ev = gen_event(rng);
        if rng.chance(1, 5) {
            let ty = *rng.pick(TYPES);
            let content = match ev.get("content") {
                Some(Value::Object(c)) => Value::Object(c.clone()),
                _ => json!({}),
            };
            v.push(Req {
                req: format!("c04.content {ver} {} {}", stok(ty), h_util::jtoks(&content)),
                cls: format!("content.{ty}"),
            });
        } else {
            let because = if rng.chance(1, 4) {
                h_util::jtoks(&json!({"type": "m.room.redaction", "event_id": "$r", "x": gen_canonical_value(rng, 1)}))
            } else {
                "n".to_owned()
            };
            let ty = ev.get("type").and_then(Value::as_str).unwrap_or("<none>").to_owned();
            v.push(Req {
                req: format!("c04.redact {ver} {because} {}", h_util::jtoks(&ev)),
                cls: format!("redact.{ty}"),
            });
        }
    }
    v
}

fn run_redact(ver: u32, because: Option<CanonicalJsonObject>, ev: CanonicalJsonObject) -> Outcome {
    let r = rules(ver);
    let mut t3 = Vec::new();
    let rb = |b: &Option<CanonicalJsonObject>| b.clone().map(RedactedBecause::from_json);
    let copy = redact(ev.clone(), &r, rb(&because));
    let mut inplace = ev.clone();
    let inplace_res = redact_in_place(&mut inplace, &r, rb(&because));
    match (&copy, &inplace_res) {
        (Ok(a), Ok(())) => {
            if *a != inplace {
                t3.push("redact and redact_in_place disagree".into());
            }
        }
        (Err(_), Err(_)) => {}
        _ => t3.push("redact and redact_in_place disagree on Ok/Err".into()),
    }
    let imp = match copy {
        Err(_) => "err".to_owned(),
        Ok(out) => {
            // idempotence (without redacted_because the second pass must change nothing; with it,
            // redacting the output again without a reason must only drop `unsigned`)
            match redact(out.clone(), &r, None) {
                Ok(again) => {
                    let mut expect = out.clone();
                    expect.remove("unsigned");
                    if again != expect {
                        t3.push("redact is not idempotent".into());
                    }
                }
                Err(_) => t3.push("redacting a redacted event failed".into()),
            }
            // `unsigned` of the result: absent without a reason; with a reason exactly
            // `{"redacted_because": <the reason>}` — whatever `unsigned` the input carried
            match (&because, out.get("unsigned")) {
                (None, None) => {}
                (None, Some(_)) => t3.push("`unsigned` survives a redaction without a reason".into()),
                (Some(b), Some(CanonicalJsonValue::Object(u))) => {
                    if u.len() != 1 || u.get("redacted_because") != Some(&CanonicalJsonValue::Object(b.clone())) {
                        t3.push(format!(
                            "`unsigned` of the redacted event is not exactly {{\"redacted_because\": <reason>}}: keys {:?}",
                            u.keys().collect::<Vec<_>>()
                        ));
                    }
                }
                (Some(_), _) => t3.push("the requested `unsigned.redacted_because` was not attached".into()),
            }
            // nothing added, values untouched at top level
            for (k, v) in &out {
                if k == "unsigned" && because.is_some() {
                    continue;
                }
                match ev.get(k) {
                    None => t3.push(format!("key {k:?} was added")),
                    Some(orig) => {
                        if k != "content" && orig != v {
                            t3.push(format!("value of {k:?} changed"));
                        }
                    }
                }
            }
            // content entry point agrees and content values untouched
            if let (Some(CanonicalJsonValue::Object(c_in)), Some(CanonicalJsonValue::String(ty))) =
                (ev.get("content"), ev.get("type"))
            {
                let mut c = c_in.clone();
                match redact_content_in_place(&mut c, &r, ty) {
                    Ok(()) => {
                        if out.get("content") != Some(&CanonicalJsonValue::Object(c.clone())) {
                            t3.push("redact_content_in_place disagrees with redact".into());
                        }
                        for (k, v) in &c {
                            match c_in.get(k) {
                                None => t3.push(format!("content key {k:?} was added")),
                                Some(orig) => {
                                    if k != "third_party_invite" && orig != v {
                                        t3.push(format!("content value of {k:?} changed"));
                                    }
                                }
                            }
                        }
                    }
                    Err(_) => t3.push("redact_content_in_place failed where redact succeeded".into()),
                }
            }
            format!("ok {}", cj_obj_toks(&out))
        }
    };
    Outcome { imp, t3 }
}

pub fn run(req: &str) -> Outcome {
    let toks: Vec<&str> = req.split(' ').collect();
    let bad = || Outcome { imp: "bad-op".into(), t3: vec![] };
    match toks[0] {
        "c04.cell" => {
            let ver: u32 = toks[1].parse().unwrap();
            let ty = h_util::unhex_str(&toks[2][1..]).unwrap();
            let key = h_util::unhex_str(&toks[4][1..]).unwrap();
            Outcome { imp: run_cell(ver, &ty, toks[3], &key), t3: vec![] }
        }
        "c04.redact" => {
            let ver: u32 = toks[1].parse().unwrap();
            let mut it = toks[2..].iter();
            let because = match cj_parse(&mut it) {
                Some(CanonicalJsonValue::Null) => None,
                Some(CanonicalJsonValue::Object(o)) => Some(o),
                _ => return bad(),
            };
            let Some(ev) = cj_parse_obj(&mut it) else { return bad() };
            run_redact(ver, because, ev)
        }
        "c04.content" => {
            let ver: u32 = toks[1].parse().unwrap();
            let ty = h_util::unhex_str(&toks[2][1..]).unwrap();
            let mut it = toks[3..].iter();
            let Some(mut c) = cj_parse_obj(&mut it) else { return bad() };
            let imp = match redact_content_in_place(&mut c, &rules(ver), &ty) {
                Ok(()) => format!("ok {}", cj_obj_toks(&c)),
                Err(_) => "err".into(),
            };
            Outcome { imp, t3: vec![] }
        }
        _ => bad(),
    }
}

/// T1: the rules constants reached through `RoomVersionId::rules()`, as a Lean table.
fn extract() -> String {
    let mut s = String::new();
    s.push_str("-- GENERATED by `h-c04 c04 extract` from the running implementation. Do not edit.\n");
    s.push_str("import RumaModel.Model.Redact\nnamespace Ruma.Generated.C04\nopen Ruma.Redact\n\n");
    s.push_str("/-- `RoomVersionId::V<n>.rules().redaction` for n = 1..11, read field by field. -/\n");
    s.push_str("def rulesTable : List (Nat × Rules) := [\n");
    for v in 1..=11u32 {
        let r = rules(v);
        s.push_str(&format!(
            "  ({v}, ⟨{}, {}, {}, {}, {}, {}, {}, {}⟩){}\n",
            r.keep_room_aliases_aliases,
            r.keep_room_join_rules_allow,
            r.keep_room_member_join_authorised_via_users_server,
            r.keep_origin_membership_prev_state,
            r.keep_room_create_content,
            r.keep_room_redaction_redacts,
            r.keep_room_power_levels_invite,
            r.keep_room_member_third_party_invite_signed,
            if v == 11 { "" } else { "," }
        ));
    }
    s.push_str("]\n\nend Ruma.Generated.C04\n");
    s
}

fn gen(rng: &mut Rng, n: usize, _tier: &str) -> Vec<Req> {
    let mut reqs = cell_requests();
    reqs.extend(random_requests(rng, n));
    reqs
}

fn main() {
    h_lib::std_main(Some(&extract), &gen, &run);
}
