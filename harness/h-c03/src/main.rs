//! C03 — event signatures survive redaction; required signers and hash status are enforced.
//!
//! The signature scheme (ed25519-dalek) is external to ruma: every request that needs it carries an
//! ORACLE TABLE produced by the real `Ed25519KeyPair::sign` / `verify_canonical_json_bytes`, so the
//! Lean model replays ruma's glue with exactly the signatures / verdicts the real scheme gave.
//! `Ipv6Addr::from_str` (used by server-name validation) is external too: `X` lists the bracket
//! contents it accepts.
//!
//!   x6     := X <n> (<str:s>)*
//!   gtable := G <n> (<seed:h> <msg:h> <sig:h>)*
//!   vtable := V <msg:h> <n> (<pk:h> <sig:h> <t|f>)*
//!   keymap := K <n> (<entity:s> <m> (<keyid:s> <pk:h>)*)*
//!
//! Requests and answers (errors are one class `err`):
//!   c03.sigrules <v>                                               → `<t|f> <t|f>`        (SPEC op)
//!   c03.servers <v> <x6> <event>                                   → ok <n> <server:s>* | err
//!       behavioural: the servers whose signature `verify_event` really demands
//!   c03.sign <v> <gtable> <entity:s> <version:s> <seed:h> <event>  → ok <event'> | err <event'>
//!   c03.verify <v> <tag> <x6> <vtable> <keymap> <event>            → all | signatures | err
//!       <tag> states what the property requires of this case by construction (only `run` reads it).
use std::{collections::BTreeMap, net::Ipv6Addr};

use h_lib::{
    cj::{cj_obj_toks, cj_parse_obj, gen_canonical_value},
    h_util::{self, hex, unhex},
    stok, version_id, Outcome, Req, Rng,
};
use ruma_common::{
    canonical_json::redact,
    room_version_rules::RoomVersionRules,
    serde::{base64::Standard, Base64},
    CanonicalJsonObject, CanonicalJsonValue, SigningKeyAlgorithm,
};
use ruma_signatures::{
    canonical_json, content_hash, hash_and_sign_event, sign_json, verify_canonical_json_bytes,
    verify_event, Ed25519KeyPair, KeyPair, PublicKeyMap, PublicKeySet, Verified,
};
use serde_json::{json, Value};

type Obj = CanonicalJsonObject;
type Val = CanonicalJsonValue;

fn rules(v: u32) -> RoomVersionRules {
    version_id(v).rules().expect("known version has rules")
}

fn to_obj(v: Value) -> Obj {
    match Val::try_from(v).expect("canonical") {
        Val::Object(o) => o,
        _ => panic!("not an object"),
    }
}

fn to_val(v: Value) -> Val {
    Val::try_from(v).expect("canonical")
}

/// PKCS#8 v1 document (RFC 8410 §7) for a 32-byte Ed25519 seed.
fn pkcs8_v1(seed: &[u8]) -> Vec<u8> {
    let mut d = vec![
        0x30, 0x2e, 0x02, 0x01, 0x00, 0x30, 0x05, 0x06, 0x03, 0x2b, 0x65, 0x70, 0x04, 0x22, 0x04, 0x20,
    ];
    d.extend_from_slice(seed);
    d
}

fn key_pair(seed: &[u8], version: &str) -> Ed25519KeyPair {
    Ed25519KeyPair::from_der(&pkcs8_v1(seed), version.to_owned()).expect("PKCS#8 v1 document for a 32-byte seed")
}

fn real_verify_bytes(pk: &[u8], sig: &[u8], msg: &[u8]) -> bool {
    verify_canonical_json_bytes(&SigningKeyAlgorithm::Ed25519, pk, sig, msg).is_ok()
}

fn htok(b: &[u8]) -> String {
    format!("h{}", hex(b))
}

fn fnv(s: &str) -> u64 {
    let mut h: u64 = 0xcbf29ce484222325;
    for b in s.bytes() {
        h ^= b as u64;
        h = h.wrapping_mul(0x100000001b3);
    }
    h
}

// ---------------------------------------------------------------------------------------------
// external-function oracles

/// The part after the first `:` (the spec's "server name" of a user ID / v1 event ID).
fn after_colon(s: &str) -> Option<&str> {
    s.find(':').map(|i| &s[i + 1..])
}

fn id_strings(ev: &Obj) -> Vec<String> {
    let mut v = Vec::new();
    for k in ["sender", "event_id"] {
        if let Some(Val::String(s)) = ev.get(k) {
            v.push(s.clone());
        }
    }
    if let Some(Val::Object(c)) = ev.get("content") {
        if let Some(Val::String(s)) = c.get("join_authorised_via_users_server") {
            v.push(s.clone());
        }
    }
    v
}

/// `X` table: bracket contents of the server parts that `Ipv6Addr::from_str` accepts.
fn x6_toks(ev: &Obj) -> String {
    let mut acc: Vec<String> = Vec::new();
    for id in id_strings(ev) {
        if let Some(srv) = after_colon(&id) {
            if let Some(rest) = srv.strip_prefix('[') {
                if let Some(end) = rest.find(']') {
                    let inner = &rest[..end];
                    if inner.parse::<Ipv6Addr>().is_ok() && !acc.iter().any(|a| a == inner) {
                        acc.push(inner.to_owned());
                    }
                }
            }
        }
    }
    let mut s = format!("X {}", acc.len());
    for a in acc {
        s.push(' ');
        s.push_str(&stok(&a));
    }
    s
}

fn vtable_toks(keys: &PublicKeyMap, ev: &Obj, rules: &RoomVersionRules) -> String {
    // every (public key, signature) pair `verify_event` can ask the scheme about; the message is the
    // canonical JSON of the redacted event (computed with ruma's public `redact` + `canonical_json`)
    let msg = match redact(ev.clone(), &rules.redaction, None).ok().and_then(|r| canonical_json(&r).ok()) {
        Some(m) => m.into_bytes(),
        None => return "V h 0".to_owned(),
    };
    let mut rows: Vec<(Vec<u8>, Vec<u8>, bool)> = Vec::new();
    if let Some(Val::Object(sigs)) = ev.get("signatures") {
        for (entity, set) in sigs {
            let (Val::Object(set), Some(pks)) = (set, keys.get(entity)) else { continue };
            for (kid, sig) in set {
                let (Some(pk), Val::String(s)) = (pks.get(kid), sig) else { continue };
                if let Ok(raw) = Base64::<Standard>::parse(s) {
                    let row = (pk.as_bytes().to_vec(), raw.as_bytes().to_vec());
                    if !rows.iter().any(|(p, s, _)| *p == row.0 && *s == row.1) {
                        let ok = real_verify_bytes(&row.0, &row.1, &msg);
                        rows.push((row.0, row.1, ok));
                    }
                }
            }
        }
    }
    let mut s = format!("V {} {}", htok(&msg), rows.len());
    for (pk, sig, ok) in rows {
        s.push_str(&format!(" {} {} {}", htok(&pk), htok(&sig), if ok { "t" } else { "f" }));
    }
    s
}

fn keymap_toks(keys: &PublicKeyMap) -> String {
    let mut s = format!("K {}", keys.len());
    for (entity, set) in keys {
        s.push_str(&format!(" {} {}", stok(entity), set.len()));
        for (kid, pk) in set {
            s.push_str(&format!(" {} {}", stok(kid), htok(pk.as_bytes())));
        }
    }
    s
}

/// The message `hash_and_sign_event` must sign for `ev`, from ruma's public building blocks.
fn sign_message(ev: &Obj, rules: &RoomVersionRules) -> Option<Vec<u8>> {
    let hash = content_hash(ev).ok()?;
    let mut o = ev.clone();
    match o.entry("hashes".to_owned()).or_insert_with(|| Val::Object(BTreeMap::new())) {
        Val::Object(h) => {
            h.insert("sha256".into(), Val::String(hash.encode()));
        }
        _ => return None,
    }
    let red = redact(o, &rules.redaction, None).ok()?;
    Some(canonical_json(&red).ok()?.into_bytes())
}

fn gtable_toks(seed: &[u8], ev: &Obj, rules: &RoomVersionRules) -> String {
    match sign_message(ev, rules) {
        Some(msg) => {
            let sig = key_pair(seed, "t").sign(&msg);
            format!("G 1 {} {} {}", htok(seed), htok(&msg), htok(sig.as_bytes()))
        }
        None => "G 0".to_owned(),
    }
}

// ---------------------------------------------------------------------------------------------
// request parsing

struct Cur<'a> {
    toks: &'a [&'a str],
    i: usize,
}

impl<'a> Cur<'a> {
    fn word(&mut self) -> Option<&'a str> {
        let w = self.toks.get(self.i)?;
        self.i += 1;
        Some(*w)
    }
    fn lit(&mut self, w: &str) -> Option<()> {
        (self.word()? == w).then_some(())
    }
    fn num(&mut self) -> Option<usize> {
        self.word()?.parse().ok()
    }
    fn bytes(&mut self) -> Option<Vec<u8>> {
        unhex(self.word()?.strip_prefix('h')?)
    }
    fn string(&mut self) -> Option<String> {
        h_util::unhex_str(self.word()?.strip_prefix('s')?)
    }
    fn version(&mut self) -> Option<u32> {
        let v: u32 = self.word()?.parse().ok()?;
        (1..=11).contains(&v).then_some(v)
    }
    fn x6(&mut self) -> Option<Vec<String>> {
        self.lit("X")?;
        let n = self.num()?;
        (0..n).map(|_| self.string()).collect()
    }
    fn gtable(&mut self) -> Option<Vec<(Vec<u8>, Vec<u8>, Vec<u8>)>> {
        self.lit("G")?;
        let n = self.num()?;
        (0..n).map(|_| Some((self.bytes()?, self.bytes()?, self.bytes()?))).collect()
    }
    fn vtable(&mut self) -> Option<(Vec<u8>, Vec<(Vec<u8>, Vec<u8>, bool)>)> {
        self.lit("V")?;
        let msg = self.bytes()?;
        let n = self.num()?;
        let rows = (0..n)
            .map(|_| {
                let pk = self.bytes()?;
                let sig = self.bytes()?;
                let ok = match self.word()? {
                    "t" => true,
                    "f" => false,
                    _ => return None,
                };
                Some((pk, sig, ok))
            })
            .collect::<Option<Vec<_>>>()?;
        Some((msg, rows))
    }
    fn keymap(&mut self) -> Option<PublicKeyMap> {
        self.lit("K")?;
        let n = self.num()?;
        let mut m = PublicKeyMap::new();
        for _ in 0..n {
            let entity = self.string()?;
            let k = self.num()?;
            let mut set = PublicKeySet::new();
            for _ in 0..k {
                let kid = self.string()?;
                set.insert(kid, Base64::new(self.bytes()?));
            }
            m.insert(entity, set);
        }
        Some(m)
    }
    fn obj_to_end(&mut self) -> Option<Obj> {
        let mut it = self.toks[self.i..].iter();
        let o = cj_parse_obj(&mut it)?;
        it.next().is_none().then_some(o)
    }
}

// ---------------------------------------------------------------------------------------------
// the specification's required-server set, evaluated independently of ruma-signatures

/// `Some(set)` for events on which the clauses can be evaluated textually; `None` otherwise.
fn spec_servers(v: u32, ev: &Obj) -> Option<Vec<String>> {
    let mut out: Vec<String> = Vec::new();
    let ty = match ev.get("type") {
        Some(Val::String(t)) => t.as_str(),
        _ => return None,
    };
    let content = match ev.get("content") {
        Some(Val::Object(c)) => Some(c),
        _ => None,
    };
    let mut third_party = false;
    if ty == "m.room.member" {
        let c = content?;
        match c.get("membership") {
            Some(Val::String(m)) => {
                if m == "invite" {
                    match c.get("third_party_invite") {
                        Some(Val::Object(_)) => third_party = true,
                        None => {}
                        _ => return None,
                    }
                }
            }
            _ => return None,
        }
    }
    if !third_party {
        match ev.get("sender") {
            Some(Val::String(s)) => out.push(after_colon(s)?.to_owned()),
            _ => return None,
        }
    }
    if v <= 2 {
        match ev.get("event_id") {
            Some(Val::String(s)) => out.push(after_colon(s)?.to_owned()),
            _ => return None,
        }
    }
    if v >= 8 {
        if let Some(a) = content.and_then(|c| c.get("join_authorised_via_users_server")) {
            match a {
                Val::String(s) => out.push(after_colon(s)?.to_owned()),
                _ => return None,
            }
        }
    }
    out.sort();
    out.dedup();
    Some(out)
}

// ---------------------------------------------------------------------------------------------
// running the implementation

fn seed_for(entity: &str) -> Vec<u8> {
    let mut r = Rng::new(fnv(entity));
    (0..32).map(|_| (r.next() & 0xff) as u8).collect()
}

/// Behavioural extraction of `servers_to_check_signatures` (a private function): sign the event
/// with every candidate server, check that the fully signed event verifies, then drop one
/// candidate's signature at a time — the servers whose absence makes `verify_event` fail are the
/// required ones.
fn run_servers(v: u32, ev: Obj) -> Outcome {
    let rules = rules(v);
    let mut t3 = Vec::new();
    let mut cands: Vec<String> = id_strings(&ev).iter().filter_map(|s| after_colon(s).map(str::to_owned)).collect();
    cands.push("unrelated.example".to_owned());
    cands.sort();
    cands.dedup();
    let mut signed = ev.clone();
    let mut keys = PublicKeyMap::new();
    for c in &cands {
        let kp = key_pair(&seed_for(c), "1");
        if hash_and_sign_event(c, &kp, &mut signed, &rules.redaction).is_err() {
            return Outcome { imp: "err".into(), t3 };
        }
        let mut set = PublicKeySet::new();
        set.insert("ed25519:1".to_owned(), Base64::new(kp.public_key().to_vec()));
        keys.insert(c.clone(), set);
    }
    match verify_event(&keys, &signed, &rules) {
        Ok(Verified::All) => {}
        Ok(Verified::Signatures) => {
            t3.push("an event hashed and signed by every candidate server verifies as `signatures` only".into());
        }
        Err(_) => return Outcome { imp: "err".into(), t3 },
    }
    let mut required = Vec::new();
    for c in &cands {
        let mut e2 = signed.clone();
        if let Some(Val::Object(s)) = e2.get_mut("signatures") {
            s.remove(c);
        }
        if verify_event(&keys, &e2, &rules).is_err() {
            required.push(c.clone());
        }
    }
    if let Some(spec) = spec_servers(v, &ev) {
        if spec != required {
            t3.push(format!(
                "servers whose signature verify_event demands {required:?} differ from the specification's {spec:?} \
                 (sender's server unless 3pid invite; event-id server iff v<=2; authorising server iff v>=8)"
            ));
        }
    }
    let mut imp = format!("ok {}", required.len());
    for r in required {
        imp.push(' ');
        imp.push_str(&stok(&r));
    }
    Outcome { imp, t3 }
}

fn run_sign(v: u32, entity: &str, version: &str, seed: &[u8], ev: Obj) -> Outcome {
    let rules = rules(v);
    let mut t3 = Vec::new();
    let kp = key_pair(seed, version);
    let mut o = ev.clone();
    let res = hash_and_sign_event(entity, &kp, &mut o, &rules.redaction);
    let imp = format!("{} {}", if res.is_ok() { "ok" } else { "err" }, cj_obj_toks(&o));
    if res.is_ok() {
        // sign → verify = All whenever this signer covers every server the version demands
        let mut keys = PublicKeyMap::new();
        let mut set = PublicKeySet::new();
        set.insert(format!("ed25519:{version}"), Base64::new(kp.public_key().to_vec()));
        keys.insert(entity.to_owned(), set);
        let fresh = !ev.contains_key("signatures");
        if fresh {
            if let Some(spec) = spec_servers(v, &o) {
                if spec.iter().all(|s| s == entity) {
                    match verify_event(&keys, &o, &rules) {
                        Ok(Verified::All) => {}
                        Ok(Verified::Signatures) => t3.push("sign then verify: content hash reported invalid".into()),
                        Err(e) => {
                            // identifiers the textual oracle accepts may still be rejected by the parser
                            let parse = format!("{e:?}");
                            if !(parse.contains("UserId") || parse.contains("EventId") || parse.contains("ServerName")) {
                                t3.push(format!("sign then verify failed: {e:?}"));
                            }
                        }
                    }
                }
            }
        }
        // the stored hash is the content hash; hash and signatures of the input are otherwise kept
        match content_hash(&o) {
            Ok(h) => {
                let stored = match o.get("hashes") {
                    Some(Val::Object(hs)) => hs.get("sha256").cloned(),
                    _ => None,
                };
                if stored != Some(Val::String(h.encode())) {
                    t3.push("hashes.sha256 after hash_and_sign_event is not the content hash".into());
                }
            }
            Err(_) => t3.push("content hash of a signed event fails".into()),
        }
        for (k, val) in &ev {
            if k != "hashes" && k != "signatures" && o.get(k) != Some(val) {
                t3.push(format!("hash_and_sign_event changed field {k:?}"));
            }
        }
    }
    Outcome { imp, t3 }
}

fn verdict(r: &Result<Verified, ruma_signatures::Error>) -> &'static str {
    match r {
        Ok(Verified::All) => "all",
        Ok(Verified::Signatures) => "signatures",
        Err(_) => "err",
    }
}

fn run_verify(v: u32, tag: &str, keys: &PublicKeyMap, ev: Obj) -> Outcome {
    let rules = rules(v);
    let mut t3 = Vec::new();
    let imp = verdict(&verify_event(keys, &ev, &rules));
    let want: &[&str] = match tag {
        "signed" | "unsigned-mut" | "sig-extra-removed" => &["all"],
        "redacted" => &["all", "signatures"],
        "strip-mut" => &["signatures"],
        "kept-mut" | "sig-required-removed" | "sig-required-corrupt" | "key-missing" | "key-wrong" | "oversize" => {
            &["err"]
        }
        _ => &["all", "signatures", "err"],
    };
    if !want.contains(&imp) {
        t3.push(format!("case built as `{tag}` must verify as {want:?}, verify_event says `{imp}`"));
    }
    // `unsigned` never matters
    let mut e2 = ev.clone();
    e2.insert("unsigned".into(), to_val(json!({"age": 1234, "x": [1, {"y": null}]})));
    let r2 = verdict(&verify_event(keys, &e2, &rules));
    let mut e3 = ev.clone();
    e3.remove("unsigned");
    let r3 = verdict(&verify_event(keys, &e3, &rules));
    if r2 != imp || r3 != imp {
        t3.push(format!("verify_event depends on `unsigned`: `{imp}` vs `{r2}` (replaced) / `{r3}` (removed)"));
    }
    Outcome { imp: imp.to_owned(), t3 }
}

fn tf(b: bool) -> &'static str {
    if b {
        "t"
    } else {
        "f"
    }
}

/// A table whose entries do not reproduce on the real scheme is a harness defect: `bad-op`.
fn tables_ok_g(g: &[(Vec<u8>, Vec<u8>, Vec<u8>)]) -> bool {
    g.iter().all(|(seed, msg, sig)| seed.len() == 32 && key_pair(seed, "t").sign(msg).as_bytes() == &sig[..])
}

pub fn run(req: &str) -> Outcome {
    let toks: Vec<&str> = req.split(' ').collect();
    run_toks(&toks).unwrap_or_else(Outcome::bad)
}

fn run_toks(toks: &[&str]) -> Option<Outcome> {
    let mut c = Cur { toks, i: 1 };
    match *toks.first()? {
        "c03.sigrules" => {
            let v = c.version()?;
            let s = rules(v).signatures;
            Some(Outcome::new(format!(
                "{} {}",
                tf(s.check_event_id_server),
                tf(s.check_join_authorised_via_users_server)
            )))
        }
        "c03.servers" => {
            let v = c.version()?;
            let _x6 = c.x6()?;
            let ev = c.obj_to_end()?;
            Some(run_servers(v, ev))
        }
        "c03.sign" => {
            let v = c.version()?;
            let g = c.gtable()?;
            if !tables_ok_g(&g) {
                return None;
            }
            let entity = c.string()?;
            let version = c.string()?;
            let seed = c.bytes()?;
            if seed.len() != 32 {
                return None;
            }
            let ev = c.obj_to_end()?;
            Some(run_sign(v, &entity, &version, &seed, ev))
        }
        "c03.verify" => {
            let v = c.version()?;
            let tag = c.word()?;
            let _x6 = c.x6()?;
            let (msg, rows) = c.vtable()?;
            if !rows.iter().all(|(pk, sig, ok)| real_verify_bytes(pk, sig, &msg) == *ok) {
                return None;
            }
            let keys = c.keymap()?;
            let ev = c.obj_to_end()?;
            Some(run_verify(v, tag, &keys, ev))
        }
        _ => None,
    }
}

/// T1: `signatures`, `redaction` and `event_id_format` rules reached through `RoomVersionId::rules()`.
fn extract() -> String {
    let mut s = String::new();
    s.push_str("-- GENERATED by `h-c03 c03 extract` from the running implementation. Do not edit.\n");
    s.push_str("import RumaModel.Model.EventSign\nnamespace Ruma.Generated.C03\nopen Ruma.Redact Ruma.EventSign\n\n");
    s.push_str("/-- `RoomVersionId::V<n>.rules().signatures` for n = 1..11:\n");
    s.push_str("⟨check_event_id_server, check_join_authorised_via_users_server⟩. -/\n");
    s.push_str("def signaturesTable : List (Nat × SigRules) := [\n");
    for v in 1..=11u32 {
        let r = rules(v).signatures;
        s.push_str(&format!(
            "  ({v}, ⟨{}, {}⟩){}\n",
            r.check_event_id_server,
            r.check_join_authorised_via_users_server,
            if v == 11 { "" } else { "," }
        ));
    }
    s.push_str("]\n\n/-- `RoomVersionId::V<n>.rules().redaction` for n = 1..11, read field by field. -/\n");
    s.push_str("def redactionTable : List (Nat × Rules) := [\n");
    for v in 1..=11u32 {
        let r = rules(v).redaction;
        s.push_str(&format!(
            "  ({v}, ⟨{}, {}, {}, {}, {}, {}, {}, {}⟩){}\n",
            r.keep_room_aliases_aliases,
            r.keep_room_join_rules_allow,
            r.keep_room_member_join_authorised_via_users_server,
            r.keep_origin_membership_prev_state,
            r.keep_room_create_content,
            r.keep_room_redaction_redacts,
            r.keep_room_power_levels_invite,
            r.keep_room_member_third_party_invite_signed,
            if v == 11 { "" } else { "," }
        ));
    }
    s.push_str("]\n\nend Ruma.Generated.C03\n");
    s
}

// ---------------------------------------------------------------------------------------------
// generators

const TYPES: &[&str] = &[
    "m.room.member",
    "m.room.member",
    "m.room.member",
    "m.room.create",
    "m.room.join_rules",
    "m.room.power_levels",
    "m.room.history_visibility",
    "m.room.redaction",
    "m.room.aliases",
    "m.room.server_acl",
    "m.room.message",
    "m.room.third_party_invite",
    "x.custom",
];

const SERVERS: &[&str] = &[
    "a.example", "b.example", "c.example:8448", "1.2.3.4", "1.2.3.4:80", "[::1]", "[1:2::3]:8448", "xn--e1afmkfd.example", "A-b.C",
];

const BAD_SERVERS: &[&str] = &["", "a b", "[::g]", "a.example:", "a.example:99999", "exa_mple", "[::1", "é.example"];

const TOP_EXTRA: &[&str] = &[
    "room_id", "state_key", "depth", "prev_events", "auth_events", "origin_server_ts", "origin", "membership",
    "prev_state", "redacts", "age_ts", "prev_content", "replaces_state", "zz.fresh",
];

const CONTENT_KEYS: &[&str] = &[
    "displayname", "reason", "creator", "m.federate", "room_version", "predecessor", "join_rule", "allow", "ban",
    "events", "events_default", "kick", "redact", "state_default", "users", "users_default", "invite",
    "history_visibility", "redacts", "aliases", "deny", "body", "msgtype", "topic", "zz.fresh",
];

fn pick_server(rng: &mut Rng, bad_ok: bool) -> String {
    if bad_ok && rng.chance(1, 12) {
        (*rng.pick(BAD_SERVERS)).to_owned()
    } else {
        (*rng.pick(SERVERS)).to_owned()
    }
}

fn localpart(rng: &mut Rng, bad_ok: bool) -> String {
    if bad_ok && rng.chance(1, 15) {
        (*rng.pick(&["", "a\u{0}b", "é", "A B"])).to_owned()
    } else {
        (*rng.pick(&["alice", "bob", "a.b_c=d-e/f", "1", "Old-Style"])).to_owned()
    }
}

struct GenEv {
    ev: serde_json::Map<String, Value>,
}

/// A mostly well-formed event of the given version; `bad_ok` lets identifiers and shapes go wrong.
fn gen_event(rng: &mut Rng, v: u32, bad_ok: bool) -> GenEv {
    let mut ev = serde_json::Map::new();
    let ty = *rng.pick(TYPES);
    match if bad_ok { rng.below(30) } else { 5 } {
        0 => {}
        1 => {
            ev.insert("type".into(), json!(7));
        }
        _ => {
            ev.insert("type".into(), json!(ty));
        }
    }
    let sender_srv = pick_server(rng, bad_ok);
    match if bad_ok { rng.below(30) } else { 5 } {
        0 => {}
        1 => {
            ev.insert("sender".into(), json!(["@a:b"]));
        }
        2 => {
            ev.insert("sender".into(), json!(format!("alice:{sender_srv}")));
        }
        3 => {
            ev.insert("sender".into(), json!("@alice"));
        }
        _ => {
            ev.insert("sender".into(), json!(format!("@{}:{sender_srv}", localpart(rng, bad_ok))));
        }
    }
    // event_id: v1/v2 style with a server, v3+ style without, sometimes the wrong style or absent
    let style = rng.below(10);
    let want_v1 = if v <= 2 { style < 8 } else { style < 2 };
    if want_v1 {
        let srv = if rng.chance(2, 3) { sender_srv.clone() } else { pick_server(rng, bad_ok) };
        ev.insert("event_id".into(), json!(format!("$evt{}:{srv}", rng.below(100))));
    } else if style < 9 {
        ev.insert("event_id".into(), json!("$Rqnc-F-dvnEYJTyHq_iKxU2bZ1CI92-kuZq3a5lr5Zg"));
    } else if bad_ok && rng.chance(1, 2) {
        ev.insert("event_id".into(), json!(5));
    }
    for k in TOP_EXTRA {
        if rng.chance(1, 3) {
            ev.insert((*k).to_owned(), gen_canonical_value(rng, 2));
        }
    }
    if rng.chance(1, 3) {
        ev.insert("unsigned".into(), json!({"age": rng.range(0, 9999)}));
    }
    // content
    let mut c = serde_json::Map::new();
    for k in CONTENT_KEYS {
        if rng.chance(1, 5) {
            c.insert((*k).to_owned(), gen_canonical_value(rng, 2));
        }
    }
    if ty == "m.room.member" || rng.chance(1, 10) {
        match if bad_ok { rng.below(20) } else { 5 } {
            0 => {}
            1 => {
                c.insert("membership".into(), json!(1));
            }
            _ => {
                c.insert("membership".into(), json!(*rng.pick(&["join", "invite", "invite", "leave", "ban", "knock"])));
            }
        }
        if rng.chance(1, 3) {
            let tpi = match if bad_ok { rng.below(12) } else { 5 } {
                0 => json!("not an object"),
                _ => match rng.below(3) {
                    0 => json!({}),
                    1 => json!({"display_name": "n"}),
                    _ => json!({"display_name": "n", "signed": {"mxid": "@c:d", "token": "t", "signatures": {}}}),
                },
            };
            c.insert("third_party_invite".into(), tpi);
        }
        if rng.chance(1, 3) {
            let srv = if rng.chance(1, 3) { sender_srv.clone() } else { pick_server(rng, bad_ok) };
            let a = match if bad_ok { rng.below(15) } else { 5 } {
                0 => json!(17),
                1 => json!("@nocolon"),
                _ => json!(format!("@{}:{srv}", localpart(rng, bad_ok))),
            };
            c.insert("join_authorised_via_users_server".into(), a);
        }
    }
    match if bad_ok { rng.below(25) } else { 5 } {
        0 => {}
        1 => {
            ev.insert("content".into(), json!([1]));
        }
        _ => {
            ev.insert("content".into(), Value::Object(c));
        }
    }
    GenEv { ev }
}

struct Signer {
    entity: String,
    version: String,
    seed: Vec<u8>,
}

fn new_signer(rng: &mut Rng, entity: &str) -> Signer {
    Signer {
        entity: entity.to_owned(),
        version: (*rng.pick(&["1", "1", "a_b", "auto", "é", ""])).to_owned(),
        seed: (0..32).map(|_| (rng.next() & 0xff) as u8).collect(),
    }
}

fn keymap_of(signers: &[Signer]) -> PublicKeyMap {
    let mut m = PublicKeyMap::new();
    for s in signers {
        let kp = key_pair(&s.seed, &s.version);
        m.entry(s.entity.clone())
            .or_default()
            .insert(format!("ed25519:{}", s.version), Base64::new(kp.public_key().to_vec()));
    }
    m
}

fn sign_req(v: u32, s: &Signer, ev: &Obj, cls: &str) -> Req {
    Req::new(
        format!(
            "c03.sign {v} {} {} {} {} {}",
            gtable_toks(&s.seed, ev, &rules(v)),
            stok(&s.entity),
            stok(&s.version),
            htok(&s.seed),
            cj_obj_toks(ev)
        ),
        cls,
    )
}

fn verify_req(v: u32, tag: &str, keys: &PublicKeyMap, ev: &Obj, cls: &str) -> Req {
    Req::new(
        format!(
            "c03.verify {v} {tag} {} {} {} {}",
            x6_toks(ev),
            vtable_toks(keys, ev, &rules(v)),
            keymap_toks(keys),
            cj_obj_toks(ev)
        ),
        cls,
    )
}

fn servers_req(v: u32, ev: &Obj, cls: &str) -> Req {
    Req::new(format!("c03.servers {v} {} {}", x6_toks(ev), cj_obj_toks(ev)), cls)
}

/// The bytes that are signed / the bytes that are content-hashed, through ruma's public functions.
fn redacted_bytes(ev: &Obj, r: &RoomVersionRules) -> Option<String> {
    canonical_json(&redact(ev.clone(), &r.redaction, None).ok()?).ok()
}

fn hashed_bytes(ev: &Obj) -> String {
    let mut o = ev.clone();
    o.remove("hashes");
    o.remove("signatures");
    o.remove("unsigned");
    serde_json::to_string(&o).unwrap()
}

/// One random single-field mutation outside `unsigned` / `signatures` / `hashes`; returns a label of
/// the place touched.
fn mutate(rng: &mut Rng, ev: &mut Obj) -> String {
    let in_content = rng.chance(1, 2) && matches!(ev.get("content"), Some(Val::Object(_)));
    let fresh = to_val(gen_canonical_value(rng, 1));
    if in_content {
        let Some(Val::Object(c)) = ev.get_mut("content") else { unreachable!() };
        let keys: Vec<String> = c.keys().cloned().collect();
        match rng.below(3) {
            0 if !keys.is_empty() => {
                let k = rng.pick(&keys).clone();
                c.remove(&k);
                format!("content.{k}")
            }
            1 if !keys.is_empty() => {
                let k = rng.pick(&keys).clone();
                let old = c.get(&k).cloned().unwrap();
                c.insert(k.clone(), Val::Array(vec![old]));
                format!("content.{k}")
            }
            _ => {
                let k = (*rng.pick(CONTENT_KEYS)).to_owned();
                let newv = if c.get(&k) == Some(&fresh) { Val::Array(vec![fresh]) } else { fresh };
                c.insert(k.clone(), newv);
                format!("content.{k}")
            }
        }
    } else {
        let keys: Vec<String> =
            ev.keys().filter(|k| !["unsigned", "signatures", "hashes", "content"].contains(&k.as_str())).cloned().collect();
        match rng.below(3) {
            0 if !keys.is_empty() => {
                let k = rng.pick(&keys).clone();
                ev.remove(&k);
                k
            }
            1 if !keys.is_empty() => {
                let k = rng.pick(&keys).clone();
                let old = ev.get(&k).cloned().unwrap();
                ev.insert(k.clone(), Val::Array(vec![old]));
                k
            }
            _ => {
                let k = (*rng.pick(TOP_EXTRA)).to_owned();
                let newv = if ev.get(&k) == Some(&fresh) { Val::Array(vec![fresh]) } else { fresh };
                ev.insert(k.clone(), newv);
                k
            }
        }
    }
}

/// Places whose change alters *which* servers must sign (so "kept change ⇒ failure" is not what the
/// property promises for them: an invite turned into a third-party invite needs no signature).
fn selects_servers(place: &str) -> bool {
    matches!(place, "type" | "content.membership" | "content.third_party_invite")
}

fn gen_verify_family(rng: &mut Rng, out: &mut Vec<Req>) {
    let v = rng.range(1, 11) as u32;
    let r = rules(v);
    let g = gen_event(rng, v, false);
    let base = to_obj(Value::Object(g.ev));
    let Some(required) = spec_servers(v, &base) else { return };
    // signers: the required servers, sometimes one more
    let mut signers: Vec<Signer> = required.iter().map(|s| new_signer(rng, s)).collect();
    let extra = rng.chance(1, 3);
    if extra || signers.is_empty() {
        signers.push(new_signer(rng, "extra.example"));
    }
    rng.shuffle(&mut signers);
    let keys = keymap_of(&signers);
    let mut ev = base.clone();
    for (i, s) in signers.iter().enumerate() {
        // every signing step is itself a correspondence case for the first few
        if i < 2 && rng.chance(1, 3) {
            out.push(sign_req(v, s, &ev, "sign.chain"));
        }
        if hash_and_sign_event(&s.entity, &key_pair(&s.seed, &s.version), &mut ev, &r.redaction).is_err() {
            return;
        }
    }
    out.push(verify_req(v, "signed", &keys, &ev, "verify.signed"));
    // redacted copy
    if let Ok(red) = redact(ev.clone(), &r.redaction, None) {
        // the redacted copy of a third-party invite can lose the marker that exempts the sender's server
        let tag = match spec_servers(v, &red) {
            Some(need) if need.iter().all(|s| signers.iter().any(|x| &x.entity == s)) => "redacted",
            _ => "free",
        };
        out.push(verify_req(v, tag, &keys, &red, &format!("verify.{tag}-copy")));
    }
    // `unsigned` only
    {
        let mut e2 = ev.clone();
        match rng.below(3) {
            0 => {
                e2.remove("unsigned");
            }
            1 => {
                e2.insert("unsigned".into(), to_val(gen_canonical_value(rng, 2)));
            }
            _ => {
                e2.insert("unsigned".into(), to_val(json!({"age": 1, "redacted_because": {"type": "m.room.redaction"}})));
            }
        }
        out.push(verify_req(v, "unsigned-mut", &keys, &e2, "verify.unsigned-mut"));
    }
    // single-field mutations, classified with the real redact()
    for _ in 0..3 {
        let mut e2 = ev.clone();
        let place = mutate(rng, &mut e2);
        let same_signed = redacted_bytes(&e2, &r) == redacted_bytes(&ev, &r);
        let same_hashed = hashed_bytes(&e2) == hashed_bytes(&ev);
        let servers_same = spec_servers(v, &e2) == spec_servers(v, &ev);
        // with no demanded server (a third-party invite from room version 3 on) nothing is verified
        let tag = if selects_servers(&place) || !servers_same || required.is_empty() {
            "free"
        } else if same_signed && !same_hashed {
            "strip-mut"
        } else if !same_signed {
            "kept-mut"
        } else {
            "free"
        };
        out.push(verify_req(v, tag, &keys, &e2, &format!("verify.{tag}")));
    }
    // signature set manipulations
    if let Some(req_srv) = required.first() {
        let mut e2 = ev.clone();
        if let Some(Val::Object(s)) = e2.get_mut("signatures") {
            s.remove(req_srv);
        }
        out.push(verify_req(v, "sig-required-removed", &keys, &e2, "verify.sig-required-removed"));
        let mut e3 = ev.clone();
        if let Some(Val::Object(s)) = e3.get_mut("signatures") {
            if let Some(Val::Object(set)) = s.get_mut(req_srv) {
                for (_, sv) in set.iter_mut() {
                    if let Val::String(b) = sv {
                        let mut raw = Base64::<Standard>::parse(&*b).unwrap().into_inner();
                        let i = rng.below(raw.len());
                        raw[i] ^= 1 << rng.below(8);
                        *b = Base64::<Standard>::new(raw).encode();
                    }
                }
            }
        }
        out.push(verify_req(v, "sig-required-corrupt", &keys, &e3, "verify.sig-required-corrupt"));
        let mut k2 = keys.clone();
        k2.remove(req_srv);
        out.push(verify_req(v, "key-missing", &k2, &ev, "verify.key-missing"));
        let mut k3 = keys.clone();
        if let Some(set) = k3.get_mut(req_srv) {
            for (_, pk) in set.iter_mut() {
                *pk = Base64::new(key_pair(&seed_for("someone else"), "1").public_key().to_vec());
            }
        }
        out.push(verify_req(v, "key-wrong", &k3, &ev, "verify.key-wrong"));
    }
    if extra && !required.is_empty() && !required.iter().any(|s| s == "extra.example") {
        let mut e2 = ev.clone();
        if let Some(Val::Object(s)) = e2.get_mut("signatures") {
            s.remove("extra.example");
        }
        out.push(verify_req(v, "sig-extra-removed", &keys, &e2, "verify.sig-extra-removed"));
        // a corrupt signature of a server nobody asks for is never looked at
        let mut e3 = ev.clone();
        if let Some(Val::Object(s)) = e3.get_mut("signatures") {
            s.insert("extra.example".into(), to_val(json!({"ed25519:1": "AAAA"})));
        }
        out.push(verify_req(v, "sig-extra-removed", &keys, &e3, "verify.sig-extra-junk"));
    }
    // stored-hash variants, signed by hand the way hash_and_sign_event does it
    if rng.chance(1, 2) {
        let good = content_hash(&base).map(|h| h.encode()).unwrap_or_default();
        let variant = match rng.below(7) {
            0 => json!(format!("{good}=")),
            1 => json!(format!("{good}==")),
            2 => {
                // same 32 bytes, different trailing bits in the last character
                let mut s = good.clone();
                let last = s.pop().unwrap_or('A');
                const A: &[u8; 64] = b"ABCDEFGHIJKLMNOPQRSTUVWXYZabcdefghijklmnopqrstuvwxyz0123456789+/";
                let idx = A.iter().position(|c| *c as char == last).unwrap_or(0);
                s.push(A[(idx & !3) | ((idx + 1) & 3)] as char);
                json!(s)
            }
            3 => json!(good.replace('+', "-").replace('/', "_")),
            4 => json!("not base64 !"),
            5 => json!(17),
            _ => json!(good[..good.len().saturating_sub(2)].to_owned()),
        };
        let mut e2 = base.clone();
        let hashes_val = match rng.below(8) {
            0 => json!("str"),
            1 => json!({}),
            _ => json!({"sha256": variant}),
        };
        e2.insert("hashes".into(), to_val(hashes_val));
        if let Ok(mut red) = redact(e2.clone(), &r.redaction, None) {
            let mut ok = true;
            for s in &signers {
                ok &= sign_json(&s.entity, &key_pair(&s.seed, &s.version), &mut red).is_ok();
            }
            if ok {
                if let Some(sigs) = red.get("signatures") {
                    e2.insert("signatures".into(), sigs.clone());
                }
                out.push(verify_req(v, "free", &keys, &e2, "verify.hash-variant"));
            }
        }
    }
}

fn gen_malformed_verify(rng: &mut Rng, out: &mut Vec<Req>) {
    let v = rng.range(1, 11) as u32;
    let r = rules(v);
    let g = gen_event(rng, v, true);
    let mut ev = to_obj(Value::Object(g.ev));
    let cands: Vec<String> = id_strings(&ev).iter().filter_map(|s| after_colon(s).map(str::to_owned)).collect();
    let signers: Vec<Signer> = cands.iter().map(|s| new_signer(rng, s)).collect();
    let keys = keymap_of(&signers);
    for s in &signers {
        let _ = hash_and_sign_event(&s.entity, &key_pair(&s.seed, &s.version), &mut ev, &r.redaction);
    }
    match rng.below(8) {
        0 => {
            ev.remove("hashes");
        }
        1 => {
            ev.insert("hashes".into(), to_val(json!({"sha256": 5})));
        }
        2 => {
            ev.insert("signatures".into(), to_val(json!("x")));
        }
        3 => {
            ev.remove("signatures");
        }
        4 => {
            if let Some(Val::Object(s)) = ev.get_mut("signatures") {
                for (_, set) in s.iter_mut() {
                    *set = to_val(json!(["not a set"]));
                }
            }
        }
        _ => {}
    }
    out.push(verify_req(v, "free", &keys, &ev, "verify.malformed"));
}

fn gen_sign_case(rng: &mut Rng, out: &mut Vec<Req>) {
    let v = rng.range(1, 11) as u32;
    let g = gen_event(rng, v, true);
    let mut ev = to_obj(Value::Object(g.ev));
    let entity = match spec_servers(v, &ev).and_then(|s| s.first().cloned()) {
        Some(s) if rng.chance(3, 4) => s,
        _ => pick_server(rng, false),
    };
    match rng.below(14) {
        0 => {
            ev.insert("hashes".into(), to_val(json!("not an object")));
        }
        1 => {
            ev.insert("hashes".into(), to_val(json!({"sha256": "old", "md5": "kept"})));
        }
        2 => {
            ev.insert("signatures".into(), to_val(json!([1])));
        }
        3 => {
            ev.insert("signatures".into(), to_val(json!({entity.clone(): "not a set"})));
        }
        4 => {
            ev.insert("signatures".into(), to_val(json!({"other.example": {"ed25519:9": "c2ln"}, entity.clone(): {"ed25519:old": "b2xk"}})));
        }
        _ => {}
    }
    let s = new_signer(rng, &entity);
    out.push(sign_req(v, &s, &ev, "sign"));
}

fn gen_servers_case(rng: &mut Rng, out: &mut Vec<Req>, bad_ok: bool) {
    let v = rng.range(1, 11) as u32;
    let mut g = gen_event(rng, v, bad_ok);
    g.ev.remove("unsigned");
    let ev = to_obj(Value::Object(g.ev));
    out.push(servers_req(v, &ev, if bad_ok { "servers.any" } else { "servers.wf" }));
}

/// Every version with the event shapes the three clauses speak about.
fn fixed_servers_cases(out: &mut Vec<Req>) {
    for v in 1..=11u32 {
        let eid = json!("$e1:b.example");
        let shapes = [
            json!({"type": "m.room.message", "sender": "@a:a.example", "event_id": eid, "content": {"body": "x"}}),
            json!({"type": "m.room.member", "sender": "@a:a.example", "event_id": eid, "state_key": "@c:c.example",
                   "content": {"membership": "invite"}}),
            json!({"type": "m.room.member", "sender": "@a:a.example", "event_id": eid, "state_key": "@c:c.example",
                   "content": {"membership": "invite", "third_party_invite": {"signed": {"mxid": "@c:c.example"}}}}),
            json!({"type": "m.room.member", "sender": "@a:a.example", "event_id": eid, "state_key": "@c:c.example",
                   "content": {"membership": "invite", "third_party_invite": {}}}),
            json!({"type": "m.room.member", "sender": "@a:a.example", "event_id": eid, "state_key": "@a:a.example",
                   "content": {"membership": "join", "third_party_invite": {"signed": {}}}}),
            json!({"type": "m.room.member", "sender": "@a:a.example", "event_id": eid, "state_key": "@a:a.example",
                   "content": {"membership": "join", "join_authorised_via_users_server": "@d:d.example"}}),
            json!({"type": "m.room.message", "sender": "@a:a.example", "event_id": eid,
                   "content": {"join_authorised_via_users_server": "@d:d.example"}}),
            json!({"type": "m.room.member", "sender": "@a:a.example", "event_id": "$nohost", "state_key": "@a:a.example",
                   "content": {"membership": "join"}}),
            json!({"type": "m.room.member", "sender": "@a:a.example", "state_key": "@a:a.example",
                   "content": {"membership": "leave"}}),
            json!({"type": "x.third_party_invite", "sender": "@a:a.example", "event_id": eid,
                   "content": {"membership": "invite", "third_party_invite": {"signed": {}}}}),
        ];
        for s in shapes {
            out.push(servers_req(v, &to_obj(s), "servers.fixed"));
        }
    }
}

/// Invites created from a third-party invite, signed by the invited user's server only (all the
/// specification demands), and their redacted copies: room versions 1–10 strip
/// `content.third_party_invite`, so the copy is no longer exempt from the sender's signature.
/// The copies carry no expectation here (tag `free`); the one that contradicts the property's
/// sentence is kept in `corpus/C03/` with the tag `redacted` and recorded in `findings/C03.json`.
fn fixed_third_party_invites(out: &mut Vec<Req>) {
    for v in 1..=11u32 {
        let r = rules(v);
        let mut ev = to_obj(json!({
            "type": "m.room.member", "sender": "@a:a.example", "state_key": "@c:b.example",
            "room_id": "!r:a.example", "origin_server_ts": 1,
            "content": {"membership": "invite", "displayname": "c",
                "third_party_invite": {"display_name": "c", "signed": {"mxid": "@c:b.example", "token": "t",
                    "signatures": {"id.example": {"ed25519:0": "c2ln"}}}}}
        }));
        if v <= 2 {
            ev.insert("event_id".into(), to_val(json!("$e:b.example")));
        }
        let s = Signer { entity: "b.example".into(), version: "1".into(), seed: seed_for("b.example") };
        let keys = keymap_of(std::slice::from_ref(&s));
        if hash_and_sign_event(&s.entity, &key_pair(&s.seed, &s.version), &mut ev, &r.redaction).is_err() {
            continue;
        }
        out.push(verify_req(v, "signed", &keys, &ev, "verify.3pid-signed"));
        if let Ok(red) = redact(ev.clone(), &r.redaction, None) {
            out.push(verify_req(v, "free", &keys, &red, "verify.3pid-redacted-copy"));
        }
        // a change to a field redaction keeps: from room version 3 on no server is demanded of a
        // third-party invite, so no signature is looked at and the change goes through
        let mut changed = ev.clone();
        changed.insert("state_key".into(), to_val(json!("@d:b.example")));
        out.push(verify_req(v, "free", &keys, &changed, "verify.3pid-kept-change"));
    }
}

/// The specification's table of content keys that survive redaction, per room version (room version
/// specs, "Redactions"), written here from the specification and NOT derived from the implementation.
fn spec_keeps_content_key(v: u32, ty: &str, k: &str) -> bool {
    match ty {
        "m.room.member" => k == "membership" || (k == "join_authorised_via_users_server" && v >= 9),
        "m.room.create" => v >= 11 || k == "creator",
        "m.room.join_rules" => k == "join_rule" || (k == "allow" && v >= 8),
        "m.room.power_levels" => {
            ["ban", "events", "events_default", "kick", "redact", "state_default", "users", "users_default"].contains(&k)
                || (k == "invite" && v >= 11)
        }
        "m.room.history_visibility" => k == "history_visibility",
        "m.room.aliases" => k == "aliases" && v <= 5,
        "m.room.redaction" => k == "redacts" && v >= 11,
        _ => false,
    }
}

/// Some version's table names this key for this type.
fn spec_names_key(ty: &str, k: &str) -> bool {
    (1..=11).any(|v| spec_keeps_content_key(v, ty, k))
}

/// Deterministic cells: every room version x every event type with its own redaction rule x content
/// carrying every key any version's table names, and for `m.room.member` every shape of
/// `third_party_invite` (absent, empty, without `signed`, only `signed`, both) x membership:
/// sign with the demanded servers, verify; redact, verify the copy; redact the copy again and verify
/// (a redacted copy of a redacted copy is a redacted copy). Random generation reaches a cell such as
/// (v11, member, `third_party_invite` without `signed`, membership != invite) about once in 1 500 events.
fn fixed_redaction_cells(rng: &mut Rng, out: &mut Vec<Req>) {
    let tpis = [
        None,
        Some(json!({})),
        Some(json!({"display_name": "n"})),
        Some(json!({"signed": {"mxid": "@c:b.example", "token": "t", "signatures": {"id.example": {"ed25519:0": "c2ln"}}}})),
        Some(json!({"display_name": "n", "signed": {"mxid": "@c:b.example", "token": "t", "signatures": {}}})),
    ];
    for v in 1..=11u32 {
        let r = rules(v);
        for ty in [
            "m.room.member", "m.room.create", "m.room.join_rules", "m.room.power_levels",
            "m.room.history_visibility", "m.room.redaction", "m.room.aliases", "m.room.server_acl",
            "m.room.message", "m.room.third_party_invite",
        ] {
            let variants: Vec<(Option<&Value>, &str)> = if ty == "m.room.member" {
                tpis.iter().flat_map(|t| ["join", "invite", "leave"].into_iter().map(move |m| (t.as_ref(), m))).collect()
            } else {
                vec![(None, "join")]
            };
            for (tpi, membership) in variants {
                let mut c = serde_json::Map::new();
                for k in CONTENT_KEYS {
                    c.insert((*k).to_owned(), json!(format!("v-{k}")));
                }
                c.insert("membership".into(), json!(membership));
                c.insert("join_authorised_via_users_server".into(), json!("@auth:a.example"));
                if let Some(t) = tpi {
                    c.insert("third_party_invite".into(), t.clone());
                }
                let mut ev = to_obj(json!({
                    "type": ty, "sender": "@a:a.example", "state_key": "@c:b.example", "room_id": "!r:a.example",
                    "origin_server_ts": 1, "depth": 3, "prev_events": [], "auth_events": [], "origin": "a.example",
                    "membership": "join", "prev_state": [], "redacts": "$x:a.example",
                    "unsigned": {"age": 5}, "content": Value::Object(c)
                }));
                if v <= 2 {
                    ev.insert("event_id".into(), to_val(json!("$e:a.example")));
                }
                let Some(required) = spec_servers(v, &ev) else { continue };
                let mut signers: Vec<Signer> = required.iter().map(|s| new_signer(rng, s)).collect();
                if signers.is_empty() {
                    signers.push(new_signer(rng, "extra.example"));
                }
                let keys = keymap_of(&signers);
                let mut ok = true;
                for s in &signers {
                    ok &= hash_and_sign_event(&s.entity, &key_pair(&s.seed, &s.version), &mut ev, &r.redaction).is_ok();
                }
                if !ok {
                    continue;
                }
                out.push(verify_req(v, "signed", &keys, &ev, "verify.cell-signed"));
                // One content key changed after signing, classified by the SPECIFICATION's table of
                // retained content keys (an independent transcription, not the implementation's
                // redact()): a key redaction keeps is covered by the signatures, so the change must be
                // refused; a key it strips is covered by the content hash only, so the signatures hold
                // and the hash does not. (`third_party_invite`, `membership` and
                // `join_authorised_via_users_server` also steer which servers must sign and are left to
                // the streams above.)
                if tpi.is_none() && membership == "join" && !required.is_empty() {
                    for k in CONTENT_KEYS.iter().filter(|k| spec_names_key(ty, k) || **k == "zz.fresh" || **k == "body") {
                        let mut e2 = ev.clone();
                        if let Some(Val::Object(c)) = e2.get_mut("content") {
                            c.insert((*k).to_owned(), Val::String(format!("changed-{k}")));
                        }
                        let tag = if spec_keeps_content_key(v, ty, k) { "kept-mut" } else { "strip-mut" };
                        out.push(verify_req(v, tag, &keys, &e2, &format!("verify.cell-{tag}")));
                    }
                }
                let Ok(red) = redact(ev.clone(), &r.redaction, None) else { continue };
                let tag_of = |o: &Obj| match spec_servers(v, o) {
                    Some(need) if need.iter().all(|s| signers.iter().any(|x| &x.entity == s)) => "redacted",
                    _ => "free",
                };
                out.push(verify_req(v, tag_of(&red), &keys, &red, "verify.cell-redacted-copy"));
                if let Ok(red2) = redact(red.clone(), &r.redaction, None) {
                    out.push(verify_req(v, tag_of(&red2), &keys, &red2, "verify.cell-redacted-twice"));
                }
            }
        }
    }
}

/// Events whose hashed canonical form exceeds 65 535 bytes: `hash_and_sign_event` must refuse them
/// (object untouched), and an event grown past the limit after signing — in a part redaction strips,
/// so that the signatures stay valid — must fail in `verify_event` at the content-hash step.
fn oversize_cases(rng: &mut Rng, out: &mut Vec<Req>) {
    let v = rng.range(1, 11) as u32;
    let r = rules(v);
    let mut ev = to_obj(json!({
        "type": "m.room.message", "sender": "@a:a.example", "event_id": "$e:a.example", "room_id": "!r:a.example",
        "content": {"body": "small", "msgtype": "m.text"}
    }));
    let s = new_signer(rng, "a.example");
    let keys = keymap_of(std::slice::from_ref(&s));
    let mut big = ev.clone();
    if let Some(Val::Object(c)) = big.get_mut("content") {
        c.insert("body".into(), Val::String("x".repeat(65_600)));
    }
    out.push(sign_req(v, &s, &big, "sign.oversize"));
    if hash_and_sign_event(&s.entity, &key_pair(&s.seed, &s.version), &mut ev, &r.redaction).is_ok() {
        if let Some(Val::Object(c)) = ev.get_mut("content") {
            c.insert("body".into(), Val::String("y".repeat(65_600)));
        }
        out.push(verify_req(v, "oversize", &keys, &ev, "verify.oversize"));
    }
    // The size limit is on the HASHED part only. (1) A signed event grown by a large `unsigned` (a
    // receiver's `prev_content`), (2) an event whose hashed part is just under the limit so that the
    // added `hashes` + `signatures` push the whole object over it: both still verify as `All`.
    let mut small = to_obj(json!({
        "type": "m.room.message", "sender": "@a:a.example", "event_id": "$e:a.example", "room_id": "!r:a.example",
        "content": {"body": "small", "msgtype": "m.text"}
    }));
    if hash_and_sign_event(&s.entity, &key_pair(&s.seed, &s.version), &mut small, &r.redaction).is_ok() {
        small.insert("unsigned".into(), to_val(json!({"prev_content": {"body": "p".repeat(66_000)}, "age": 1})));
        out.push(verify_req(v, "unsigned-mut", &keys, &small, "verify.unsigned-big"));
    }
    for slack in [0usize, 40, 150] {
        let mut near = to_obj(json!({
            "type": "m.room.message", "sender": "@a:a.example", "event_id": "$e:a.example", "room_id": "!r:a.example",
            "content": {"body": "", "msgtype": "m.text"}
        }));
        let base = hashed_bytes(&near).len();
        if let Some(Val::Object(c)) = near.get_mut("content") {
            c.insert("body".into(), Val::String("z".repeat(65_535 - base - slack)));
        }
        if hash_and_sign_event(&s.entity, &key_pair(&s.seed, &s.version), &mut near, &r.redaction).is_ok() {
            out.push(verify_req(v, "signed", &keys, &near, "verify.near-limit"));
        }
    }
    // A signature under an algorithm the library does not support is ignored, whether or not the key map
    // has an entry for its key id: next to a valid ed25519 signature of the required server the event
    // still verifies as `All`.
    let mut extra = to_obj(json!({
        "type": "m.room.message", "sender": "@a:a.example", "event_id": "$e:a.example", "room_id": "!r:a.example",
        "content": {"body": "small", "msgtype": "m.text"}
    }));
    if hash_and_sign_event(&s.entity, &key_pair(&s.seed, &s.version), &mut extra, &r.redaction).is_ok() {
        if let Some(Val::Object(sigs)) = extra.get_mut("signatures") {
            if let Some(Val::Object(set)) = sigs.get_mut("a.example") {
                set.insert("ed448:f1".into(), Val::String("c2ln".into()));
                set.insert("rsa-sha256:1".into(), Val::String("AAAA".into()));
                set.insert("nocolon".into(), Val::String("AAAA".into()));
            }
        }
        out.push(verify_req(v, "signed", &keys, &extra, "verify.unsupported-algorithm-extra"));
    }
}

fn gen(rng: &mut Rng, n: usize, tier: &str) -> Vec<Req> {
    let mut v = Vec::new();
    for _ in 0..(if tier == "thorough" { 10 } else { 1 }) {
        oversize_cases(rng, &mut v);
    }
    for ver in 1..=11u32 {
        v.push(Req::new(format!("c03.sigrules {ver}"), "sigrules"));
    }
    fixed_servers_cases(&mut v);
    fixed_third_party_invites(&mut v);
    fixed_redaction_cells(rng, &mut v);
    let n = n + v.len();
    while v.len() < n {
        match rng.below(10) {
            0 => gen_servers_case(rng, &mut v, false),
            1 => gen_servers_case(rng, &mut v, true),
            2 => gen_sign_case(rng, &mut v),
            3 => gen_malformed_verify(rng, &mut v),
            _ => gen_verify_family(rng, &mut v),
        }
    }
    v
}

fn main() {
    h_lib::std_main(Some(&extract), &gen, &run);
}
