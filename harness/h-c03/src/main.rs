fn main() {}
