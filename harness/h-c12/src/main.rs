//! C12 — push evaluation picks the first matching enabled rule under spec semantics.
//!
//! Requests (values are token-encoded, `s<hex utf-8>` for strings):
//!   `c12.glob <pattern> <text>`  / `c12.spec.glob …`   whole-value matching        → `t` / `f`
//!   `c12.word <pattern> <text>`  / `c12.spec.word …`   word-boundary matching      → `t` / `f`
//!        word mode is observed twice, as `event_match` on `content.body` (the text is a glob) and as
//!        `contains_display_name` (the text is a literal display name): `t`/`f` both agree,
//!        `e`: only the event match holds, `d`: only the display name is contained
//!   `c12.xglob <pattern> <alphabet> <maxlen>` / `c12.xword …` / `c12.spec.x…`
//!        one answer letter per text of length ≤ maxlen over the alphabet, in the canonical order
//!        (shorter first, then first character most significant in alphabet order)
//!        answered as `ok <letters>`
//!   `c12.count <is> i<members>` / `c12.spec.count …`: the `room_member_count` condition whose `is`
//!        is the given string, in a room of that many members → `t` / `f` / `err` (condition rejected)
//!   `c12.get <event> <path>` / `c12.spec.get …`: `FlattenedJson::from_raw(event).get(path)` →
//!        `none` | `ok <value>` (`n`, `t`/`f`, `i<n>`, `s<hex>`, `a<k> scalars…`, `o0` = empty object)
//!   `c12.mentions <event>` / `c12.spec.mentions …`: `contains_mentions` → `t` / `f`
//!   `c12.cond <condition> <ctx> <event>` / `c12.spec.cond …`: `PushCondition::applies` → `t` / `f`
//!   `c12.match <ruleset> <ctx> <event>` / `c12.spec.match …` → `none` | `ok <kind> <rule id>`
//!        ruleset = `a5` of rule arrays (override, content, room, sender, underride);
//!        conditional rule `a3 <enabled> <id> a<k> cond…`, patterned `a3 <enabled> <id> <pattern>`,
//!        simple `a2 <enabled> <id>`; conditions are `a<n> s<kind> args…`;
//!        ctx = `a5 <room id> i<members> <user id> <display name> (n | a3 o<users> i<default> i<room>)`.
//! The `c12.spec.*` forms are answered by the Lean SPEC, the others by the Lean MODEL.
mod gen;
mod refm;

use std::collections::BTreeMap;

use h_lib::{h_util, Outcome};
use js_int::{Int, UInt};
use ruma_common::{
    power_levels::NotificationPowerLevels,
    push::{
        Action, AnyPushRuleRef, ConditionalPushRule, ConditionalPushRuleInit,
        FlattenedJson, FlattenedJsonValue, PatternedPushRule, PatternedPushRuleInit, PushCondition,
        PushConditionPowerLevelsCtx, PushConditionRoomCtx, Ruleset,
        ScalarJsonValue, SimplePushRule, SimplePushRuleInit, Tweak,
    },
    serde::Raw,
    OwnedRoomId, OwnedUserId, RoomId, UserId,
};
use serde_json::{json, Value};

fn raw(v: &Value) -> Raw<Value> {
    Raw::from_json(serde_json::value::to_raw_value(v).unwrap())
}

fn plain_ctx(display: &str) -> PushConditionRoomCtx {
    PushConditionRoomCtx {
        room_id: OwnedRoomId::try_from("!room:example.org").unwrap(),
        member_count: UInt::from(3u32),
        user_id: OwnedUserId::try_from("@me:example.org").unwrap(),
        user_display_name: display.to_owned(),
        power_levels: None,
    }
}

/// Whole-value mode through the public API: `event_match` on a key other than `content.body`.
pub fn impl_value(p: &str, s: &str) -> bool {
    let ev = FlattenedJson::from_raw(&raw(&json!({ "k": s })));
    PushCondition::EventMatch { key: "k".into(), pattern: p.into() }.applies(&ev, &plain_ctx(""))
}

/// Word mode through the public API: `event_match` on `content.body`, and `contains_display_name`.
pub fn impl_word(p: &str, s: &str) -> (bool, bool) {
    let ev = FlattenedJson::from_raw(&raw(&json!({ "content": { "body": s } })));
    let a = PushCondition::EventMatch { key: "content.body".into(), pattern: p.into() }
        .applies(&ev, &plain_ctx(""));
    let b = PushCondition::ContainsDisplayName.applies(&ev, &plain_ctx(p));
    (a, b)
}

fn word_letter((a, b): (bool, bool)) -> char {
    match (a, b) {
        (true, true) => 't',
        (false, false) => 'f',
        (true, false) => 'e',
        (false, true) => 'd',
    }
}

fn tf(b: bool) -> char {
    if b { 't' } else { 'f' }
}

/// All texts of length ≤ maxlen over the alphabet in the canonical order.
pub fn texts(alphabet: &[char], maxlen: usize) -> Vec<String> {
    let mut out = vec![String::new()];
    let mut level = vec![String::new()];
    for _ in 0..maxlen {
        let mut next = Vec::with_capacity(level.len() * alphabet.len());
        for &c in alphabet {
            for t in &level {
                let mut s = String::with_capacity(t.len() + 4);
                s.push(c);
                s.push_str(t);
                next.push(s);
            }
        }
        out.extend(next.iter().cloned());
        level = next;
    }
    out
}

fn run_single(op: &str, p: &str, s: &str) -> Outcome {
    let mut t3 = vec![];
    let imp = if op.ends_with("glob") {
        let b = impl_value(p, s);
        if b != refm::ref_value(p, s) {
            t3.push(format!("whole-value: pattern {p:?} text {s:?}: implementation says {b}, the glob relation says {}", !b));
        }
        tf(b)
    } else {
        let r = impl_word(p, s);
        let want = refm::ref_word(p, s);
        if r.0 != want {
            t3.push(format!("content.body: pattern {p:?} text {s:?}: implementation says {}, word-boundary glob matching says {want}", r.0));
        }
        let want_dn = refm::ref_contains(p, s);
        if r.1 != want_dn {
            t3.push(format!("display name {p:?} in body {s:?}: contains_display_name says {}, but the body {} the name as literal text between word boundaries", r.1, if want_dn { "contains" } else { "does not contain" }));
        }
        word_letter(r)
    };
    Outcome { imp: imp.to_string(), t3 }
}

fn run_batch(op: &str, p: &str, alphabet: &str, maxlen: usize) -> Outcome {
    let alpha: Vec<char> = alphabet.chars().collect();
    let mut t3 = vec![];
    let mut bad = 0usize;
    let mut out = String::new();
    let value_mode = op.ends_with("glob");
    for s in texts(&alpha, maxlen) {
        if value_mode {
            let b = impl_value(p, &s);
            if b != refm::ref_value(p, &s) {
                bad += 1;
                if t3.len() < 3 {
                    t3.push(format!("whole-value: pattern {p:?} text {s:?}: implementation says {b}, the glob relation says {}", !b));
                }
            }
            out.push(tf(b));
        } else {
            let r = impl_word(p, &s);
            let want = refm::ref_word(p, &s);
            let want_dn = refm::ref_contains(p, &s);
            if r.0 != want || r.1 != want_dn {
                bad += 1;
                if t3.len() < 3 {
                    t3.push(format!("word mode: pattern {p:?} text {s:?}: implementation says content.body={} display-name={}, word-boundary glob matching says {want}, literal containment says {want_dn}", r.0, r.1));
                }
            }
            out.push(word_letter(r));
        }
    }
    if bad > t3.len() {
        t3.push(format!("… {bad} texts of this batch differ in total"));
    }
    // first token `ok` keeps the evidence's input distribution readable (it is keyed by that token)
    Outcome { imp: format!("ok {out}"), t3 }
}

/// `room_member_count` with the `is` string as it arrives in JSON: the condition is deserialized by
/// the real `PushCondition` deserializer (`RoomMemberCountIs::from_str`) and evaluated by
/// `PushCondition::applies` in a room of `n` members. `err` = the condition is rejected.
fn run_count(is: &str, n: u64) -> Outcome {
    let Ok(members) = UInt::try_from(n) else { return Outcome::bad() };
    let cond: Result<PushCondition, _> =
        serde_json::from_value(json!({ "kind": "room_member_count", "is": is }));
    let imp = match cond {
        Err(_) => "err".to_owned(),
        Ok(c) => {
            let mut ctx = plain_ctx("");
            ctx.member_count = members;
            let ev = FlattenedJson::from_raw(&raw(&json!({ "sender": "@you:example.org" })));
            tf(c.applies(&ev, &ctx)).to_string()
        }
    };
    Outcome { imp, t3: vec![] }
}

// ---------------------------------------------------------------------------------------------
// flattened events and single conditions

fn scalar_tok(v: &ScalarJsonValue) -> String {
    match v {
        ScalarJsonValue::Null => "n".into(),
        ScalarJsonValue::Bool(b) => tf(*b).to_string(),
        ScalarJsonValue::Integer(i) => format!("i{i}"),
        ScalarJsonValue::String(s) => h_util::stok(s),
    }
}

fn fval_tok(v: &FlattenedJsonValue) -> String {
    match v {
        FlattenedJsonValue::Null => "n".into(),
        FlattenedJsonValue::Bool(b) => tf(*b).to_string(),
        FlattenedJsonValue::Integer(i) => format!("i{i}"),
        FlattenedJsonValue::String(s) => h_util::stok(s),
        FlattenedJsonValue::Array(a) => {
            let mut out = format!("a{}", a.len());
            for x in a {
                out.push(' ');
                out.push_str(&scalar_tok(x));
            }
            out
        }
        FlattenedJsonValue::EmptyObject => "o0".into(),
    }
}

/// What the property path addresses, written from the spec: the leaf whose keys, escaped and joined
/// with `.`, spell the path; numbers that are not canonical-JSON integers are not properties; an
/// array is its scalar elements.
fn ref_leaf_tok(v: &Value) -> Option<String> {
    fn scalar(v: &Value) -> Option<String> {
        Some(match v {
            Value::Null => "n".into(),
            Value::Bool(b) => tf(*b).to_string(),
            Value::Number(n) => {
                let i = n.as_i64()?;
                if i.unsigned_abs() > (1 << 53) - 1 {
                    return None;
                }
                format!("i{i}")
            }
            Value::String(s) => h_util::stok(s),
            _ => return None,
        })
    }
    match v {
        Value::Array(a) => {
            let xs: Vec<String> = a.iter().filter_map(scalar).collect();
            let mut out = format!("a{}", xs.len());
            for x in xs {
                out.push(' ');
                out.push_str(&x);
            }
            Some(out)
        }
        Value::Object(m) if m.is_empty() => Some("o0".into()),
        Value::Object(_) => None,
        x => scalar(x),
    }
}

/// `FlattenedJson::from_raw(event).get(path)` (and `get_str`, which must agree with it).
fn run_get(ev: &Value, path: &str) -> Outcome {
    let flat = FlattenedJson::from_raw(&raw(ev));
    let got = flat.get(path);
    let imp = match got {
        None => "none".to_owned(),
        Some(v) => format!("ok {}", fval_tok(v)),
    };
    let mut t3 = vec![];
    if flat.get_str(path) != got.and_then(|v| v.as_str()) {
        t3.push(format!("get_str({path:?}) differs from get({path:?}).as_str()"));
    }
    let mut ls = vec![];
    gen::leaves(ev, None, &mut ls);
    let want = ls.iter().rev().find(|(p, _)| p == path).and_then(|(_, v)| ref_leaf_tok(v));
    let want = want.map_or("none".to_owned(), |t| format!("ok {t}"));
    if want != imp {
        t3.push(format!("property path {path:?}: the event has {want}, FlattenedJson::get returns {imp}"));
    }
    Outcome { imp, t3 }
}

/// `FlattenedJson::contains_mentions`.
fn run_mentions(ev: &Value) -> Outcome {
    let flat = FlattenedJson::from_raw(&raw(ev));
    let b = flat.contains_mentions();
    let mut t3 = vec![];
    let mut ls = vec![];
    gen::leaves(ev, None, &mut ls);
    let want = ls.iter().any(|(p, v)| {
        ref_leaf_tok(v).is_some() && (p == "content.m\\.mentions" || p.starts_with("content.m\\.mentions."))
    });
    if want != b {
        t3.push(format!("the event {} a property at or below content.m\\.mentions, contains_mentions says {b}", if want { "has" } else { "has no" }));
    }
    Outcome { imp: tf(b).to_string(), t3 }
}

/// `PushCondition::applies` on its own.
fn run_cond(cond: &PushCondition, ctx: &PushConditionRoomCtx, ev: &Value) -> Outcome {
    let flat = FlattenedJson::from_raw(&raw(ev));
    Outcome::new(tf(cond.applies(&flat, ctx)).to_string())
}

// ---------------------------------------------------------------------------------------------
// rulesets

fn str_of(v: &Value) -> Option<&str> {
    v.as_str()
}

fn scalar_of(v: &Value) -> Option<ScalarJsonValue> {
    Some(match v {
        Value::Null => ScalarJsonValue::Null,
        Value::Bool(b) => ScalarJsonValue::Bool(*b),
        Value::Number(n) => ScalarJsonValue::Integer(Int::try_from(n.as_i64()?).ok()?),
        Value::String(s) => ScalarJsonValue::String(s.clone()),
        _ => return None,
    })
}

/// Conditions are built the way they arrive: deserialized from their JSON form by the real
/// `PushCondition` deserializer (`kind` dispatch, `RoomMemberCountIs::from_str`, `ScalarJsonValue`).
fn cond_of(v: &Value) -> Option<PushCondition> {
    let a = v.as_array()?;
    let j = match (str_of(a.first()?)?, a.len()) {
        ("event_match", 3) => {
            json!({"kind": "event_match", "key": str_of(&a[1])?, "pattern": str_of(&a[2])?})
        }
        ("contains_display_name", 1) => json!({"kind": "contains_display_name"}),
        ("room_member_count", 3) => {
            let op = str_of(&a[1])?;
            if !["==", "<", ">", ">=", "<="].contains(&op) {
                return None;
            }
            let count = UInt::try_from(a[2].as_u64()?).ok()?;
            json!({"kind": "room_member_count", "is": format!("{op}{count}")})
        }
        ("sender_notification_permission", 2) => {
            json!({"kind": "sender_notification_permission", "key": str_of(&a[1])?})
        }
        ("event_property_is", 3) => {
            scalar_of(&a[2])?;
            json!({"kind": "event_property_is", "key": str_of(&a[1])?, "value": a[2]})
        }
        ("event_property_contains", 3) => {
            scalar_of(&a[2])?;
            json!({"kind": "event_property_contains", "key": str_of(&a[1])?, "value": a[2]})
        }
        ("custom", 1) => json!({"kind": "org.example.unknown", "x": 1}),
        _ => return None,
    };
    serde_json::from_value(j).ok()
}

/// Each rule carries its own (kind, id) as a sound tweak so that `get_actions` names the rule too.
fn actions(kind: &str, id: &str) -> Vec<Action> {
    vec![Action::Notify, Action::SetTweak(Tweak::Sound(format!("{kind}/{id}")))]
}

fn conditional_of(kind: &str, v: &Value) -> Option<ConditionalPushRule> {
    let a = v.as_array()?;
    if a.len() != 3 {
        return None;
    }
    let id = str_of(&a[1])?;
    let conditions = a[2].as_array()?.iter().map(cond_of).collect::<Option<Vec<_>>>()?;
    Some(
        ConditionalPushRuleInit {
            actions: actions(kind, id),
            default: id.starts_with('.'),
            enabled: a[0].as_bool()?,
            rule_id: id.to_owned(),
            conditions,
        }
        .into(),
    )
}

fn ruleset_of(v: &Value) -> Option<Ruleset> {
    let a = v.as_array()?;
    if a.len() != 5 {
        return None;
    }
    let mut rs = Ruleset::new();
    for r in a[0].as_array()? {
        if !rs.override_.insert(conditional_of("override", r)?) {
            return None;
        }
    }
    for r in a[1].as_array()? {
        let r = r.as_array()?;
        if r.len() != 3 {
            return None;
        }
        let id = str_of(&r[1])?;
        let rule: PatternedPushRule = PatternedPushRuleInit {
            actions: actions("content", id),
            default: id.starts_with('.'),
            enabled: r[0].as_bool()?,
            rule_id: id.to_owned(),
            pattern: str_of(&r[2])?.to_owned(),
        }
        .into();
        if !rs.content.insert(rule) {
            return None;
        }
    }
    for r in a[2].as_array()? {
        let r = r.as_array()?;
        if r.len() != 2 {
            return None;
        }
        let id = str_of(&r[1])?;
        let rule: SimplePushRule<OwnedRoomId> = SimplePushRuleInit {
            actions: actions("room", id),
            default: false,
            enabled: r[0].as_bool()?,
            rule_id: <&RoomId>::try_from(id).ok()?.to_owned(),
        }
        .into();
        if !rs.room.insert(rule) {
            return None;
        }
    }
    for r in a[3].as_array()? {
        let r = r.as_array()?;
        if r.len() != 2 {
            return None;
        }
        let id = str_of(&r[1])?;
        let rule: SimplePushRule<OwnedUserId> = SimplePushRuleInit {
            actions: actions("sender", id),
            default: false,
            enabled: r[0].as_bool()?,
            rule_id: <&UserId>::try_from(id).ok()?.to_owned(),
        }
        .into();
        if !rs.sender.insert(rule) {
            return None;
        }
    }
    for r in a[4].as_array()? {
        if !rs.underride.insert(conditional_of("underride", r)?) {
            return None;
        }
    }
    Some(rs)
}

fn ctx_of(v: &Value) -> Option<PushConditionRoomCtx> {
    let a = v.as_array()?;
    if a.len() != 5 {
        return None;
    }
    let power_levels = match &a[4] {
        Value::Null => None,
        Value::Array(p) if p.len() == 3 => {
            let mut users = BTreeMap::new();
            for (k, l) in p[0].as_object()? {
                users.insert(
                    <&UserId>::try_from(k.as_str()).ok()?.to_owned(),
                    Int::try_from(l.as_i64()?).ok()?,
                );
            }
            let mut notifications = NotificationPowerLevels::new();
            notifications.room = Int::try_from(p[2].as_i64()?).ok()?;
            Some(PushConditionPowerLevelsCtx {
                users,
                users_default: Int::try_from(p[1].as_i64()?).ok()?,
                notifications,
            })
        }
        _ => return None,
    };
    Some(PushConditionRoomCtx {
        room_id: <&RoomId>::try_from(str_of(&a[0])?).ok()?.to_owned(),
        member_count: UInt::try_from(a[1].as_u64()?).ok()?,
        user_id: <&UserId>::try_from(str_of(&a[2])?).ok()?.to_owned(),
        user_display_name: str_of(&a[3])?.to_owned(),
        power_levels,
    })
}

fn kind_of(r: &AnyPushRuleRef<'_>) -> &'static str {
    match r {
        AnyPushRuleRef::Override(_) => "override",
        AnyPushRuleRef::Content(_) => "content",
        AnyPushRuleRef::Room(_) => "room",
        AnyPushRuleRef::Sender(_) => "sender",
        AnyPushRuleRef::Underride(_) => "underride",
        _ => "?",
    }
}

fn kind_rank(k: &str) -> usize {
    ["override", "content", "room", "sender", "underride"].iter().position(|x| *x == k).unwrap_or(9)
}

fn run_match(rs: &Ruleset, ctx: &PushConditionRoomCtx, ev: &Value) -> Outcome {
    let mut t3 = vec![];
    let raw_ev = raw(ev);
    let got = rs.get_match(&raw_ev, ctx);
    let flat = FlattenedJson::from_raw(&raw_ev);
    let self_sent = ev.get("sender").and_then(Value::as_str) == Some(ctx.user_id.as_str());

    // T3: direct statements of the property on the implementation
    let all: Vec<AnyPushRuleRef<'_>> = rs.iter().collect();
    let ranks: Vec<usize> = all.iter().map(|r| kind_rank(kind_of(r))).collect();
    if ranks.windows(2).any(|w| w[0] > w[1]) {
        t3.push("Ruleset::iter does not yield override, content, room, sender, underride in this order".into());
    }
    let n_rules = rs.override_.len() + rs.content.len() + rs.room.len() + rs.sender.len() + rs.underride.len();
    if all.len() != n_rules {
        t3.push("Ruleset::iter does not yield every rule exactly once".into());
    }
    match &got {
        Some(r) => {
            if self_sent {
                t3.push(format!("event sent by the user themselves matched rule {}", r.rule_id()));
            }
            if !r.enabled() {
                t3.push(format!("disabled rule {} matched", r.rule_id()));
            }
            if !r.applies(&flat, ctx) {
                t3.push(format!("matched rule {} does not apply", r.rule_id()));
            }
            // nothing earlier in kind-then-list order is enabled and applies
            for e in &all {
                if kind_of(e) == kind_of(r) && e.rule_id() == r.rule_id() {
                    break;
                }
                if e.enabled() && e.applies(&flat, ctx) {
                    t3.push(format!("rule {}/{} comes earlier, is enabled and applies, but {}/{} was returned",
                        kind_of(e), e.rule_id(), kind_of(r), r.rule_id()));
                    break;
                }
            }
        }
        None => {
            if !self_sent {
                if let Some(e) = all.iter().find(|e| e.enabled() && e.applies(&flat, ctx)) {
                    t3.push(format!("rule {}/{} is enabled and applies but nothing matched", kind_of(e), e.rule_id()));
                }
            }
        }
    }
    // the owning iterator yields the same rules in the same order, and owned rules apply alike
    let owned: Vec<_> = rs.clone().into_iter().collect();
    let same_seq = owned.len() == all.len()
        && owned.iter().zip(&all).all(|(o, r)| kind_of(&o.as_ref()) == kind_of(r) && o.rule_id() == r.rule_id());
    if !same_seq {
        t3.push("Ruleset::into_iter and Ruleset::iter yield different rule sequences".into());
    }
    if let Some(o) = owned.iter().zip(&all).find(|(o, r)| o.applies(&flat, ctx) != r.applies(&flat, ctx)) {
        t3.push(format!("AnyPushRule::applies and AnyPushRuleRef::applies differ on rule {}", o.0.rule_id()));
    }
    // get_actions names the same rule
    let acts = rs.get_actions(&raw_ev, ctx);
    let sound = acts.iter().find_map(|a| a.sound()).map(str::to_owned);
    let want_sound = got.as_ref().map(|r| format!("{}/{}", kind_of(r), r.rule_id()));
    if sound != want_sound || (got.is_none() && !acts.is_empty()) {
        t3.push(format!("get_actions ({sound:?}) and get_match ({want_sound:?}) name different rules"));
    }
    let imp = match &got {
        None => "none".to_owned(),
        Some(r) => format!("ok {} {}", kind_of(r), h_util::stok(r.rule_id())),
    };
    Outcome { imp, t3 }
}

fn unhex_tok(t: &str) -> Option<String> {
    h_util::unhex_str(t.strip_prefix('s')?)
}

/// `run` is a pure function of the request line, and every `c12.spec.*` line is followed or preceded
/// by its model twin with the same payload: remember the last payload instead of running the
/// implementation twice.
fn payload_key(req: &str) -> String {
    req.replacen("c12.spec.", "c12.", 1)
}

fn run_cached(req: &str) -> Outcome {
    use std::cell::RefCell;
    thread_local! {
        static LAST: RefCell<Option<(String, String, Vec<String>)>> = const { RefCell::new(None) };
    }
    let key = payload_key(req);
    if let Some(hit) = LAST.with(|l| {
        l.borrow().as_ref().filter(|(k, _, _)| *k == key).map(|(_, imp, t3)| (imp.clone(), t3.clone()))
    }) {
        return Outcome { imp: hit.0, t3: hit.1 };
    }
    let out = run_uncached(req);
    if out.imp != "bad-op" {
        LAST.with(|l| *l.borrow_mut() = Some((key, out.imp.clone(), out.t3.clone())));
    }
    out
}

/// The implementation runs on a worker thread so that a request on which it does not return (the
/// word scanner restarts itself; a restart that makes no progress is a hang, not a panic) becomes an
/// observable outcome instead of a check that times out: answer `panic` plus an oracle failure.
/// The stuck worker is abandoned and a fresh one started; after `MAX_HANGS` hangs the remaining
/// requests are answered `hang-skipped` (each hang costs `HANG_SECS` and a spinning thread).
const HANG_SECS: u64 = 5;
const MAX_HANGS: usize = 4;

struct Worker {
    tx: std::sync::mpsc::Sender<String>,
    rx: std::sync::mpsc::Receiver<Result<(String, Vec<String>), ()>>,
}

fn spawn_worker() -> Worker {
    let (tx, wrx) = std::sync::mpsc::channel::<String>();
    let (wtx, rx) = std::sync::mpsc::channel();
    std::thread::Builder::new()
        .stack_size(256 << 20)
        .spawn(move || {
            for req in wrx {
                let o = h_util::guarded(|| run_cached(&req)).map(|o| (o.imp, o.t3));
                if wtx.send(o).is_err() {
                    break;
                }
            }
        })
        .expect("worker thread");
    Worker { tx, rx }
}

pub fn run(req: &str) -> Outcome {
    use std::cell::{Cell, RefCell};
    thread_local! {
        static WORKER: RefCell<Option<Worker>> = const { RefCell::new(None) };
        static HANGS: Cell<usize> = const { Cell::new(0) };
    }
    if HANGS.with(Cell::get) >= MAX_HANGS {
        return Outcome::new("hang-skipped");
    }
    let res = WORKER.with(|w| {
        let mut w = w.borrow_mut();
        let worker = w.get_or_insert_with(spawn_worker);
        worker.tx.send(req.to_owned()).expect("worker alive");
        let r = worker.rx.recv_timeout(std::time::Duration::from_secs(HANG_SECS));
        if r.is_err() {
            *w = None; // abandon the stuck thread
        }
        r
    });
    match res {
        Ok(Ok((imp, t3))) => Outcome { imp, t3 },
        Ok(Err(())) => panic!("implementation panicked"),
        Err(_) => {
            HANGS.with(|h| h.set(h.get() + 1));
            Outcome {
                imp: "panic".into(),
                t3: vec![format!("the implementation did not return within {HANG_SECS} s on this request (hang)")],
            }
        }
    }
}

fn run_uncached(req: &str) -> Outcome {
    let toks: Vec<&str> = req.split(' ').collect();
    let op = toks[0];
    match op {
        "c12.glob" | "c12.spec.glob" | "c12.word" | "c12.spec.word" if toks.len() == 3 => {
            let (Some(p), Some(s)) = (unhex_tok(toks[1]), unhex_tok(toks[2])) else {
                return Outcome::bad();
            };
            run_single(op, &p, &s)
        }
        "c12.xglob" | "c12.spec.xglob" | "c12.xword" | "c12.spec.xword" if toks.len() == 4 => {
            let (Some(p), Some(al), Ok(n)) =
                (unhex_tok(toks[1]), unhex_tok(toks[2]), toks[3].parse::<usize>())
            else {
                return Outcome::bad();
            };
            if n > 6 || al.chars().count() > 12 {
                return Outcome::bad();
            }
            run_batch(op, &p, &al, n)
        }
        "c12.count" | "c12.spec.count" if toks.len() == 3 => {
            let (Some(is), Some(n)) =
                (unhex_tok(toks[1]), toks[2].strip_prefix('i').and_then(|x| x.parse::<u64>().ok()))
            else {
                return Outcome::bad();
            };
            run_count(&is, n)
        }
        "c12.get" | "c12.spec.get" => {
            let mut it = toks[1..].iter();
            let (Some(ev), Some(path)) = (h_util::parse_tokens(&mut it), it.next().and_then(|t| unhex_tok(t)))
            else {
                return Outcome::bad();
            };
            if it.next().is_some() || !ev.is_object() {
                return Outcome::bad();
            }
            run_get(&ev, &path)
        }
        "c12.mentions" | "c12.spec.mentions" => {
            let mut it = toks[1..].iter();
            let Some(ev) = h_util::parse_tokens(&mut it) else { return Outcome::bad() };
            if it.next().is_some() || !ev.is_object() {
                return Outcome::bad();
            }
            run_mentions(&ev)
        }
        "c12.cond" | "c12.spec.cond" => {
            let mut it = toks[1..].iter();
            let (Some(c), Some(ctx), Some(ev)) =
                (h_util::parse_tokens(&mut it), h_util::parse_tokens(&mut it), h_util::parse_tokens(&mut it))
            else {
                return Outcome::bad();
            };
            if it.next().is_some() {
                return Outcome::bad();
            }
            let (Some(c), Some(ctx)) = (cond_of(&c), ctx_of(&ctx)) else {
                return Outcome::bad();
            };
            run_cond(&c, &ctx, &ev)
        }
        "c12.match" | "c12.spec.match" => {
            let mut it = toks[1..].iter();
            let (Some(rs), Some(ctx), Some(ev)) =
                (h_util::parse_tokens(&mut it), h_util::parse_tokens(&mut it), h_util::parse_tokens(&mut it))
            else {
                return Outcome::bad();
            };
            if it.next().is_some() {
                return Outcome::bad();
            }
            let (Some(rs), Some(ctx)) = (ruleset_of(&rs), ctx_of(&ctx)) else {
                return Outcome::bad();
            };
            run_match(&rs, &ctx, &ev)
        }
        _ => Outcome::bad(),
    }
}

fn main() {
    h_lib::std_main(None, &gen::gen, &run);
}
