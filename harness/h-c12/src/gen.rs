//! Generators for C12. Every random choice comes from the given `Rng`.
use h_lib::{h_util, stok, Req, Rng};
use serde_json::{json, Map, Value};

use crate::refm;

/// Alphabet of the exhaustive pattern enumeration, and the same without the two wildcards for texts.
pub const PAT_ALPHA: &[char] = &['a', 'B', '_', ' ', '.', '\n', 'é', '*', '?'];
pub const TXT_ALPHA: &[char] = &['a', 'B', '_', ' ', '.', '\n', 'é'];
pub const PAT_MAX: usize = 3;
pub const TXT_MAX: usize = 4;

/// Characters of the random long patterns / bodies / JSON strings. `refm::check_pool` asserts that
/// Rust lower-cases each of them like the table the Lean driver uses.
pub const POOL: &[char] = &[
    'a', 'b', 'c', 'x', 'y', 'z', 'A', 'B', 'X', '0', '1', '9', '_', ' ', ' ', '.', ',', '!', '-',
    '\'', '"', '(', ')', '[', ']', '{', '}', '+', '^', '$', '|', '\\', '/', '\n', '\t', 'é', 'É',
    'ß', 'ω', 'Ω', 'ж', 'Ж', '日', '⚡', '\u{fe0f}', '👩', '\u{200d}', '\u{301}', '\u{a0}', '@',
    ':', '#',
];
const WORDISH: &[char] = &['a', 'b', 'c', 'x', 'A', 'B', '0', '1', '_'];
const SEPS: &[&str] = &[" ", " ", ".", ", ", "\n", "!", "-", "é", "日", "", "", "\t", "  ", "⚡\u{fe0f}"];

fn all_patterns(maxlen: usize) -> Vec<String> {
    crate::texts(PAT_ALPHA, maxlen)
}

fn batch_lines(out: &mut Vec<Req>, p: &str, cls: &str) {
    let al: String = TXT_ALPHA.iter().collect();
    for op in ["c12.xglob", "c12.spec.xglob", "c12.xword", "c12.spec.xword"] {
        out.push(Req::new(format!("{op} {} {} {TXT_MAX}", stok(p), stok(&al)), format!("{cls}.{}", &op[4..])));
    }
}

fn pair_lines(out: &mut Vec<Req>, p: &str, s: &str, cls: &str) {
    for op in ["c12.glob", "c12.spec.glob", "c12.word", "c12.spec.word"] {
        out.push(Req::new(format!("{op} {} {}", stok(p), stok(s)), format!("{cls}.{}", &op[4..])));
    }
}

fn rand_str(rng: &mut Rng, pool: &[char], max: usize) -> String {
    let n = rng.below(max + 1);
    (0..n).map(|_| *rng.pick(pool)).collect()
}

fn flip_case(rng: &mut Rng, s: &str) -> String {
    s.chars()
        .map(|c| {
            if rng.chance(1, 3) {
                let up: Vec<char> = c.to_uppercase().collect();
                // only flip when the round trip is the simple one the lower-casing table knows
                if up.len() == 1 && refm::lower_char(up[0]) == refm::lower_char(c) && up[0] != 'Σ' {
                    let l: Vec<char> = up[0].to_lowercase().collect();
                    if l == vec![refm::lower_char(up[0])] {
                        return up[0];
                    }
                }
            }
            c
        })
        .collect()
}

/// A body made of several occurrences of `hit` (a text the pattern is meant to match), each with or
/// without word characters glued to its sides — repeated partial matches and failed boundaries.
fn embed(rng: &mut Rng, hit: &str) -> String {
    let mut body = String::new();
    let pieces = 1 + rng.below(4);
    for i in 0..pieces {
        if i > 0 || rng.chance(1, 2) {
            body.push_str(*rng.pick(SEPS));
        }
        if rng.chance(1, 4) {
            body.push_str(&rand_str(rng, POOL, 3));
            continue;
        }
        if rng.chance(1, 2) {
            body.push(*rng.pick(WORDISH));
        }
        let h = flip_case(rng, hit);
        if rng.chance(1, 6) && !h.is_empty() {
            // near miss: drop one character
            let cs: Vec<char> = h.chars().collect();
            let k = rng.below(cs.len());
            body.extend(cs.iter().enumerate().filter(|(i, _)| *i != k).map(|(_, c)| *c));
        } else {
            body.push_str(&h);
        }
        if rng.chance(1, 2) {
            body.push(*rng.pick(WORDISH));
        }
    }
    if rng.chance(1, 3) {
        body.push_str(*rng.pick(SEPS));
    }
    body
}

fn literal_word(rng: &mut Rng) -> String {
    match rng.below(6) {
        0 => rand_str(rng, POOL, 4),
        1 => {
            // words with inner separators: "foo bar", "a.b"
            let a = rand_str(rng, WORDISH, 2);
            let b = rand_str(rng, WORDISH, 2);
            format!("{a}{}{b}", rng.pick(SEPS))
        }
        2 => {
            // starts or ends with a non-word character
            let w = rand_str(rng, WORDISH, 3);
            if rng.chance(1, 2) { format!("{}{w}", rng.pick(SEPS)) } else { format!("{w}{}", rng.pick(SEPS)) }
        }
        _ => {
            let n = 1 + rng.below(4);
            (0..n).map(|_| *rng.pick(WORDISH)).collect()
        }
    }
}

const WILD_RUNS: &[&str] = &["*", "?", "*", "?", "**", "?*", "*?", "??", "?*?", "***"];

/// A wildcard pattern and one text it matches as a whole.
fn wildcard_pattern(rng: &mut Rng) -> (String, String) {
    let mut p = String::new();
    let mut hit = String::new();
    let segs = 1 + rng.below(3);
    let lead = rng.chance(1, 3);
    for i in 0..segs {
        if i > 0 || lead {
            let run = *rng.pick(WILD_RUNS);
            p.push_str(run);
            for c in run.chars() {
                if c == '?' {
                    hit.push(*rng.pick(POOL));
                } else {
                    hit.push_str(&rand_str(rng, POOL, 3));
                }
            }
        }
        let lit = literal_word(rng);
        let lit: String = lit.chars().filter(|c| *c != '*' && *c != '?').collect();
        p.push_str(&lit);
        hit.push_str(&lit);
    }
    if rng.chance(1, 3) || !p.contains(['*', '?']) {
        let run = *rng.pick(WILD_RUNS);
        p.push_str(run);
        for c in run.chars() {
            if c == '?' {
                hit.push(*rng.pick(POOL));
            } else {
                hit.push_str(&rand_str(rng, POOL, 3));
            }
        }
    }
    (p, hit)
}

/// A display-name-like text with `*` / `?` in it, and a body in which it occurs literally (with or
/// without word characters glued on, near misses, other case).
fn wild_literal(rng: &mut Rng) -> (String, String) {
    let mut w = String::new();
    let n = 1 + rng.below(4);
    for _ in 0..n {
        match rng.below(5) {
            0 => w.push('*'),
            1 => w.push('?'),
            2 => w.push_str(*rng.pick(SEPS)),
            _ => w.push(*rng.pick(WORDISH)),
        }
    }
    if !w.contains(['*', '?']) {
        w.push(*rng.pick(&['*', '?']));
    }
    let body = embed(rng, &w);
    (w, body)
}

pub fn long_pair(rng: &mut Rng) -> (String, String, &'static str) {
    if rng.chance(1, 6) {
        let (w, body) = wild_literal(rng);
        return (flip_case(rng, &w), body, "long.wildliteral");
    }
    match rng.below(5) {
        0 | 1 => {
            let w = literal_word(rng);
            let w: String = w.chars().filter(|c| *c != '*' && *c != '?').collect();
            let body = embed(rng, &w);
            (flip_case(rng, &w), body, "long.literal")
        }
        2 | 3 => {
            let (p, hit) = wildcard_pattern(rng);
            let body = if rng.chance(1, 4) { hit } else { embed(rng, &hit) };
            (flip_case(rng, &p), body, "long.wildcard")
        }
        _ => {
            let al = ['a', 'b', ' ', '*', '?', 'a', '\n'];
            let p = rand_str(rng, &al, 6);
            let s = rand_str(rng, &['a', 'b', ' ', 'a', 'b', '\n', '.'], 12);
            (p, s, "long.dense")
        }
    }
}

// ---------------------------------------------------------------------------------------------
// `room_member_count` strings

const COUNT_PREFIX: &[&str] =
    &["", "", "==", "<", ">", ">=", "<=", "=", "=<", "=>", "<<", "!=", " ", "== ", "<==", ">>="];
const COUNT_SIGN: &[&str] = &["", "", "", "", "", "+", "-", " ", "++", "+-"];
const COUNT_DIGITS: &[&str] = &[
    "", "0", "1", "2", "3", "4", "10", "007", "00", "9007199254740991", "9007199254740992",
    "18446744073709551615", "18446744073709551616", "99999999999999999999999", "3a", "٣", "３", "3 ",
    "1_0", "0x3", "1e3", "3.0", "2+", "2-1", "²",
];
const COUNT_MEMBERS: &[u64] = &[0, 1, 2, 3, 4, 9, 10, 11, 9007199254740990, 9007199254740991];

pub fn count_lines(out: &mut Vec<Req>, is: &str, n: u64, cls: &str) {
    for op in ["c12.count", "c12.spec.count"] {
        out.push(Req::new(format!("{op} {} i{n}", stok(is)), format!("{cls}.{}", &op[4..])));
    }
}

fn gen_count(rng: &mut Rng, out: &mut Vec<Req>) {
    // two thirds well-formed (one of the six spellings, plain digits), one third from the full pools
    let is = if rng.chance(2, 3) {
        let d = *rng.pick(&["0", "1", "2", "3", "4", "10", "007", "9007199254740991"]);
        format!("{}{d}", rng.pick(&["", "==", "<", ">", ">=", "<="]))
    } else {
        format!("{}{}{}", rng.pick(COUNT_PREFIX), rng.pick(COUNT_SIGN), rng.pick(COUNT_DIGITS))
    };
    let n = if rng.chance(1, 2) {
        // next to the number in the string, where the five comparisons differ
        let d: u64 = is.trim_start_matches(['<', '>', '=', '+']).parse().unwrap_or(3);
        (d.saturating_add(rng.below(3) as u64).saturating_sub(1)).min(9007199254740991)
    } else {
        *rng.pick(COUNT_MEMBERS)
    };
    count_lines(out, &is, n, "count");
}

// ---------------------------------------------------------------------------------------------
// rulesets × contexts × events

const USERS: &[&str] = &[
    "@alice:example.org",
    "@bob:example.org",
    "@me:example.org",
    "@Alice:example.org",
    "@a*:example.org",
    "@?ob:example.org",
];
const BAD_SENDERS: &[&str] = &["alice", "", "@nocolon", "!room:example.org", "bob:example.org"];
const ROOMS: &[&str] =
    &["!room:example.org", "!Room:example.org", "!ro*:example.org", "!other:example.org", "!r?om:example.org"];
const RULE_IDS: &[&str] = &[
    ".m.rule.master",
    ".m.rule.roomnotif",
    ".m.rule.contains_display_name",
    ".m.rule.contains_user_name",
    "r1",
    "r2",
    "r3",
    "x.y",
    "Words",
];
const KEYS: &[&str] = &["k", "a.b", "c\\d", "", "m.mentions", "x", "e\\.f", ".", "\\", "ü"];
const BODIES: &[&str] = &[
    "hello me, how are you",
    "Lunch plans with Alice",
    "a\nb",
    "me",
    "@room please look",
    "foobar foo",
    "x.y is *here*",
    "",
    "ÉCOLE é",
];
const LEVELS: &[i64] = &[0, 50, 100, -1, 49, 51];

fn gen_leaf(rng: &mut Rng) -> Value {
    match rng.below(12) {
        0 => Value::Null,
        1 => Value::Bool(rng.chance(1, 2)),
        2 => json!(rng.range(-3, 3)),
        3 => json!(*rng.pick(&[9007199254740991i64, 9007199254740992, -9007199254740991, -9007199254740992, i64::MAX])),
        4 => json!(u64::MAX),
        5 => json!(0.5),
        6 => json!({}),
        7 => {
            let n = rng.below(4);
            Value::Array(
                (0..n)
                    .map(|_| match rng.below(7) {
                        0 => json!([1]),
                        1 => json!({"k": 1}),
                        2 => json!(0.5),
                        3 => json!(9007199254740992i64),
                        _ => gen_scalar(rng),
                    })
                    .collect(),
            )
        }
        _ => Value::String(if rng.chance(1, 2) { (*rng.pick(BODIES)).to_owned() } else { rand_str(rng, POOL, 5) }),
    }
}

fn gen_scalar(rng: &mut Rng) -> Value {
    match rng.below(5) {
        0 => Value::Null,
        1 => Value::Bool(rng.chance(1, 2)),
        2 => json!(rng.range(-3, 3)),
        3 => Value::String((*rng.pick(&["a", "1", "true", "@me:example.org", ""])).to_owned()),
        _ => Value::String(rand_str(rng, POOL, 3)),
    }
}

fn gen_obj(rng: &mut Rng, depth: u32) -> Value {
    let mut m = Map::new();
    let n = rng.below(4);
    for _ in 0..n {
        let k = (*rng.pick(KEYS)).to_owned();
        let v = if depth > 0 && rng.chance(1, 3) { gen_obj(rng, depth - 1) } else { gen_leaf(rng) };
        m.insert(k, v);
    }
    Value::Object(m)
}

fn gen_event(rng: &mut Rng, me: &str) -> Value {
    let mut ev = match gen_obj(rng, 2) {
        Value::Object(m) => m,
        _ => unreachable!(),
    };
    match rng.below(12) {
        0 => {}
        1 => {
            ev.insert("sender".into(), json!(5));
        }
        2 | 3 => {
            ev.insert("sender".into(), json!(me));
        }
        4 => {
            ev.insert("sender".into(), json!(*rng.pick(BAD_SENDERS)));
        }
        _ => {
            ev.insert("sender".into(), json!(*rng.pick(USERS)));
        }
    }
    if !rng.chance(1, 8) {
        ev.insert("type".into(), json!(*rng.pick(&["m.room.message", "m.room.member", "M.Room.Message"])));
    }
    if rng.chance(1, 4) {
        ev.insert("room_id".into(), json!(*rng.pick(ROOMS)));
    }
    // properties whose path merely ends in (or, unescaped, looks like) one of the special keys
    if rng.chance(1, 5) {
        let b = if rng.chance(1, 2) { (*rng.pick(BODIES)).to_owned() } else { long_pair(rng).1 };
        ev.insert(
            (*rng.pick(&["x", "unsigned", "k"])).into(),
            json!({"content": {"body": b}, "room_id": *rng.pick(ROOMS), "sender": *rng.pick(USERS)}),
        );
    }
    if rng.chance(1, 8) {
        ev.insert("content.body".into(), json!(*rng.pick(BODIES)));
    }
    if !rng.chance(1, 8) {
        let mut c = match gen_obj(rng, 1) {
            Value::Object(m) => m,
            _ => unreachable!(),
        };
        match rng.below(8) {
            0 => {}
            1 => {
                c.insert("body".into(), gen_leaf(rng));
            }
            _ => {
                let b = if rng.chance(1, 2) { (*rng.pick(BODIES)).to_owned() } else { long_pair(rng).1 };
                c.insert("body".into(), json!(b));
            }
        }
        match rng.below(11) {
            0 => {
                c.insert("m.mentions".into(), json!({}));
            }
            1 => {
                c.insert("m.mentions".into(), json!({"user_ids": [me], "room": true}));
            }
            2 => {
                c.insert("m.mentions".into(), json!(true));
            }
            // near misses: keys whose escaped path merely starts with `content.m\.mentions`
            3 => {
                c.insert("m.mentionsx".into(), json!(true));
            }
            4 => {
                c.insert("m.mentions.x".into(), json!({"user_ids": [me]}));
            }
            5 => {
                c.insert("m".into(), json!({"mentions": {"room": true}}));
            }
            _ => {}
        }
        ev.insert("content".into(), Value::Object(c));
    }
    Value::Object(ev)
}

pub fn escape_key(k: &str) -> String {
    k.replace('\\', "\\\\").replace('.', "\\.")
}

/// The leaves of the event with their escaped dot-paths (written from the spec: keys joined with
/// `.`, dots and backslashes inside keys escaped with a backslash).
pub fn leaves(v: &Value, path: Option<String>, out: &mut Vec<(String, Value)>) {
    match v {
        Value::Object(m) if !m.is_empty() => {
            for (k, x) in m {
                let k = escape_key(k);
                let p = match &path {
                    None => k,
                    Some(p) => format!("{p}.{k}"),
                };
                leaves(x, Some(p), out);
            }
        }
        x => out.push((path.unwrap_or_default(), x.clone())),
    }
}

fn mutate_pattern(rng: &mut Rng, s: &str) -> String {
    let cs: Vec<char> = s.chars().collect();
    match rng.below(9) {
        0 | 1 => s.to_owned(),
        2 => flip_case(rng, s),
        3 => {
            let k = rng.below(cs.len() + 1);
            format!("{}*", cs[..k].iter().collect::<String>())
        }
        4 if !cs.is_empty() => {
            let k = rng.below(cs.len());
            cs.iter().enumerate().map(|(i, c)| if i == k { '?' } else { *c }).collect()
        }
        5 if !cs.is_empty() => {
            // a word of it (matches in word mode only)
            let words: Vec<&str> = s.split(|c: char| !refm::is_word(c)).filter(|w| !w.is_empty()).collect();
            if words.is_empty() { s.to_owned() } else { (*rng.pick(&words)).to_owned() }
        }
        6 => "*".to_owned(),
        7 => {
            let k = rng.below(cs.len() + 1);
            format!("*{}", cs[k..].iter().collect::<String>())
        }
        _ => rand_str(rng, POOL, 3),
    }
}

fn gen_cond(rng: &mut Rng, flat: &[(String, Value)], members: u64) -> Value {
    let any_key = |rng: &mut Rng| -> String {
        if !flat.is_empty() && !rng.chance(1, 6) {
            rng.pick(flat).0.clone()
        } else {
            (*rng.pick(&["content.body", "room_id", "sender", "type", "nope", "content", "", "k", "a.b", "a\\.b"])).to_owned()
        }
    };
    match rng.below(11) {
        0 | 1 | 2 | 3 => {
            let strs: Vec<&(String, Value)> = flat.iter().filter(|(_, v)| v.is_string()).collect();
            let (key, val) = if !strs.is_empty() && !rng.chance(1, 5) {
                let (k, v) = *rng.pick(&strs);
                (k.clone(), v.as_str().unwrap().to_owned())
            } else if rng.chance(1, 2) {
                ("room_id".to_owned(), (*rng.pick(ROOMS)).to_owned())
            } else {
                (any_key(rng), "x".to_owned())
            };
            json!(["event_match", key, mutate_pattern(rng, &val)])
        }
        4 => json!(["contains_display_name"]),
        5 | 6 => {
            let op = *rng.pick(&["==", "<", ">", ">=", "<="]);
            let c = match rng.below(5) {
                0 => members.saturating_sub(1),
                1 | 2 => members,
                3 => members + 1,
                _ => 2,
            };
            json!(["room_member_count", op, c])
        }
        7 => json!(["sender_notification_permission", *rng.pick(&["room", "room", "room", "other", ""])]),
        8 => {
            let key = any_key(rng);
            let val = match flat.iter().find(|(k, _)| *k == key) {
                Some((_, v)) if !v.is_array() && !v.is_object() && !v.is_f64() && v.as_u64().map_or(true, |u| u <= 1 << 53) && !rng.chance(1, 4) => {
                    match (v.as_i64(), v.as_str()) {
                        (Some(i), _) if i.unsigned_abs() >= 1 << 53 => gen_scalar(rng),
                        // exact value match is case sensitive
                        (_, Some(t)) if rng.chance(1, 3) => json!(flip_case(rng, t)),
                        _ => v.clone(),
                    }
                }
                _ => gen_scalar(rng),
            };
            json!(["event_property_is", key, val])
        }
        9 => {
            let arrs: Vec<&(String, Value)> = flat.iter().filter(|(_, v)| v.is_array()).collect();
            if !arrs.is_empty() && !rng.chance(1, 5) {
                let (k, v) = *rng.pick(&arrs);
                let a = v.as_array().unwrap();
                let el = if !a.is_empty() && !rng.chance(1, 3) {
                    let e = rng.pick(a).clone();
                    let in_range = e.as_i64().map_or(!e.is_number(), |i| i.unsigned_abs() < 1 << 53);
                    if e.is_array() || e.is_object() || !in_range { gen_scalar(rng) } else { e }
                } else {
                    gen_scalar(rng)
                };
                json!(["event_property_contains", k, el])
            } else {
                json!(["event_property_contains", any_key(rng), gen_scalar(rng)])
            }
        }
        _ => json!(["custom"]),
    }
}

fn pick_ids(rng: &mut Rng, pool: &[&str], max: usize) -> Vec<String> {
    let mut ids: Vec<String> = pool.iter().map(|s| (*s).to_owned()).collect();
    rng.shuffle(&mut ids);
    ids.truncate(rng.below(max + 1));
    ids
}

pub fn gen_match(rng: &mut Rng, extra: &mut Vec<Req>) -> (String, String) {
    let me = if rng.chance(1, 4) { "@alice:example.org" } else { "@me:example.org" };
    let ev = gen_event(rng, me);
    let mut flat = vec![];
    leaves(&ev, None, &mut flat);
    let members = *rng.pick(&[0u64, 1, 2, 2, 3, 10]);
    let body = ev.pointer("/content/body").and_then(Value::as_str).unwrap_or("");
    let display = match rng.below(6) {
        0 => String::new(),
        1 => "me".to_owned(),
        2 => "M*".to_owned(),
        3 | 4 => {
            let words: Vec<&str> = body.split(|c: char| !refm::is_word(c)).filter(|w| !w.is_empty()).collect();
            if words.is_empty() {
                "Alice".to_owned()
            } else {
                let w = *rng.pick(&words);
                flip_case(rng, w)
            }
        }
        _ => rand_str(rng, POOL, 3),
    };
    let pl = if rng.chance(1, 4) {
        Value::Null
    } else {
        let mut users = Map::new();
        for u in USERS {
            if rng.chance(1, 3) {
                users.insert((*u).to_owned(), json!(*rng.pick(LEVELS)));
            }
        }
        json!([Value::Object(users), *rng.pick(&[0, 50, 0, 100]), *rng.pick(&[50, 0, 100, 51, 50])])
    };
    let ctx = json!([*rng.pick(ROOMS), members, me, display, pl]);

    let conditional = |rng: &mut Rng, max: usize| -> Value {
        Value::Array(
            pick_ids(rng, RULE_IDS, max)
                .into_iter()
                .map(|id| {
                    let n = *rng.pick(&[0usize, 1, 1, 1, 2, 3]);
                    let conds: Vec<Value> = (0..n).map(|_| gen_cond(rng, &flat, members)).collect();
                    json!([!rng.chance(1, 4), id, conds])
                })
                .collect(),
        )
    };
    let override_ = conditional(rng, 3);
    let content = Value::Array(
        pick_ids(rng, RULE_IDS, 3)
            .into_iter()
            .map(|id| {
                let pat = if rng.chance(1, 5) { rand_str(rng, POOL, 3) } else { mutate_pattern(rng, body) };
                json!([!rng.chance(1, 4), id, pat])
            })
            .collect(),
    );
    let room = Value::Array(
        pick_ids(rng, ROOMS, 2).into_iter().map(|id| json!([!rng.chance(1, 4), id])).collect(),
    );
    let sender = Value::Array(
        pick_ids(rng, USERS, 2).into_iter().map(|id| json!([!rng.chance(1, 4), id])).collect(),
    );
    let underride = conditional(rng, 3);
    let rs = json!([override_, content, room, sender, underride]);
    let payload = format!("{} {} {}", h_util::jtoks(&rs), h_util::jtoks(&ctx), h_util::jtoks(&ev));
    let cls = format!("match.{}", ev.get("sender").map_or("nosender", |s| if s == me { "self" } else { "other" }));
    // the parts on their own: every condition of the conditional rules, property lookups (real paths,
    // near misses of real paths), contains_mentions
    if rng.chance(1, 2) {
        let evt = h_util::jtoks(&ev);
        let ctxt = h_util::jtoks(&ctx);
        let mut conds: Vec<&Value> = vec![];
        for rules in [&override_, &underride] {
            for r in rules.as_array().unwrap() {
                conds.extend(r[2].as_array().unwrap());
            }
        }
        for c in conds.into_iter().take(4) {
            for op in ["c12.cond", "c12.spec.cond"] {
                extra.push(Req::new(format!("{op} {} {ctxt} {evt}", h_util::jtoks(c)), format!("cond.{}", &op[4..])));
            }
        }
        let mut paths: Vec<String> = vec![];
        for _ in 0..3 {
            if !flat.is_empty() {
                let p = rng.pick(&flat).0.clone();
                paths.push(match rng.below(6) {
                    0 => p.replace("\\.", "."),
                    1 => p.replace("\\\\", "\\"),
                    2 => format!("{p}.x"),
                    3 => p.rsplit_once('.').map_or(String::new(), |(a, _)| a.to_owned()),
                    _ => p,
                });
            }
        }
        paths.push((*rng.pick(&["", "content", "content.body", "sender", ".", "\\", "content.m\\.mentions", "k"])).to_owned());
        for p in paths {
            for op in ["c12.get", "c12.spec.get"] {
                extra.push(Req::new(format!("{op} {evt} {}", stok(&p)), format!("get.{}", &op[4..])));
            }
        }
        for op in ["c12.mentions", "c12.spec.mentions"] {
            extra.push(Req::new(format!("{op} {evt}"), format!("mentions.{}", &op[4..])));
        }
    }
    (payload, cls)
}

// ---------------------------------------------------------------------------------------------
// the server-default ruleset on realistic events

fn cond_json(c: &ruma_common::push::PushCondition) -> Value {
    use ruma_common::push::{ComparisonOperator as Op, PushCondition as C};
    match c {
        C::EventMatch { key, pattern } => json!(["event_match", key, pattern]),
        C::ContainsDisplayName => json!(["contains_display_name"]),
        C::RoomMemberCount { is } => {
            let op = match is.prefix {
                Op::Eq => "==",
                Op::Lt => "<",
                Op::Gt => ">",
                Op::Ge => ">=",
                Op::Le => "<=",
            };
            json!(["room_member_count", op, u64::from(is.count)])
        }
        C::SenderNotificationPermission { key } => json!(["sender_notification_permission", key]),
        C::EventPropertyIs { key, value } => {
            json!(["event_property_is", key, serde_json::to_value(value).unwrap()])
        }
        C::EventPropertyContains { key, value } => {
            json!(["event_property_contains", key, serde_json::to_value(value).unwrap()])
        }
        _ => json!(["custom"]),
    }
}

/// `Ruleset::server_default(user)` — the real predefined rules — in the request format, with some
/// rules switched off.
fn default_ruleset(rng: &mut Rng, me: &str) -> Value {
    use ruma_common::push::{AnyPushRuleRef as R, Ruleset};
    let rs = Ruleset::server_default(<&ruma_common::UserId>::try_from(me).unwrap());
    let mut kinds: [Vec<Value>; 5] = Default::default();
    for r in rs.iter() {
        let en = r.enabled() && !rng.chance(1, 12);
        match r {
            R::Override(x) => kinds[0].push(json!([en, x.rule_id, x.conditions.iter().map(cond_json).collect::<Vec<_>>()])),
            R::Content(x) => kinds[1].push(json!([en, x.rule_id, x.pattern])),
            R::Room(x) => kinds[2].push(json!([en, x.rule_id.as_str()])),
            R::Sender(x) => kinds[3].push(json!([en, x.rule_id.as_str()])),
            R::Underride(x) => kinds[4].push(json!([en, x.rule_id, x.conditions.iter().map(cond_json).collect::<Vec<_>>()])),
            _ => {}
        }
    }
    // user rules in front of / behind the predefined ones
    if rng.chance(1, 3) {
        kinds[2].push(json!([true, *rng.pick(ROOMS)]));
    }
    if rng.chance(1, 3) {
        kinds[3].push(json!([!rng.chance(1, 4), *rng.pick(USERS)]));
    }
    if rng.chance(1, 3) {
        kinds[1].insert(0, json!([true, "kw", *rng.pick(&["lunch", "lunc?*", "me", "plans", "*"])]));
    }
    Value::Array(kinds.into_iter().map(Value::Array).collect())
}

fn realistic_event(rng: &mut Rng, me: &str, display: &str) -> Value {
    let local = me.trim_start_matches('@').split(':').next().unwrap_or("");
    let others: Vec<&str> = USERS.iter().copied().filter(|u| *u != me).collect();
    let sender = if rng.chance(1, 10) { me } else { *rng.pick(&others) };
    let body = match rng.below(8) {
        0 => format!("hello {display}, lunch?"),
        1 => format!("{local}: ping"),
        2 => "@room everybody".to_owned(),
        3 => format!("x{display}x and {local}s"),
        4 => (*rng.pick(BODIES)).to_owned(),
        5 => display.to_uppercase(),
        _ => "Lunch plans".to_owned(),
    };
    let mut content = match rng.below(14) {
        0 => json!({"membership": "invite"}),
        1 => json!({"membership": *rng.pick(&["join", "leave", "ban"])}),
        2 => json!({"m.relates_to": {"rel_type": "m.annotation", "event_id": "$e", "key": "👍"}}),
        3 => json!({"body": "This room has been replaced", "replacement_room": "!new:example.org"}),
        4 => json!({"allow": ["*"], "deny": []}),
        5 => json!({"algorithm": "m.megolm.v1.aes-sha2", "ciphertext": "AAAA", "session_id": "s"}),
        6 => json!({"call_id": "c", "version": "1", "lifetime": 60000, "offer": {"type": "offer", "sdp": ""}}),
        7 => json!({"msgtype": "m.text", "body": format!("* {body}"), "m.new_content": {"msgtype": "m.text", "body": body},
                    "m.relates_to": {"rel_type": "m.replace", "event_id": "$e"}}),
        8 => json!({"msgtype": "m.notice", "body": body}),
        9 => json!({"org.matrix.msc3381.poll.start": {"question": {"org.matrix.msc1767.text": body}, "answers": []}}),
        _ => json!({"msgtype": *rng.pick(&["m.text", "m.text", "m.emote"]), "body": body}),
    };
    let ty = match content {
        ref c if c.get("membership").is_some() => "m.room.member",
        ref c if c.get("replacement_room").is_some() => "m.room.tombstone",
        ref c if c.get("allow").is_some() => "m.room.server_acl",
        ref c if c.get("algorithm").is_some() => "m.room.encrypted",
        ref c if c.get("call_id").is_some() => "m.call.invite",
        ref c if c.get("org.matrix.msc3381.poll.start").is_some() => "org.matrix.msc3381.poll.start",
        ref c if c.get("msgtype").is_none() => "m.reaction",
        _ => "m.room.message",
    };
    match rng.below(6) {
        0 => {
            content["m.mentions"] = json!({"user_ids": [me]});
        }
        1 => {
            content["m.mentions"] = json!({"room": true});
        }
        2 => {
            content["m.mentions"] = json!({"user_ids": ["@other:example.org"], "room": rng.chance(1, 2)});
        }
        3 => {
            content["m.mentions"] = json!({});
        }
        _ => {}
    }
    let mut ev = json!({"type": ty, "sender": sender, "event_id": "$ev", "room_id": "!room:example.org",
                        "origin_server_ts": 1, "content": content});
    if matches!(ty, "m.room.member") {
        ev["state_key"] = json!(if rng.chance(2, 3) { me } else { "@bob:example.org" });
    }
    if matches!(ty, "m.room.tombstone" | "m.room.server_acl") {
        ev["state_key"] = json!("");
    }
    ev
}

pub fn gen_default(rng: &mut Rng) -> (String, String) {
    let me = *rng.pick(&["@me:example.org", "@alice:example.org"]);
    let display = *rng.pick(&["me", "Alice", "Al*", "?", "Groovy Gorilla", ""]);
    let ev = realistic_event(rng, me, display);
    let rs = default_ruleset(rng, me);
    let pl = if rng.chance(1, 5) {
        Value::Null
    } else {
        let mut users = Map::new();
        for u in USERS {
            if rng.chance(1, 2) {
                users.insert((*u).to_owned(), json!(*rng.pick(LEVELS)));
            }
        }
        json!([Value::Object(users), *rng.pick(&[0, 0, 50]), *rng.pick(&[50, 50, 0, 100])])
    };
    let ctx = json!([*rng.pick(&["!room:example.org", "!other:example.org"]), *rng.pick(&[1u64, 2, 2, 3, 10]), me, display, pl]);
    let payload = format!("{} {} {}", h_util::jtoks(&rs), h_util::jtoks(&ctx), h_util::jtoks(&ev));
    (payload, format!("default.{}", ev["type"].as_str().unwrap_or("?").rsplit('.').next().unwrap_or("?")))
}

pub fn gen(rng: &mut Rng, n: usize, tier: &str) -> Vec<Req> {
    refm::check_pool(POOL);
    refm::check_pool(PAT_ALPHA);
    for s in BODIES.iter().chain(USERS).chain(ROOMS).chain(KEYS).chain(RULE_IDS) {
        refm::check_pool(&s.chars().collect::<Vec<_>>());
    }
    let mut out = Vec::new();
    let pats = all_patterns(PAT_MAX);
    let txts = crate::texts(TXT_ALPHA, TXT_MAX);

    // (a) exhaustive enumeration: every pattern × every text, in both modes
    if tier == "thorough" {
        for p in &pats {
            batch_lines(&mut out, p, "exh");
        }
    } else {
        for p in pats.iter().filter(|p| p.chars().count() <= 1) {
            batch_lines(&mut out, p, "exh");
        }
        for p in ["a*b", "a?b", "**", "*?", "??", "?*", "a**", "*a*", " a ", "_?"] {
            batch_lines(&mut out, p, "exh");
        }
        for _ in 0..16 {
            let p = rng.pick(&pats).clone();
            batch_lines(&mut out, &p, "exh");
        }
    }
    let k = n / 3;
    for _ in 0..k {
        let p = rng.pick(&pats).clone();
        let s = rng.pick(&txts).clone();
        pair_lines(&mut out, &p, &s, "pair");
    }
    // (b) longer random patterns and bodies
    for _ in 0..k {
        let (p, s, cls) = long_pair(rng);
        pair_lines(&mut out, &p, &s, cls);
    }
    // (d) `room_member_count` strings: every prefix × sign × digits once in the thorough tier
    if tier == "thorough" {
        for p in COUNT_PREFIX {
            for sg in COUNT_SIGN {
                for d in COUNT_DIGITS {
                    for n in [2u64, 3, 4] {
                        count_lines(&mut out, &format!("{p}{sg}{d}"), n, "count");
                    }
                }
            }
        }
    }
    for _ in 0..(n / 10).max(50) {
        gen_count(rng, &mut out);
    }
    // (e) the real server-default ruleset (some rules switched off, a few user rules) on realistic events
    for _ in 0..(n / 6) {
        let (payload, cls) = gen_default(rng);
        out.push(Req::new(format!("c12.match {payload}"), cls.clone()));
        out.push(Req::new(format!("c12.spec.match {payload}"), format!("spec.{cls}")));
    }
    // (c) rulesets × contexts × events
    for _ in 0..(n - 2 * k) {
        let mut extra = vec![];
        let (payload, cls) = gen_match(rng, &mut extra);
        out.push(Req::new(format!("c12.match {payload}"), cls.clone()));
        out.push(Req::new(format!("c12.spec.match {payload}"), format!("spec.{cls}")));
        out.append(&mut extra);
    }
    out
}
