//! Independent reference for the T3 oracle: the spec's glob relation and word-boundary matching,
//! written directly from the property statement (dynamic programming over code points), and the
//! lower-casing table that the Lean driver instantiates `lower` with.

/// The simple case mapping the Lean driver uses for `str::to_lowercase`. The generators only draw
/// characters on which Rust's `to_lowercase` agrees with it (`check_pool` asserts that).
pub fn lower_char(c: char) -> char {
    let u = c as u32;
    let v = match u {
        0x41..=0x5A => u + 32,
        0xC0..=0xDE if u != 0xD7 => u + 32,
        0x391..=0x3A9 if u != 0x3A2 && u != 0x3A3 => u + 32,
        0x410..=0x42F => u + 32,
        0x400..=0x40F => u + 80,
        _ => u,
    };
    char::from_u32(v).unwrap()
}

pub fn lower(s: &str) -> Vec<char> {
    s.chars().map(lower_char).collect()
}

/// Harness self-check: Rust lower-cases every pool character exactly like `lower_char`.
pub fn check_pool(pool: &[char]) {
    for &c in pool {
        let l: Vec<char> = c.to_lowercase().collect();
        assert!(l == vec![lower_char(c)], "harness bug: pool character {c:?} lower-cases to {l:?}");
    }
}

pub fn is_word(c: char) -> bool {
    c.is_ascii_alphanumeric() || c == '_'
}

/// `Glob p s`: `*` any run, `?` exactly one, otherwise literal. Both already lower-cased.
pub fn glob(p: &[char], s: &[char]) -> bool {
    // m[k] = p[pi..] matches s[k..]
    let n = s.len();
    let mut m = vec![false; n + 1];
    m[n] = true;
    for &pc in p.iter().rev() {
        let mut nm = vec![false; n + 1];
        match pc {
            '*' => {
                let mut any = false;
                for k in (0..=n).rev() {
                    any |= m[k];
                    nm[k] = any;
                }
            }
            '?' => {
                for k in 0..n {
                    nm[k] = m[k + 1];
                }
            }
            c => {
                for k in 0..n {
                    nm[k] = s[k] == c && m[k + 1];
                }
            }
        }
        m = nm;
    }
    m[0]
}

fn boundary(s: &[char], k: usize) -> bool {
    k == 0 || k == s.len() || !is_word(s[k - 1]) || !is_word(s[k])
}

/// Word-boundary matching (both already lower-cased); the empty pattern matches only the empty text.
pub fn word(p: &[char], s: &[char]) -> bool {
    if p.is_empty() {
        return s.is_empty();
    }
    for i in 0..=s.len() {
        if !boundary(s, i) {
            continue;
        }
        for j in i..=s.len() {
            if boundary(s, j) && glob(p, &s[i..j]) {
                return true;
            }
        }
    }
    false
}

/// "The text contains the word": `w` occurs in `s` as literal text between word boundaries (both
/// already lower-cased); the empty word only in the empty text.
pub fn contains(w: &[char], s: &[char]) -> bool {
    if w.is_empty() {
        return s.is_empty();
    }
    if w.len() > s.len() {
        return false;
    }
    (0..=s.len() - w.len()).any(|i| {
        let j = i + w.len();
        s[i..j] == *w && boundary(s, i) && boundary(s, j)
    })
}

pub fn ref_contains(w: &str, s: &str) -> bool {
    contains(&lower(w), &lower(s))
}

pub fn ref_value(p: &str, s: &str) -> bool {
    glob(&lower(p), &lower(s))
}

pub fn ref_word(p: &str, s: &str) -> bool {
    word(&lower(p), &lower(s))
}
