//! C02 — JSON signing is interoperable Ed25519 and verification is sound.
//!
//! The signature scheme itself (ed25519-dalek) is external to ruma. Every request therefore carries
//! an ORACLE TABLE produced by the real `Ed25519KeyPair::sign` / `verify_canonical_json_bytes`:
//!
//!   tables := G <n> (<seed:h> <msg:h> <sig:h>)*   V <n> (<pk:h> <msg:h> <sig:h> <t|f>)*
//!   keymap := K <n> (<entity:s> <m> (<keyid:s> <pk:h>)*)*
//!   (`h<hex>` = bytes, `s<hex>` = UTF-8 string, objects token-encoded as everywhere)
//!
//! so that the Lean model replays ruma's glue with exactly the signatures / verdicts the real
//! scheme gave. `run` re-validates every table entry against the real scheme (a stale table is
//! reported), so a request line is a self-contained known-answer test.
//!
//! Requests and answers (errors are one class; the property does not speak about error kinds):
//!   c02.sign   <tables> <entity:s> <version:s> <seed:h> <obj>            → ok <obj'> | err <obj'>
//!   c02.seq    <tables> <E> <obj> <n> (<entity:s> <version:s> <seed:h>)* <keymap>
//!                                                  → ok <obj'> vok|verr | err <step> <obj'>
//!   c02.verify <tables> <E> <keymap> <obj>                               → ok | err
//!   c02.bytes  <tables> <alg:s> <pk:h> <sig:h> <msg:h>                   → ok | err
//!   c02.b64 <bytes:h> → ok <s>        c02.unb64 <s> → ok <h> | err        c02.canon <obj> → ok <h>
//!   c02.rfc <seed:h> <pk:h> <msg:h> <sig:h>   → ok   (RFC 8032 §7.1 vectors on the real key pair
//!                                               and verifier; a labelled interoperability TEST)
//! <E> = `Eok` | `Eerr` | `E?`: what the property requires of the final verification by
//! construction of the case (valid signatures → ok, tampered → err); only `run` reads it.
use std::collections::BTreeMap;

use h_lib::{
    cj::{cj_obj_toks, cj_parse_obj, gen_canonical_value, STR_POOL},
    h_util::{self, hex, unhex},
    stok, Outcome, Req, Rng,
};
use ruma_common::{
    serde::{base64::Standard, Base64},
    CanonicalJsonObject, CanonicalJsonValue, SigningKeyAlgorithm,
};
use ruma_signatures::{
    canonical_json, sign_json, verify_canonical_json_bytes, verify_json, Ed25519KeyPair, KeyPair,
    PublicKeyMap, PublicKeySet,
};

type Obj = CanonicalJsonObject;
type Val = CanonicalJsonValue;

// ---------------------------------------------------------------------------------------------
// independent reference pieces (not ruma-signatures code)

/// PKCS#8 v1 document (RFC 8410 §7) for a 32-byte Ed25519 seed.
fn pkcs8_v1(seed: &[u8]) -> Vec<u8> {
    let mut d = vec![
        0x30, 0x2e, 0x02, 0x01, 0x00, 0x30, 0x05, 0x06, 0x03, 0x2b, 0x65, 0x70, 0x04, 0x22, 0x04, 0x20,
    ];
    d.extend_from_slice(seed);
    d
}

fn key_pair(seed: &[u8], version: &str) -> Ed25519KeyPair {
    Ed25519KeyPair::from_der(&pkcs8_v1(seed), version.to_owned()).expect("PKCS#8 v1 document for a 32-byte seed")
}

/// Unpadded standard base64 (RFC 4648 §4 alphabet), written here independently of the `base64` crate.
fn ref_b64(bytes: &[u8]) -> String {
    const A: &[u8; 64] = b"ABCDEFGHIJKLMNOPQRSTUVWXYZabcdefghijklmnopqrstuvwxyz0123456789+/";
    let mut bits: u32 = 0;
    let mut nbits = 0;
    let mut out = String::new();
    for b in bytes {
        bits = (bits << 8) | u32::from(*b);
        nbits += 8;
        while nbits >= 6 {
            nbits -= 6;
            out.push(A[((bits >> nbits) & 63) as usize] as char);
        }
    }
    if nbits > 0 {
        out.push(A[((bits << (6 - nbits)) & 63) as usize] as char);
    }
    out
}

/// The bytes that must be signed: compact JSON of the object without `signatures` and `unsigned`
/// (serialised with serde_json directly, not through `ruma_signatures::canonical_json`).
fn ref_signed_bytes(obj: &Obj) -> Vec<u8> {
    let mut o = obj.clone();
    o.remove("signatures");
    o.remove("unsigned");
    serde_json::to_vec(&o).expect("canonical object serialises")
}

/// What a correct `sign_json` must leave behind: the input with
/// `signatures[entity]["ed25519:<version>"]` = unpadded base64 of the Ed25519 signature of
/// `ref_signed_bytes`, everything else untouched. `None` if the input's `signatures` shape makes
/// signing impossible (then `sign_json` must return an error and change nothing).
fn ref_sign(obj: &Obj, entity: &str, kp: &Ed25519KeyPair) -> Option<Obj> {
    let mut out = obj.clone();
    let sig = kp.sign(&ref_signed_bytes(obj));
    let b64 = ref_b64(sig.as_bytes());
    let sigs = out.entry("signatures".to_owned()).or_insert_with(|| Val::Object(BTreeMap::new()));
    let Val::Object(sigs) = sigs else { return None };
    let set = sigs.entry(entity.to_owned()).or_insert_with(|| Val::Object(BTreeMap::new()));
    let Val::Object(set) = set else { return None };
    set.insert(format!("ed25519:{}", kp.version()), Val::String(b64));
    Some(out)
}

/// The same object as JSON text with the members of every object in REVERSE order.
fn reversed_text(v: &Val) -> String {
    match v {
        Val::Object(o) => {
            let items: Vec<String> = o
                .iter()
                .rev()
                .map(|(k, x)| format!("{}:{}", serde_json::to_string(k).unwrap(), reversed_text(x)))
                .collect();
            format!("{{{}}}", items.join(","))
        }
        Val::Array(a) => {
            let items: Vec<String> = a.iter().map(reversed_text).collect();
            format!("[{}]", items.join(","))
        }
        other => serde_json::to_string(other).unwrap(),
    }
}

fn real_verify_bytes(pk: &[u8], sig: &[u8], msg: &[u8]) -> bool {
    verify_canonical_json_bytes(&SigningKeyAlgorithm::Ed25519, pk, sig, msg).is_ok()
}

/// The property's acceptance condition, evaluated directly: `signatures` is an object and every
/// entity named in it has a key set, at least one `ed25519:` signature, and every `ed25519:`
/// signature of it has a key, is a base64 string, and verifies over `ref_signed_bytes`.
fn ref_verdict(keys: &PublicKeyMap, obj: &Obj) -> bool {
    let Some(Val::Object(sigs)) = obj.get("signatures") else { return false };
    let msg = ref_signed_bytes(obj);
    for (entity, set) in sigs {
        let Val::Object(set) = set else { return false };
        let Some(pks) = keys.get(entity) else { return false };
        let mut supported = 0;
        for (kid, sig) in set {
            if !kid.starts_with("ed25519:") {
                continue;
            }
            supported += 1;
            let Some(pk) = pks.get(kid) else { return false };
            let Val::String(s) = sig else { return false };
            let Ok(raw) = Base64::<Standard>::parse(s) else { return false };
            if !real_verify_bytes(pk.as_bytes(), raw.as_bytes(), &msg) {
                return false;
            }
        }
        if supported == 0 {
            return false;
        }
    }
    true
}

// ---------------------------------------------------------------------------------------------
// protocol pieces

fn htok(b: &[u8]) -> String {
    format!("h{}", hex(b))
}

#[derive(Default, Clone)]
struct Tables {
    g: Vec<(Vec<u8>, Vec<u8>, Vec<u8>)>,
    v: Vec<(Vec<u8>, Vec<u8>, Vec<u8>, bool)>,
}

impl Tables {
    fn add_sign(&mut self, seed: &[u8], msg: &[u8]) {
        if self.g.iter().any(|(s, m, _)| s == seed && m == msg) {
            return;
        }
        let sig = key_pair(seed, "t").sign(msg).as_bytes().to_vec();
        self.g.push((seed.to_vec(), msg.to_vec(), sig));
    }
    fn add_verify(&mut self, pk: &[u8], msg: &[u8], sig: &[u8]) {
        if self.v.iter().any(|(p, m, s, _)| p == pk && m == msg && s == sig) {
            return;
        }
        self.v.push((pk.to_vec(), msg.to_vec(), sig.to_vec(), real_verify_bytes(pk, sig, msg)));
    }
    /// Every (public key, message, signature) combination `verify_json(keys, obj)` can ask about.
    fn add_for_verify(&mut self, keys: &PublicKeyMap, obj: &Obj) {
        let Some(Val::Object(sigs)) = obj.get("signatures") else { return };
        let msg = ref_signed_bytes(obj);
        for (entity, set) in sigs {
            let (Val::Object(set), Some(pks)) = (set, keys.get(entity)) else { continue };
            for (kid, sig) in set {
                let (Some(pk), Val::String(s)) = (pks.get(kid), sig) else { continue };
                if let Ok(raw) = Base64::<Standard>::parse(s) {
                    self.add_verify(pk.as_bytes(), &msg, raw.as_bytes());
                }
            }
        }
    }
    fn toks(&self) -> String {
        let mut s = format!("G {}", self.g.len());
        for (seed, m, sig) in &self.g {
            s.push_str(&format!(" {} {} {}", htok(seed), htok(m), htok(sig)));
        }
        s.push_str(&format!(" V {}", self.v.len()));
        for (pk, m, sig, ok) in &self.v {
            s.push_str(&format!(" {} {} {} {}", htok(pk), htok(m), htok(sig), if *ok { "t" } else { "f" }));
        }
        s
    }
}

fn keymap_toks(keys: &PublicKeyMap) -> String {
    let mut s = format!("K {}", keys.len());
    for (e, set) in keys {
        s.push_str(&format!(" {} {}", stok(e), set.len()));
        for (kid, pk) in set {
            s.push_str(&format!(" {} {}", stok(kid), htok(pk.as_bytes())));
        }
    }
    s
}

struct P<'a, 'b>(std::slice::Iter<'a, &'b str>);

impl P<'_, '_> {
    fn word(&mut self) -> Option<&str> {
        self.0.next().copied()
    }
    fn lit(&mut self, w: &str) -> Option<()> {
        (self.word()? == w).then_some(())
    }
    fn num(&mut self) -> Option<usize> {
        self.word()?.parse().ok()
    }
    fn bytes(&mut self) -> Option<Vec<u8>> {
        unhex(self.word()?.strip_prefix('h')?)
    }
    fn string(&mut self) -> Option<String> {
        h_util::unhex_str(self.word()?.strip_prefix('s')?)
    }
    fn obj(&mut self) -> Option<Obj> {
        cj_parse_obj(&mut self.0)
    }
    fn tables(&mut self) -> Option<Tables> {
        let mut t = Tables::default();
        self.lit("G")?;
        for _ in 0..self.num()? {
            t.g.push((self.bytes()?, self.bytes()?, self.bytes()?));
        }
        self.lit("V")?;
        for _ in 0..self.num()? {
            let (a, b, c) = (self.bytes()?, self.bytes()?, self.bytes()?);
            let ok = match self.word()? {
                "t" => true,
                "f" => false,
                _ => return None,
            };
            t.v.push((a, b, c, ok));
        }
        Some(t)
    }
    fn keymap(&mut self) -> Option<PublicKeyMap> {
        self.lit("K")?;
        let mut m = PublicKeyMap::new();
        for _ in 0..self.num()? {
            let e = self.string()?;
            let mut set = PublicKeySet::new();
            for _ in 0..self.num()? {
                let kid = self.string()?;
                set.insert(kid, Base64::new(self.bytes()?));
            }
            m.insert(e, set);
        }
        Some(m)
    }
    fn expect(&mut self) -> Option<Option<bool>> {
        match self.word()? {
            "Eok" => Some(Some(true)),
            "Eerr" => Some(Some(false)),
            "E?" => Some(None),
            _ => None,
        }
    }
    fn end(&mut self) -> Option<()> {
        self.0.next().is_none().then_some(())
    }
}

/// A table entry that the real scheme no longer reproduces (stale corpus line, or the scheme glue
/// in keys.rs / verification.rs changed behaviour).
fn check_tables(t: &Tables, t3: &mut Vec<String>) {
    for (seed, msg, sig) in &t.g {
        if seed.len() != 32 || key_pair(seed, "t").sign(msg).as_bytes() != sig.as_slice() {
            t3.push("recorded Ed25519 signature is not what Ed25519KeyPair::sign produces".into());
        }
    }
    for (pk, msg, sig, ok) in &t.v {
        if real_verify_bytes(pk, sig, msg) != *ok {
            t3.push(format!(
                "recorded Ed25519 verdict ({ok}) is not what verify_canonical_json_bytes returns (key {} bytes, signature {} bytes)",
                pk.len(),
                sig.len()
            ));
        }
    }
}

// ---------------------------------------------------------------------------------------------
// running the real implementation

/// T3 oracles around one `sign_json` call. Returns the Result and the object after the call.
fn checked_sign(entity: &str, seed: &[u8], version: &str, obj: &Obj, t3: &mut Vec<String>) -> (bool, Obj) {
    let kp = key_pair(seed, version);
    let saved = obj.clone();
    let mut o = obj.clone();
    let res = sign_json(entity, &kp, &mut o);
    let expected = ref_sign(&saved, entity, &kp);
    match (&res, &expected) {
        (Err(_), _) if o != saved => {
            t3.push("sign_json returned Err but changed the object (not atomic)".into());
        }
        (Err(_), Some(_)) => t3.push("sign_json failed on an object that can be signed".into()),
        (Ok(()), None) => t3.push("sign_json succeeded although `signatures` has the wrong shape".into()),
        (Ok(()), Some(exp)) => {
            if o != *exp {
                let key_id = format!("ed25519:{version}");
                let got = match o.get("signatures") {
                    Some(Val::Object(s)) => match s.get(entity) {
                        Some(Val::Object(set)) => set.get(&key_id).cloned(),
                        _ => None,
                    },
                    _ => None,
                };
                let want = match exp.get("signatures") {
                    Some(Val::Object(s)) => match s.get(entity) {
                        Some(Val::Object(set)) => set.get(&key_id).cloned(),
                        _ => None,
                    },
                    _ => None,
                };
                if got != want {
                    t3.push("stored signature is not the unpadded base64 Ed25519 signature of the canonical JSON without signatures/unsigned".into());
                } else {
                    t3.push("signing changed something other than signatures[entity][key id] (earlier signatures / unsigned / fields not intact)".into());
                }
            }
            // sign → verify with the matching public key, looking only at this entity's new signature
            let mut only = o.clone();
            let key_id = format!("ed25519:{version}");
            if let Some(Val::Object(s)) = o.get("signatures") {
                if let Some(Val::Object(set)) = s.get(entity) {
                    if let Some(sig) = set.get(&key_id) {
                        let mut set1 = Obj::new();
                        set1.insert(key_id.clone(), sig.clone());
                        let mut s1 = Obj::new();
                        s1.insert(entity.to_owned(), Val::Object(set1));
                        only.insert("signatures".into(), Val::Object(s1));
                        let mut keys = PublicKeyMap::new();
                        let mut set = PublicKeySet::new();
                        set.insert(key_id.clone(), Base64::new(kp.public_key().to_vec()));
                        keys.insert(entity.to_owned(), set);
                        if verify_json(&keys, &only).is_err() {
                            t3.push("sign_json then verify_json with the matching public key failed".into());
                        }
                    }
                }
            }
        }
        (Err(_), None) => {}
    }
    (res.is_ok(), o)
}

fn checked_verify(keys: &PublicKeyMap, obj: &Obj, expect: Option<bool>, t3: &mut Vec<String>) -> bool {
    let ok = verify_json(keys, obj).is_ok();
    if ok != ref_verdict(keys, obj) {
        t3.push(format!(
            "verify_json returned {} but the acceptance condition of the property evaluates to {}",
            if ok { "Ok" } else { "Err" },
            !ok
        ));
    }
    match expect {
        Some(true) if !ok => t3.push("a correctly signed object (or one changed only in `unsigned`) was rejected".into()),
        Some(false) if ok => t3.push("a tampered / insufficiently signed object was accepted".into()),
        _ => {}
    }
    if let Ok(cj) = canonical_json(obj) {
        if cj.as_bytes() != ref_signed_bytes(obj).as_slice() {
            t3.push("canonical_json is not the compact JSON of the object without signatures/unsigned".into());
        }
    }
    // key order: the same object read from JSON text with every object's members reversed
    match serde_json::from_str::<Obj>(&reversed_text(&Val::Object(obj.clone()))) {
        Ok(again) => {
            if verify_json(keys, &again).is_ok() != ok {
                t3.push("the verdict changes when the same object is read from text with keys in another order".into());
            }
        }
        Err(_) => t3.push("the object could not be re-read from its own JSON text".into()),
    }
    ok
}

pub fn run(req: &str) -> Outcome {
    let toks: Vec<&str> = req.split(' ').collect();
    run_toks(&toks).unwrap_or_else(Outcome::bad)
}

fn run_toks(toks: &[&str]) -> Option<Outcome> {
    let mut p = P(toks[1..].iter());
    let mut t3 = Vec::new();
    let imp = match toks[0] {
        "c02.sign" => {
            let tables = p.tables()?;
            let (entity, version, seed, obj) = (p.string()?, p.string()?, p.bytes()?, p.obj()?);
            p.end()?;
            check_tables(&tables, &mut t3);
            let (ok, after) = checked_sign(&entity, &seed, &version, &obj, &mut t3);
            format!("{} {}", if ok { "ok" } else { "err" }, cj_obj_toks(&after))
        }
        "c02.seq" => {
            let tables = p.tables()?;
            let expect = p.expect()?;
            let mut obj = p.obj()?;
            let mut steps = Vec::new();
            for _ in 0..p.num()? {
                steps.push((p.string()?, p.string()?, p.bytes()?));
            }
            let keys = p.keymap()?;
            p.end()?;
            check_tables(&tables, &mut t3);
            let mut failed = None;
            for (i, (entity, version, seed)) in steps.iter().enumerate() {
                let (ok, after) = checked_sign(entity, seed, version, &obj, &mut t3);
                obj = after;
                if !ok {
                    failed = Some(i);
                    break;
                }
            }
            match failed {
                Some(i) => format!("err {i} {}", cj_obj_toks(&obj)),
                None => {
                    let v = checked_verify(&keys, &obj, expect, &mut t3);
                    format!("ok {} {}", cj_obj_toks(&obj), if v { "vok" } else { "verr" })
                }
            }
        }
        "c02.verify" => {
            let tables = p.tables()?;
            let expect = p.expect()?;
            let (keys, obj) = (p.keymap()?, p.obj()?);
            p.end()?;
            check_tables(&tables, &mut t3);
            if checked_verify(&keys, &obj, expect, &mut t3) { "ok".into() } else { "err".into() }
        }
        "c02.bytes" => {
            let tables = p.tables()?;
            let (alg, pk, sig, msg) = (p.string()?, p.bytes()?, p.bytes()?, p.bytes()?);
            p.end()?;
            check_tables(&tables, &mut t3);
            let r = verify_canonical_json_bytes(&SigningKeyAlgorithm::from(alg.as_str()), &pk, &sig, &msg);
            if r.is_ok() { "ok".into() } else { "err".into() }
        }
        "c02.b64" => {
            let b = p.bytes()?;
            p.end()?;
            let enc = Base64::<Standard, _>::new(b.as_slice()).encode();
            if enc != ref_b64(&b) {
                t3.push("Base64::encode is not unpadded standard base64".into());
            }
            match Base64::<Standard>::parse(&enc) {
                Ok(d) if d.as_bytes() == b.as_slice() => {}
                _ => t3.push("Base64::parse(encode(x)) != x".into()),
            }
            format!("ok {}", stok(&enc))
        }
        "c02.unb64" => {
            let s = p.string()?;
            p.end()?;
            match Base64::<Standard>::parse(&s) {
                Ok(d) => format!("ok {}", htok(d.as_bytes())),
                Err(_) => "err".into(),
            }
        }
        "c02.canon" => {
            let obj = p.obj()?;
            p.end()?;
            match canonical_json(&obj) {
                Ok(s) => {
                    if s.as_bytes() != ref_signed_bytes(&obj).as_slice() {
                        t3.push("canonical_json is not the compact JSON of the object without signatures/unsigned".into());
                    }
                    format!("ok {}", htok(s.as_bytes()))
                }
                Err(_) => "err".into(),
            }
        }
        "c02.rfc" => {
            let (seed, pk, msg, sig) = (p.bytes()?, p.bytes()?, p.bytes()?, p.bytes()?);
            p.end()?;
            let kp = key_pair(&seed, "rfc8032");
            if kp.public_key().as_slice() != pk.as_slice() {
                t3.push("RFC 8032 vector: public key derived from the seed differs".into());
            }
            if kp.sign(&msg).as_bytes() != sig.as_slice() {
                t3.push("RFC 8032 vector: signature differs".into());
            }
            if !real_verify_bytes(&pk, &sig, &msg) {
                t3.push("RFC 8032 vector: the verifier rejects the vector's signature".into());
            }
            for bit in [0usize, 7, 255, 256, 300, 511] {
                let mut s = sig.clone();
                s[bit / 8] ^= 1 << (bit % 8);
                if real_verify_bytes(&pk, &s, &msg) {
                    t3.push(format!("RFC 8032 vector: signature with bit {bit} flipped is accepted"));
                }
            }
            let mut m2 = msg.clone();
            m2.push(0);
            if real_verify_bytes(&pk, &sig, &m2) {
                t3.push("RFC 8032 vector: signature accepted for an extended message".into());
            }
            "ok".into()
        }
        _ => return None,
    };
    Some(Outcome { imp, t3 })
}

// ---------------------------------------------------------------------------------------------
// generator

const ENTITIES: &[&str] = &[
    "domain", "example.org", "a", "b", "b.c:8448", "日本.example", "", "signatures", "unsigned", "é",
];
const VERSIONS: &[&str] = &["1", "a_bcD", "", "é", "日本", "1:2", "k\u{10000}", "auto", "0"];
/// key ids that are not supported Ed25519 ids: unparsable (no colon, colon first) or other algorithm
const OTHER_KEY_IDS: &[&str] = &[
    "rsa:1", "ed25519", ":x", "ed25519x:1", "ED25519:1", "curve25519:AAAA", "", ":", "x:ed25519:1", " ed25519:1",
    "é:1",
];

fn seed(rng: &mut Rng) -> Vec<u8> {
    (0..4).flat_map(|_| rng.next().to_le_bytes()).collect()
}

fn to_obj(v: serde_json::Value) -> Obj {
    match Val::try_from(v).expect("canonical") {
        Val::Object(o) => o,
        _ => panic!("not an object"),
    }
}

fn to_val(v: serde_json::Value) -> Val {
    Val::try_from(v).expect("canonical")
}

fn gen_content(rng: &mut Rng) -> Obj {
    let mut m = serde_json::Map::new();
    let n = rng.below(6);
    for _ in 0..n {
        let k = match rng.below(10) {
            0 => "content",
            1 => "hashes",
            2 => "type",
            3 => "signature",
            4 => "unsigne",
            // keys that events carry at top level and that other algorithms of the library strip
            // (redaction, reference hash) — signing and verifying must not
            5 => *rng.pick(&[
                "age_ts", "event_id", "origin", "outlier", "destination", "prev_state", "redacts", "depth",
                "membership", "unsigned_device_count", "org.example.signatures", "prev_hashes", "signatures2",
                "origin_server_ts", "auth_events", "prev_events", "room_id", "sender", "state_key",
            ]),
            _ => *rng.pick(STR_POOL),
        };
        let d = rng.below(3) as u32 + 1;
        m.insert(k.to_owned(), gen_canonical_value(rng, d));
    }
    to_obj(serde_json::Value::Object(m))
}

fn gen_unsigned(rng: &mut Rng, obj: &mut Obj) {
    match rng.below(6) {
        0 | 1 | 2 => {}
        3 => {
            obj.insert("unsigned".into(), to_val(serde_json::json!({"age_ts": 1, "x": gen_canonical_value(rng, 2)})));
        }
        4 => {
            obj.insert("unsigned".into(), Val::Object(Obj::new()));
        }
        _ => {
            obj.insert("unsigned".into(), to_val(gen_canonical_value(rng, 1)));
        }
    }
}

fn junk_sig(rng: &mut Rng) -> Val {
    match rng.below(5) {
        0 => Val::String("AAAA".into()),
        1 => Val::String(ref_b64(&seed(rng).repeat(2))),
        2 => Val::String("!!".into()),
        3 => to_val(serde_json::json!(5)),
        _ => Val::String(String::new()),
    }
}

/// Well-shaped pre-existing `signatures` content: other entities, unsupported algorithms, other keys.
fn gen_pre_signatures(rng: &mut Rng, obj: &mut Obj) {
    let mut sigs = Obj::new();
    for _ in 0..rng.below(4) {
        let mut set = Obj::new();
        for _ in 0..rng.below(3) {
            let kid = if rng.chance(1, 2) {
                (*rng.pick(OTHER_KEY_IDS)).to_owned()
            } else {
                format!("ed25519:{}", rng.pick(VERSIONS))
            };
            set.insert(kid, junk_sig(rng));
        }
        sigs.insert((*rng.pick(ENTITIES)).to_owned(), Val::Object(set));
    }
    obj.insert("signatures".into(), Val::Object(sigs));
}

/// Ill-shaped `signatures` (the F11 cells): not an object, or the signer's entry not an object.
/// The ill-shaped value is drawn from every non-object JSON kind (null, booleans, numbers, strings,
/// arrays): a shape check that lets one kind through (e.g. "null is the same as absent") must meet it.
fn gen_bad_signatures(rng: &mut Rng, obj: &mut Obj, entity: &str) {
    let bad = |rng: &mut Rng| match rng.below(9) {
        0 => serde_json::Value::Null,
        1 => serde_json::json!(true),
        2 => serde_json::json!(false),
        3 => serde_json::json!(0),
        4 => serde_json::json!(5),
        5 => serde_json::json!(""),
        6 => serde_json::json!("sig"),
        7 => serde_json::json!([]),
        _ => serde_json::json!([{}]),
    };
    let v = match rng.below(4) {
        0 => bad(rng),
        1 => serde_json::json!({ entity: bad(rng) }),
        2 => serde_json::json!({ entity: bad(rng), "other": {"ed25519:1": "AAAA"} }),
        _ => serde_json::json!({ entity: bad(rng), "a": {}, "zz.example": bad(rng) }),
    };
    obj.insert("signatures".into(), to_val(v));
}

fn sign_req(tables: &Tables, entity: &str, version: &str, seed: &[u8], obj: &Obj, cls: &str) -> Req {
    Req::new(
        format!("c02.sign {} {} {} {} {}", tables.toks(), stok(entity), stok(version), htok(seed), cj_obj_toks(obj)),
        cls,
    )
}

fn gen_sign(rng: &mut Rng) -> Req {
    let mut obj = gen_content(rng);
    let entity = *rng.pick(ENTITIES);
    let version = *rng.pick(VERSIONS);
    let sd = seed(rng);
    gen_unsigned(rng, &mut obj);
    let cls = match rng.below(10) {
        0 | 1 | 2 => "sign_clean",
        3 | 4 | 5 | 6 => {
            gen_pre_signatures(rng, &mut obj);
            "sign_pre"
        }
        _ => {
            gen_bad_signatures(rng, &mut obj, entity);
            "sign_badshape"
        }
    };
    let mut t = Tables::default();
    t.add_sign(&sd, &ref_signed_bytes(&obj));
    sign_req(&t, entity, version, &sd, &obj, cls)
}

struct Signer {
    entity: String,
    version: String,
    seed: Vec<u8>,
}

fn gen_signers(rng: &mut Rng, max: usize) -> Vec<Signer> {
    let n_ent = 1 + rng.below(4);
    let ents: Vec<&str> = (0..n_ent).map(|_| *rng.pick(ENTITIES)).collect();
    let n = 1 + rng.below(max);
    (0..n)
        .map(|_| Signer {
            entity: (*rng.pick(&ents)).to_owned(),
            version: (*rng.pick(VERSIONS)).to_owned(),
            seed: seed(rng),
        })
        .collect()
}

/// Key map holding, for each (entity, key id), the public key of the LAST signer that used it.
fn keymap_of(signers: &[Signer]) -> PublicKeyMap {
    let mut keys = PublicKeyMap::new();
    for s in signers {
        let kp = key_pair(&s.seed, &s.version);
        keys.entry(s.entity.clone())
            .or_default()
            .insert(format!("ed25519:{}", s.version), Base64::new(kp.public_key().to_vec()));
    }
    keys
}

/// Reference-signed object (independent of sign_json).
fn ref_sign_all(obj: &Obj, signers: &[Signer]) -> Obj {
    let mut o = obj.clone();
    for s in signers {
        o = ref_sign(&o, &s.entity, &key_pair(&s.seed, &s.version)).expect("signable");
    }
    o
}

fn gen_seq(rng: &mut Rng) -> Req {
    let mut obj = gen_content(rng);
    gen_unsigned(rng, &mut obj);
    gen_seq_of(rng, obj)
}

/// Objects whose signed bytes (canonical JSON without `signatures`/`unsigned`) are exactly `len`
/// bytes long: signing and verification have no size limit (the 65 535-byte limit belongs to the
/// event hashes), so sign-then-verify must hold on both sides of that length.
fn big_object(len: usize) -> Obj {
    let mk = |n: usize| to_obj(serde_json::json!({"age_ts": 7, "content": {"body": "a".repeat(n)}, "type": "m.room.message"}));
    let base = ref_signed_bytes(&mk(0)).len();
    mk(len - base)
}

fn gen_seq_of(rng: &mut Rng, mut obj: Obj) -> Req {
    let signers = gen_signers(rng, 6);
    let mut expect = "Eok";
    let mut cls = "seq_clean";
    match rng.below(8) {
        0 => {
            gen_pre_signatures(rng, &mut obj);
            expect = "E?";
            cls = "seq_pre";
        }
        1 => {
            let e = signers[rng.below(signers.len())].entity.clone();
            gen_bad_signatures(rng, &mut obj, &e);
            expect = "E?";
            cls = "seq_badshape";
        }
        _ => {}
    }
    let keys = keymap_of(&signers);
    let msg = ref_signed_bytes(&obj);
    let mut t = Tables::default();
    for s in &signers {
        t.add_sign(&s.seed, &msg);
    }
    // final object, computed without sign_json, to know which verdicts verification will need
    let mut fin = Some(obj.clone());
    for s in &signers {
        fin = fin.and_then(|o| ref_sign(&o, &s.entity, &key_pair(&s.seed, &s.version)));
    }
    if let Some(fin) = &fin {
        t.add_for_verify(&keys, fin);
    }
    let mut r = format!("c02.seq {} {expect} {} {}", t.toks(), cj_obj_toks(&obj), signers.len());
    for s in &signers {
        r.push_str(&format!(" {} {} {}", stok(&s.entity), stok(&s.version), htok(&s.seed)));
    }
    r.push(' ');
    r.push_str(&keymap_toks(&keys));
    Req::new(r, cls)
}

fn verify_req(keys: &PublicKeyMap, obj: &Obj, expect: &str, cls: &str) -> Req {
    let mut t = Tables::default();
    t.add_for_verify(keys, obj);
    Req::new(format!("c02.verify {} {expect} {} {}", t.toks(), keymap_toks(keys), cj_obj_toks(obj)), cls)
}

/// Change one leaf / one field of a value. Returns false if nothing could be changed.
fn tamper_value(rng: &mut Rng, v: &mut Val) -> bool {
    match v {
        Val::Null => {
            *v = Val::Bool(false);
            true
        }
        Val::Bool(b) => {
            *b = !*b;
            true
        }
        Val::Integer(i) => {
            let n = i64::from(*i);
            let m = if n >= 9007199254740991 { n - 1 } else { n + 1 };
            *v = to_val(serde_json::json!(m));
            true
        }
        Val::String(s) => {
            // single-bit change that keeps the text valid UTF-8: flip bit 0 of an ASCII byte
            let idx: Vec<usize> = s.bytes().enumerate().filter(|(_, b)| *b >= 0x20 && *b < 0x7f).map(|(i, _)| i).collect();
            if idx.is_empty() {
                s.push('x');
            } else {
                let i = *rng.pick(&idx);
                let mut b = std::mem::take(s).into_bytes();
                b[i] ^= 1;
                *s = String::from_utf8(b).expect("ascii flip");
            }
            true
        }
        Val::Array(a) => {
            if a.is_empty() || rng.chance(1, 4) {
                a.push(Val::Null);
                true
            } else {
                let i = rng.below(a.len());
                tamper_value(rng, &mut a[i])
            }
        }
        Val::Object(o) => tamper_object(rng, o, &[]),
    }
}

fn tamper_object(rng: &mut Rng, o: &mut Obj, skip: &[&str]) -> bool {
    let ks: Vec<String> = o.keys().filter(|k| !skip.contains(&k.as_str())).cloned().collect();
    if ks.is_empty() || rng.chance(1, 5) {
        let mut k = String::from("zz_added");
        while o.contains_key(&k) {
            k.push('_');
        }
        o.insert(k, Val::Integer(0.into()));
        return true;
    }
    let k = rng.pick(&ks).clone();
    match rng.below(4) {
        0 => {
            o.remove(&k);
            true
        }
        1 => {
            // rename the field
            let v = o.remove(&k).unwrap();
            let mut nk = format!("{k}x");
            while o.contains_key(&nk) || skip.contains(&nk.as_str()) {
                nk.push('x');
            }
            o.insert(nk, v);
            true
        }
        _ => tamper_value(rng, o.get_mut(&k).unwrap()),
    }
}

fn gen_verify(rng: &mut Rng) -> Vec<Req> {
    let mut out = Vec::new();
    let mut base = gen_content(rng);
    gen_unsigned(rng, &mut base);
    let signers = gen_signers(rng, 4);
    let keys = keymap_of(&signers);
    let mut signed = ref_sign_all(&base, &signers);
    // optionally: signatures by unsupported algorithms / unparsable key ids next to the valid ones
    if rng.chance(1, 3) {
        if let Some(Val::Object(sigs)) = signed.get_mut("signatures") {
            let ents: Vec<String> = sigs.keys().cloned().collect();
            let e = rng.pick(&ents).clone();
            if let Some(Val::Object(set)) = sigs.get_mut(&e) {
                set.insert((*rng.pick(OTHER_KEY_IDS)).to_owned(), junk_sig(rng));
            }
        }
    }
    let sigs_of = |o: &Obj| match o.get("signatures") {
        Some(Val::Object(s)) => s.clone(),
        _ => Obj::new(),
    };
    // the last signer per (entity, key id) is the one whose signature and key are current
    let pick_current = |rng: &mut Rng| -> (String, String) {
        let s = &signers[rng.below(signers.len())];
        (s.entity.clone(), format!("ed25519:{}", s.version))
    };
    match rng.below(16) {
        0 | 1 => out.push(verify_req(&keys, &signed, "Eok", "verify_valid")),
        2 => {
            // changes confined to `unsigned`
            let mut o = signed.clone();
            match rng.below(3) {
                0 => {
                    o.remove("unsigned");
                    o.insert("unsigned".into(), to_val(gen_canonical_value(rng, 2)));
                }
                1 => {
                    o.remove("unsigned");
                }
                _ => match o.get_mut("unsigned") {
                    Some(u) => {
                        tamper_value(rng, u);
                    }
                    None => {
                        o.insert("unsigned".into(), Val::Object(Obj::new()));
                    }
                },
            }
            out.push(verify_req(&keys, &o, "Eok", "verify_unsigned_changed"));
        }
        3 => {
            // extra keys / extra entities in the key map do not matter
            let mut k = keys.clone();
            k.entry("extra.example".into()).or_default().insert("ed25519:1".into(), Base64::new(seed(rng)));
            let (e, _) = pick_current(rng);
            k.get_mut(&e).unwrap().insert("ed25519:unused".into(), Base64::new(seed(rng)));
            out.push(verify_req(&k, &signed, "Eok", "verify_extra_keys"));
        }
        4 | 5 | 6 => {
            // single-field / single-bit tampering of signed content
            let mut o = signed.clone();
            tamper_object(rng, &mut o, &["signatures", "unsigned"]);
            let e = if ref_signed_bytes(&o) != ref_signed_bytes(&signed) { "Eerr" } else { "E?" };
            out.push(verify_req(&keys, &o, e, "tamper_content"));
        }
        7 | 8 => {
            // one bit of one signature
            let mut o = signed.clone();
            let (e, kid) = pick_current(rng);
            if let Some(Val::Object(sigs)) = o.get_mut("signatures") {
                if let Some(Val::Object(set)) = sigs.get_mut(&e) {
                    if let Some(Val::String(s)) = set.get(&kid) {
                        let mut raw = Base64::<Standard>::parse(s).unwrap().into_inner();
                        let bit = rng.below(raw.len() * 8);
                        raw[bit / 8] ^= 1 << (bit % 8);
                        set.insert(kid.clone(), Val::String(ref_b64(&raw)));
                    }
                }
            }
            out.push(verify_req(&keys, &o, "Eerr", "tamper_signature"));
        }
        9 => {
            // one bit of one public key
            let mut k = keys.clone();
            let (e, kid) = pick_current(rng);
            let mut pk = k[&e][&kid].as_bytes().to_vec();
            let bit = rng.below(pk.len() * 8);
            pk[bit / 8] ^= 1 << (bit % 8);
            k.get_mut(&e).unwrap().insert(kid, Base64::new(pk));
            out.push(verify_req(&k, &signed, "Eerr", "tamper_key"));
        }
        10 => {
            // wrong-length key or signature; a different (valid) key
            let (e, kid) = pick_current(rng);
            match rng.below(4) {
                0 => {
                    let mut k = keys.clone();
                    let mut pk = k[&e][&kid].as_bytes().to_vec();
                    if rng.chance(1, 2) {
                        pk.pop();
                    } else {
                        pk.push(0);
                    }
                    k.get_mut(&e).unwrap().insert(kid, Base64::new(pk));
                    out.push(verify_req(&k, &signed, "Eerr", "wrong_length_key"));
                }
                1 => {
                    let mut k = keys.clone();
                    let other = key_pair(&seed(rng), "x").public_key().to_vec();
                    k.get_mut(&e).unwrap().insert(kid, Base64::new(other));
                    out.push(verify_req(&k, &signed, "Eerr", "other_key"));
                }
                _ => {
                    let mut o = signed.clone();
                    if let Some(Val::Object(sigs)) = o.get_mut("signatures") {
                        if let Some(Val::Object(set)) = sigs.get_mut(&e) {
                            if let Some(Val::String(s)) = set.get(&kid) {
                                let mut raw = Base64::<Standard>::parse(s).unwrap().into_inner();
                                match rng.below(3) {
                                    0 => {
                                        raw.pop();
                                    }
                                    1 => raw.push(0),
                                    _ => raw.clear(),
                                }
                                set.insert(kid.clone(), Val::String(ref_b64(&raw)));
                            }
                        }
                    }
                    out.push(verify_req(&keys, &o, "Eerr", "wrong_length_signature"));
                }
            }
        }
        11 => {
            // key map lacks the entity / lacks the key id of one of several signatures
            let mut k = keys.clone();
            let (e, kid) = pick_current(rng);
            if rng.chance(1, 2) {
                k.remove(&e);
            } else {
                k.get_mut(&e).unwrap().remove(&kid);
            }
            out.push(verify_req(&k, &signed, "Eerr", "missing_key"));
        }
        12 => {
            // an additional entity / an additional ed25519 key id without a valid signature
            let mut o = signed.clone();
            let mut sigs = sigs_of(&o);
            let mut k = keys.clone();
            match rng.below(4) {
                0 => {
                    // entity with only unsupported-algorithm signatures (keys present)
                    let mut set = Obj::new();
                    let kid = *rng.pick(OTHER_KEY_IDS);
                    set.insert(kid.to_owned(), Val::String(ref_b64(&seed(rng).repeat(2))));
                    sigs.insert("only-unsupported.example".into(), Val::Object(set));
                    k.entry("only-unsupported.example".into()).or_default().insert(kid.to_owned(), Base64::new(seed(rng)));
                }
                1 => {
                    // entity with an empty signature set
                    sigs.insert("zz-empty.example".into(), Val::Object(Obj::new()));
                    k.entry("zz-empty.example".into()).or_default();
                }
                2 => {
                    // second ed25519 signature of a signing entity whose key is not in the map
                    let (e, _) = pick_current(rng);
                    if let Some(Val::Object(set)) = sigs.get_mut(&e) {
                        set.insert("ed25519:zz_nokey".into(), Val::String(ref_b64(&seed(rng).repeat(2))));
                    }
                }
                _ => {
                    // a last entity (sorts after the others) with a forged signature and a real key
                    let mut set = Obj::new();
                    set.insert("ed25519:1".into(), Val::String(ref_b64(&seed(rng).repeat(2))));
                    sigs.insert("zzz.example".into(), Val::Object(set));
                    k.entry("zzz.example".into())
                        .or_default()
                        .insert("ed25519:1".into(), Base64::new(key_pair(&seed(rng), "1").public_key().to_vec()));
                }
            }
            o.insert("signatures".into(), Val::Object(sigs));
            out.push(verify_req(&k, &o, "Eerr", "unsigned_entity"));
        }
        13 => {
            // malformed shapes
            let mut o = signed.clone();
            let (e, kid) = pick_current(rng);
            let mut sigs = sigs_of(&o);
            match rng.below(6) {
                0 => {
                    o.insert("signatures".into(), to_val(gen_canonical_value(rng, 0)));
                }
                1 => {
                    o.remove("signatures");
                }
                2 => {
                    sigs.insert(e, to_val(gen_canonical_value(rng, 0)));
                    o.insert("signatures".into(), Val::Object(sigs));
                }
                3 => {
                    if let Some(Val::Object(set)) = sigs.get_mut(&e) {
                        set.insert(kid, to_val(serde_json::json!({"sig": 1})));
                    }
                    o.insert("signatures".into(), Val::Object(sigs));
                }
                4 => {
                    if let Some(Val::Object(set)) = sigs.get_mut(&e) {
                        let bad = *rng.pick(&["!!!!", "A", "AAAAA", "=AAA", "AA=A", "A===", "é", "AAA-", "AAA_", "AA AA"]);
                        set.insert(kid, Val::String(bad.into()));
                    }
                    o.insert("signatures".into(), Val::Object(sigs));
                }
                _ => {
                    o.insert("signatures".into(), Val::Object(Obj::new()));
                    out.push(verify_req(&keys, &o, "E?", "empty_signatures"));
                    return out;
                }
            }
            out.push(verify_req(&keys, &o, "Eerr", "bad_shape"));
        }
        14 => {
            // other encodings of the SAME signature bytes (padding, trailing bits): decoded value is
            // unchanged, so the object is still accepted (documented upstream; compared with the model)
            let mut o = signed.clone();
            let (e, kid) = pick_current(rng);
            if let Some(Val::Object(sigs)) = o.get_mut("signatures") {
                if let Some(Val::Object(set)) = sigs.get_mut(&e) {
                    if let Some(Val::String(s)) = set.get(&kid) {
                        let mut s = s.clone();
                        match rng.below(3) {
                            0 => s.push_str("=="),
                            1 => s.push('='),
                            _ => {
                                // 64 bytes → 86 symbols, the last one carries 4 unused bits
                                let last = s.pop().unwrap();
                                const A: &[u8; 64] = b"ABCDEFGHIJKLMNOPQRSTUVWXYZabcdefghijklmnopqrstuvwxyz0123456789+/";
                                let i = A.iter().position(|c| *c as char == last).unwrap();
                                s.push(A[(i & 0x30) | (1 + rng.below(15))] as char);
                            }
                        }
                        set.insert(kid.clone(), Val::String(s));
                    }
                }
            }
            out.push(verify_req(&keys, &o, "Eok", "same_signature_other_encoding"));
        }
        _ => {
            // several entities, exactly one of them (any position) tampered
            let mut o = signed.clone();
            let ents: Vec<String> = sigs_of(&o).keys().cloned().collect();
            let e = rng.pick(&ents).clone();
            if let Some(Val::Object(sigs)) = o.get_mut("signatures") {
                if let Some(Val::Object(set)) = sigs.get_mut(&e) {
                    let kids: Vec<String> = set.keys().filter(|k| k.starts_with("ed25519:")).cloned().collect();
                    let kid = rng.pick(&kids).clone();
                    if let Some(Val::String(s)) = set.get(&kid) {
                        if let Ok(raw) = Base64::<Standard>::parse(s) {
                            let mut raw = raw.into_inner();
                            if !raw.is_empty() {
                                let i = rng.below(raw.len());
                                raw[i] ^= 0x10;
                            }
                            set.insert(kid, Val::String(ref_b64(&raw)));
                        }
                    }
                }
            }
            out.push(verify_req(&keys, &o, "Eerr", "tamper_one_entity"));
        }
    }
    out
}

fn gen_bytes(rng: &mut Rng) -> Req {
    let sd = seed(rng);
    let kp = key_pair(&sd, "1");
    let msg: Vec<u8> = (0..rng.below(40)).map(|_| rng.below(256) as u8).collect();
    let mut pk = kp.public_key().to_vec();
    let mut sig = kp.sign(&msg).as_bytes().to_vec();
    let mut m = msg.clone();
    let mut alg = "ed25519";
    match rng.below(8) {
        0 | 1 => {}
        2 => {
            let b = rng.below(512);
            sig[b / 8] ^= 1 << (b % 8);
        }
        3 => {
            let b = rng.below(256);
            pk[b / 8] ^= 1 << (b % 8);
        }
        4 => m.push(1),
        5 => alg = *rng.pick(&["rsa", "", "ED25519", "ed25519 ", "curve25519"]),
        6 => {
            sig.truncate(rng.below(64));
        }
        _ => {
            pk.truncate(rng.below(32));
        }
    }
    let mut t = Tables::default();
    t.add_verify(&pk, &m, &sig);
    Req::new(format!("c02.bytes {} {} {} {} {}", t.toks(), stok(alg), htok(&pk), htok(&sig), htok(&m)), "bytes")
}

fn gen_b64(rng: &mut Rng) -> Vec<Req> {
    let n = match rng.below(4) {
        0 => rng.below(8),
        1 => 64,
        2 => 32,
        _ => rng.below(70),
    };
    let b: Vec<u8> = (0..n).map(|_| if rng.chance(1, 5) { *rng.pick(&[0u8, 255, 251, 63, 62]) } else { rng.below(256) as u8 }).collect();
    let mut out = vec![Req::new(format!("c02.b64 {}", htok(&b)), "b64")];
    // decoding: valid, padded, trailing bits, and broken texts
    let mut s = ref_b64(&b);
    match rng.below(8) {
        0 => {}
        1 => {
            while s.len() % 4 != 0 {
                s.push('=');
            }
        }
        2 => s.push('='),
        3 => {
            if !s.is_empty() {
                let i = rng.below(s.len());
                let c = *rng.pick(&['!', '-', '_', '=', ' ', 'é', '\n', '.']);
                s.replace_range(i..i + 1, &c.to_string());
            }
        }
        4 => {
            s.push(*rng.pick(&['A', 'Q', '/', '+', 'z', '9']));
        }
        5 => {
            if !s.is_empty() {
                s.pop();
            }
        }
        6 => {
            let i = rng.below(s.len() + 1);
            s.insert(i, '=');
        }
        _ => {
            const A: &[u8] = b"ABCDwxyz0189+/=";
            s = (0..rng.below(10)).map(|_| *rng.pick(A) as char).collect();
        }
    }
    out.push(Req::new(format!("c02.unb64 {}", stok(&s)), "unb64"));
    out
}

const RFC8032: &[[&str; 4]] = &[
    [
        "9d61b19deffd5a60ba844af492ec2cc44449c5697b326919703bac031cae7f60",
        "d75a980182b10ab7d54bfed3c964073a0ee172f3daa62325af021a68f707511a",
        "",
        "e5564300c360ac729086e2cc806e828a84877f1eb8e5d974d873e065224901555fb8821590a33bacc61e39701cf9b46bd25bf5f0595bbe24655141438e7a100b",
    ],
    [
        "4ccd089b28ff96da9db6c346ec114e0f5b8a319f35aba624da8cf6ed4fb8a6fb",
        "3d4017c3e843895a92b70aa74d1b7ebc9c982ccf2ec4968cc0cd55f12af4660c",
        "72",
        "92a009a9f0d4cab8720e820b5f642540a2b27b5416503f8fb3762223ebdb69da085ac1e43e15996e458f3613d0f11d8c387b2eaeb4302aeeb00d291612bb0c00",
    ],
    [
        "c5aa8df43f9f837bedb7442f31dcb7b166d38535076f094b85ce3a2e0b4458f7",
        "fc51cd8e6218a1a38da47ed00230f0580816ed13ba3303ac5deb911548908025",
        "af82",
        "6291d657deec24024827e69c3abe01a30ce548a284743a445e3680d7db5ac3ac18ff9b538d16f290ae67f760984dc6594a7c15e9716ed28dc027beceea1ec40a",
    ],
    [
        "833fe62409237b9d62ec77587520911e9a759cec1d19755b7da901b96dca3d42",
        "ec172b93ad5e563bf4932c70e1245034c35467ef2efd4d64ebf819683467e2bf",
        "ddaf35a193617abacc417349ae20413112e6fa4e89a97ea20a9eeee64b55d39a2192992a274fc1a836ba3c23a3feebbd454d4423643ce80e2a9ac94fa54ca49f",
        "dc2a4459e7369633a52b1bf277839a00201009a3efbf3ecb69bea2186c26b58909351fc9ac90b3ecfdfbc7c66431e0303dca179c138ac17ad9bef1177331a704",
    ],
];

fn gen(rng: &mut Rng, n: usize, _tier: &str) -> Vec<Req> {
    let mut reqs = Vec::new();
    for v in RFC8032 {
        reqs.push(Req::new(format!("c02.rfc h{} h{} h{} h{}", v[0], v[1], v[2], v[3]), "rfc8032"));
    }
    for len in [65_535usize, 65_536, 65_537, 70_001] {
        let mut r = gen_seq_of(rng, big_object(len));
        r.cls = format!("{}_big", r.cls);
        reqs.push(r);
    }
    while reqs.len() < n + RFC8032.len() + 4 {
        match rng.below(20) {
            0..=4 => reqs.push(gen_sign(rng)),
            5..=7 => reqs.push(gen_seq(rng)),
            8..=15 => reqs.extend(gen_verify(rng)),
            16 => reqs.push(gen_bytes(rng)),
            17 | 18 => reqs.extend(gen_b64(rng)),
            _ => {
                let mut o = gen_content(rng);
                gen_unsigned(rng, &mut o);
                if rng.chance(1, 2) {
                    gen_pre_signatures(rng, &mut o);
                }
                reqs.push(Req::new(format!("c02.canon {}", cj_obj_toks(&o)), "canon"));
            }
        }
    }
    reqs
}

fn main() {
    h_lib::std_main(None, &gen, &run);
}
