//! C19 — string-valued protocol enums are lossless and forward compatible.
//!
//! Requests (`<E>` = enum name as in `Spec/StringEnum.lean`, strings are `s<hex>` tokens):
//!   `c19.cell <E> <s>`      → `<d>`; answered by the SPEC side of the driver. One cell of the
//!                             string → variant table: every specified spelling, declared alias and
//!                             near-miss, through the real `From<&str>`.
//!   `c19.pair <E> <s> <t>`  → `<eq> <ord>`; SPEC side. Every pair of specified strings through the
//!                             real `PartialEq` / `Ord` (this is what detects a structural `Ord`).
//!   `c19.conv <E> <s>`      → `ok <d from(s)> <d deserialize(json s)> <d from(str(from s))> <ser>`
//!   `c19.de <E> <json tok>` → `ok <d>` / `err` (non-string JSON must be a type error)
//!   `c19.cmp <E> <s> <t>`   → `ok <eq> <ord>`; model side, random strings.
//! `<d>` describes a value: `k:<Variant>:<hex str>` known unit variant, `w:<Variant>:<hex suffix>:<hex
//! str>` wildcard variant, `c:<hex str>` the hidden custom variant. `<eq>` is `t`/`f`/`-` (no
//! `PartialEq`), `<ord>` is `lt`/`eq`/`gt`/`-` (no `Ord`).
use std::{cmp::Ordering, collections::BTreeMap, fmt::Write as _};

use h_lib::{
    h_util::{self, hex, unhex_str},
    stok, Outcome, Req, Rng,
};

mod spec;
use spec::{Expect, Kind, SpecEnum};

#[derive(Clone, PartialEq, Eq, Debug)]
pub enum Var {
    Unit(&'static str),
    Frag(&'static str, String),
    Custom,
}

/// Everything the harness observes of one string enum type, through its public API only.
pub trait StrEnum:
    Sized + Clone + std::fmt::Debug + std::fmt::Display + serde::Serialize + serde::de::DeserializeOwned
{
    fn conv(s: &str) -> Self;
    fn conv_owned(s: String) -> Self;
    /// Which variant this is, by pattern matching (not by `PartialEq`, which may be string based).
    fn var(&self) -> Var;
    /// Every public string view other than `Display`/`Debug`.
    fn views(&self) -> Vec<(&'static str, String)>;
    fn eq_(&self, other: &Self) -> Option<(bool, bool)>;
    fn cmp_(&self, other: &Self) -> Option<(Ordering, Option<Ordering>, [bool; 4])>;
}

macro_rules! eq_impl {
    (yes) => {
        fn eq_(&self, other: &Self) -> Option<(bool, bool)> {
            Some((self == other, self != other))
        }
    };
    (no) => {
        fn eq_(&self, _other: &Self) -> Option<(bool, bool)> {
            None
        }
    };
}

macro_rules! ord_impl {
    (yes) => {
        fn cmp_(&self, other: &Self) -> Option<(Ordering, Option<Ordering>, [bool; 4])> {
            Some((
                Ord::cmp(self, other),
                PartialOrd::partial_cmp(self, other),
                [self < other, self <= other, self > other, self >= other],
            ))
        }
    };
    (no) => {
        fn cmp_(&self, _other: &Self) -> Option<(Ordering, Option<Ordering>, [bool; 4])> {
            None
        }
    };
}

macro_rules! flag {
    (yes) => {
        true
    };
    (no) => {
        false
    };
}

macro_rules! one_enum {
    (string($label:literal, $path:path, eq = $eq:tt, ord = $ord:tt, [$($v:ident),*])) => {
        impl StrEnum for $path {
            fn conv(s: &str) -> Self {
                <Self as From<&str>>::from(s)
            }
            fn conv_owned(s: String) -> Self {
                <Self as From<String>>::from(s)
            }
            #[allow(deprecated, unreachable_patterns)]
            fn var(&self) -> Var {
                use $path as E;
                match self {
                    $( E::$v => Var::Unit(stringify!($v)), )*
                    E::_Custom(_) => Var::Custom,
                    _ => Var::Unit("?unlisted"),
                }
            }
            fn views(&self) -> Vec<(&'static str, String)> {
                vec![
                    ("as_str", self.as_str().to_owned()),
                    ("as_ref", <Self as AsRef<str>>::as_ref(self).to_owned()),
                ]
            }
            eq_impl!($eq);
            ord_impl!($ord);
        }
    };
    (event($label:literal, $path:path, [$($v:ident),*], [$($f:ident),*])) => {
        impl StrEnum for $path {
            fn conv(s: &str) -> Self {
                <Self as From<&str>>::from(s)
            }
            fn conv_owned(s: String) -> Self {
                <Self as From<String>>::from(s)
            }
            #[allow(deprecated, unreachable_patterns)]
            fn var(&self) -> Var {
                use $path as E;
                match self {
                    $( E::$v => Var::Unit(stringify!($v)), )*
                    $( E::$f(suffix) => Var::Frag(stringify!($f), suffix.clone()), )*
                    E::_Custom(_) => Var::Custom,
                    _ => Var::Unit("?unlisted"),
                }
            }
            fn views(&self) -> Vec<(&'static str, String)> {
                vec![]
            }
            eq_impl!(yes);
            ord_impl!(yes);
        }
    };
}

macro_rules! ops_of {
    (string($label:literal, $path:path, eq = $eq:tt, ord = $ord:tt, [$($v:ident),*])) => {
        EnumOps {
            name: $label,
            has_eq: flag!($eq),
            has_ord: flag!($ord),
            observe: observe::<$path>,
            conv: run_conv::<$path>,
            de: run_de::<$path>,
            cmp: run_cmp::<$path>,
        }
    };
    (event($label:literal, $path:path, [$($v:ident),*], [$($f:ident),*])) => {
        EnumOps {
            name: $label,
            has_eq: true,
            has_ord: true,
            observe: observe::<$path>,
            conv: run_conv::<$path>,
            de: run_de::<$path>,
            cmp: run_cmp::<$path>,
        }
    };
}

macro_rules! all_enums {
    ($( $kind:ident $args:tt ; )*) => {
        $( one_enum!($kind $args); )*
        pub fn registry() -> Vec<EnumOps> {
            vec![ $( ops_of!($kind $args) ),* ]
        }
    };
}

/// Type-erased operations on one enum type.
pub struct EnumOps {
    pub name: &'static str,
    pub has_eq: bool,
    pub has_ord: bool,
    pub observe: fn(&str) -> Obs,
    pub conv: fn(&SpecEnum, &str) -> Outcome,
    pub de: fn(&str) -> Outcome,
    pub cmp: fn(&str, &str) -> CmpObs,
}

include!("enums.rs");

/// One converted value as seen through the public API.
pub struct Obs {
    pub var: Var,
    pub text: String,
    pub problems: Vec<String>,
}

impl Obs {
    fn describe(&self) -> String {
        match &self.var {
            Var::Unit(l) => format!("k:{l}:{}", hex(self.text.as_bytes())),
            Var::Frag(l, suf) => format!("w:{l}:{}:{}", hex(suf.as_bytes()), hex(self.text.as_bytes())),
            Var::Custom => format!("c:{}", hex(self.text.as_bytes())),
        }
    }
}

fn look<T: StrEnum>(v: &T) -> Obs {
    let text = v.to_string();
    let mut problems = Vec::new();
    for (name, s) in v.views() {
        if s != text {
            problems.push(format!("{name}() = {s:?} but to_string() = {text:?}"));
        }
    }
    let dbg = format!("{v:?}");
    if dbg != format!("{text:?}") {
        problems.push(format!("Debug prints {dbg} but to_string() = {text:?}"));
    }
    Obs { var: v.var(), text, problems }
}

fn observe<T: StrEnum>(s: &str) -> Obs {
    look(&T::conv(s))
}

/// T3, independent of the Lean model: the real conversion against what the specification says.
fn check_expect(sp: &SpecEnum, s: &str, o: &Obs, t3: &mut Vec<String>) {
    let (want, canon) = sp.expect(s);
    let ok = match (&want, &o.var) {
        (Expect::Unit(a), Var::Unit(b)) => a == b,
        (Expect::Frag(a, x), Var::Frag(b, y)) => a == b && x == y,
        (Expect::Custom, Var::Custom) => true,
        _ => false,
    };
    if !ok {
        t3.push(format!("{}::from({s:?}) is {:?}, the specification says {want:?}", sp.name, o.var));
    }
    if o.text != canon {
        t3.push(format!(
            "{}::from({s:?}) is written {:?}, expected {canon:?} (string round trip)",
            sp.name, o.text
        ));
    }
    t3.extend(o.problems.iter().map(|p| format!("{}::from({s:?}): {p}", sp.name)));
}

fn same(a: &Obs, b: &Obs) -> bool {
    a.var == b.var && a.text == b.text
}

fn run_conv<T: StrEnum>(sp: &SpecEnum, s: &str) -> Outcome {
    let mut t3 = Vec::new();
    let v = T::conv(s);
    let o = look(&v);
    check_expect(sp, s, &o, &mut t3);
    // From<String> agrees with From<&str>
    let o2 = look(&T::conv_owned(s.to_owned()));
    if !same(&o, &o2) {
        t3.push(format!("{}: From<String> gives {} but From<&str> gives {}", sp.name, o2.describe(), o.describe()));
    }
    // conversion is idempotent
    let idem = look(&T::conv(&o.text));
    if !same(&o, &idem) {
        t3.push(format!(
            "{}: converting {s:?} gives {}, converting its string form again gives {}",
            sp.name,
            o.describe(),
            idem.describe()
        ));
    }
    // JSON agrees with string conversion
    let json_in = serde_json::to_string(s).expect("string to JSON");
    let de = match serde_json::from_str::<T>(&json_in) {
        Ok(d) => {
            let od = look(&d);
            if !same(&o, &od) {
                t3.push(format!("{}: deserializing {json_in} gives {} but From gives {}", sp.name, od.describe(), o.describe()));
            }
            od.describe()
        }
        Err(_) => {
            t3.push(format!("{}: deserializing the JSON string {json_in} failed", sp.name));
            "err".to_owned()
        }
    };
    match serde_json::from_value::<T>(serde_json::Value::String(s.to_owned())) {
        Ok(d) => {
            if !same(&o, &look(&d)) {
                t3.push(format!("{}: from_value and from_str disagree on {json_in}", sp.name));
            }
        }
        Err(_) => t3.push(format!("{}: from_value failed on the string {json_in}", sp.name)),
    }
    let ser = match serde_json::to_value(&v) {
        Ok(serde_json::Value::String(x)) => {
            if x != o.text {
                t3.push(format!("{}: serializes as {x:?} but is written {:?}", sp.name, o.text));
            }
            match serde_json::from_value::<T>(serde_json::Value::String(x.clone())) {
                Ok(back) => {
                    if !same(&o, &look(&back)) {
                        t3.push(format!("{}: JSON round trip of from({s:?}) changes the value", sp.name));
                    }
                }
                Err(_) => t3.push(format!("{}: own serialization {x:?} does not deserialize", sp.name)),
            }
            stok(&x)
        }
        Ok(other) => {
            t3.push(format!("{}: serializes as non-string {other}", sp.name));
            h_util::jtoks(&other)
        }
        Err(_) => {
            t3.push(format!("{}: serialization failed", sp.name));
            "err".to_owned()
        }
    };
    Outcome { imp: format!("ok {} {de} {} {ser}", o.describe(), idem.describe()), t3 }
}

fn run_de<T: StrEnum>(json: &str) -> Outcome {
    match serde_json::from_str::<T>(json) {
        Ok(v) => Outcome::new(format!("ok {}", look(&v).describe())),
        Err(_) => Outcome::new("err"),
    }
}

pub struct CmpObs {
    pub eq: Option<bool>,
    pub ord: Option<Ordering>,
    pub a: String,
    pub b: String,
    pub problems: Vec<String>,
}

fn run_cmp<T: StrEnum>(s: &str, t: &str) -> CmpObs {
    let (a, b) = (T::conv(s), T::conv(t));
    let (sa, sb) = (a.to_string(), b.to_string());
    let mut problems = Vec::new();
    let eq = a.eq_(&b).map(|(e, ne)| {
        if e == ne {
            problems.push(format!("== and != both give {e}"));
        }
        if b.eq_(&a).map(|x| x.0) != Some(e) {
            problems.push("== is not symmetric".to_owned());
        }
        if e != (sa == sb) {
            problems.push(format!("from({s:?}) == from({t:?}) is {e} but the string forms {sa:?}, {sb:?} compare {}", sa == sb));
        }
        e
    });
    let ord = a.cmp_(&b).map(|(c, pc, ops)| {
        if pc != Some(c) {
            problems.push(format!("cmp gives {c:?} but partial_cmp gives {pc:?}"));
        }
        let want = [c == Ordering::Less, c != Ordering::Greater, c == Ordering::Greater, c != Ordering::Less];
        if ops != want {
            problems.push(format!("operators < <= > >= give {ops:?} but cmp gives {c:?}"));
        }
        if b.cmp_(&a).map(|x| x.0) != Some(c.reverse()) {
            problems.push("cmp is not antisymmetric".to_owned());
        }
        let sc = sa.as_bytes().cmp(sb.as_bytes());
        if c != sc {
            problems.push(format!(
                "from({s:?}).cmp(from({t:?})) is {c:?} but the string forms {sa:?}, {sb:?} compare {sc:?}"
            ));
        }
        if let Some(e) = eq {
            if e != (c == Ordering::Equal) {
                problems.push(format!("== is {e} but cmp is {c:?}"));
            }
        }
        c
    });
    CmpObs { eq, ord, a: sa, b: sb, problems }
}

fn cmp_answer(c: &CmpObs) -> String {
    let e = match c.eq {
        Some(true) => "t",
        Some(false) => "f",
        None => "-",
    };
    let o = match c.ord {
        Some(Ordering::Less) => "lt",
        Some(Ordering::Equal) => "eq",
        Some(Ordering::Greater) => "gt",
        None => "-",
    };
    format!("{e} {o}")
}

// ------------------------------------------------------------------------------------------------

struct World {
    ops: Vec<EnumOps>,
    spec: Vec<SpecEnum>,
}

fn world() -> World {
    let ops = registry();
    let spec = spec::parse();
    let a: Vec<&str> = ops.iter().map(|o| o.name).collect();
    let b: Vec<&str> = spec.iter().map(|s| s.name.as_str()).collect();
    assert_eq!(a, b, "harness enum list and Spec/StringEnum.lean list different enums (or in a different order)");
    World { ops, spec }
}

impl World {
    fn find(&self, name: &str) -> Option<(&EnumOps, &SpecEnum)> {
        let i = self.ops.iter().position(|o| o.name == name)?;
        Some((&self.ops[i], &self.spec[i]))
    }
}

fn snake(v: &str) -> String {
    let mut out = String::new();
    for (i, ch) in v.char_indices() {
        if i > 0 && ch.is_uppercase() {
            out.push('_');
        }
        out.push(ch.to_ascii_lowercase());
    }
    out
}

fn flip_case(c: char) -> char {
    if c.is_ascii_lowercase() {
        c.to_ascii_uppercase()
    } else {
        c.to_ascii_lowercase()
    }
}

/// Deterministic near-miss set of one specified string (T1 cells).
fn near_misses(s: &str, wild: bool) -> Vec<String> {
    let cs: Vec<char> = s.chars().collect();
    let mut v: Vec<String> = vec![s.to_uppercase(), s.to_lowercase()];
    for i in 0..cs.len() {
        // one character deleted / case flipped; every proper prefix
        let mut d = cs.clone();
        d.remove(i);
        v.push(d.into_iter().collect());
        if cs[i].is_ascii_alphabetic() {
            let mut f = cs.clone();
            f[i] = flip_case(f[i]);
            v.push(f.into_iter().collect());
        }
        v.push(cs[..i].iter().collect());
    }
    for extra in ["x", ".", ".x", " ", "*", "\u{0}", "é"] {
        v.push(format!("{s}{extra}"));
    }
    v.push(format!(" {s}"));
    v.push(format!("m.{s}"));
    v.push(s.replace('_', "-"));
    v.push(s.replace('_', "."));
    v.push(s.replace('.', "_"));
    v.push(s.replace('-', "_"));
    if wild {
        // the wildcard prefix with suffixes, incl. the empty one
        for suf in ["", "a", "abc.def", "*", ".", "..", "é", " ", "A"] {
            v.push(format!("{s}{suf}"));
        }
        // suffixes that themselves begin with (or are) the prefix: a conversion that strips the
        // prefix repeatedly, or searches for it instead of cutting it once, loses part of the suffix
        v.push(format!("{s}{s}"));
        v.push(format!("{s}{s}abc"));
        v.push(format!("{s}{s}{s}x"));
        v.push(format!("{s}x{s}"));
        v.push(format!("{s}{}", s.trim_end_matches('.')));
    }
    v
}

/// Spellings the rename rules of `case.rs` would produce from the variant identifier.
fn rule_variants(ident: &str) -> Vec<String> {
    let sn = snake(ident);
    vec![
        ident.to_owned(),
        ident.to_lowercase(),
        ident.to_uppercase(),
        ident[..1].to_lowercase() + &ident[1..],
        sn.clone(),
        sn.to_uppercase(),
        sn.replace('_', "-"),
        sn.to_uppercase().replace('_', "-"),
        format!("M_{}", sn.to_uppercase()),
        format!("m.{}", ident.to_lowercase()),
        format!("m.{sn}"),
        format!("m.{}", sn.replace('_', ".")),
        format!(".m.rule.{sn}"),
        format!("m.role.{sn}"),
    ]
}

fn cell_candidates(sp: &SpecEnum) -> Vec<(String, &'static str)> {
    let mut out: Vec<(String, &'static str)> = Vec::new();
    let mut seen = std::collections::BTreeSet::new();
    let mut push = |s: String, cls: &'static str, out: &mut Vec<(String, &'static str)>| {
        if seen.insert(s.clone()) {
            out.push((s, cls));
        }
    };
    // pass 1: the specified strings themselves, in the order of the specification
    for (e, (kind, text)) in sp.entries.iter().zip(sp.texts()) {
        let wild = e.text.ends_with(".*");
        let cls = match (kind, wild) {
            (_, true) => "cell.wildcard",
            (Kind::A, _) => "cell.alias",
            _ => "cell.spelling",
        };
        push(if wild { format!("{text}x") } else { text }, cls, &mut out);
    }
    // pass 2: their near-misses and what the other rename rules would have produced
    for (e, (kind, text)) in sp.entries.iter().zip(sp.texts()) {
        let wild = e.text.ends_with(".*");
        for n in near_misses(&text, wild) {
            push(n, if wild { "cell.wildnear" } else { "cell.near" }, &mut out);
        }
        if kind != Kind::A {
            for n in rule_variants(&e.variant) {
                push(n, "cell.rule", &mut out);
            }
        }
    }
    for s in ["", "m.", "m", ".", "*", "_Custom", "custom", "\u{feff}", "𝔪.room.message"] {
        push(s.to_owned(), "cell.misc", &mut out);
    }
    out
}

fn cell_requests(w: &World) -> Vec<Req> {
    let mut v = Vec::new();
    for sp in &w.spec {
        for (s, cls) in cell_candidates(sp) {
            v.push(Req::new(format!("c19.cell {} {}", sp.name, stok(&s)), cls));
        }
    }
    v
}

/// The strings every pair of which is compared: all specified strings plus a few customs.
fn pair_strings(sp: &SpecEnum) -> Vec<String> {
    let mut v: Vec<String> = Vec::new();
    for (e, (_, text)) in sp.entries.iter().zip(sp.texts()) {
        if e.text.ends_with(".*") {
            v.push(format!("{text}b"));
            v.push(format!("{text}a"));
            v.push(text);
        } else {
            v.push(text);
        }
    }
    v.extend(["".to_owned(), "a".to_owned(), "m.zzz".to_owned(), "zzzz".to_owned(), "M".to_owned()]);
    v
}

fn pair_requests(w: &World) -> Vec<Req> {
    let mut v = Vec::new();
    for (ops, sp) in w.ops.iter().zip(&w.spec) {
        if !ops.has_eq && !ops.has_ord {
            continue;
        }
        let ss = pair_strings(sp);
        for a in &ss {
            for b in &ss {
                v.push(Req::new(format!("c19.pair {} {} {}", sp.name, stok(a), stok(b)), "pair"));
            }
        }
    }
    v
}

const UNI: &[char] = &[
    'a', 'z', 'A', 'Z', '0', '9', '.', '_', '-', '*', ' ', '\t', '\n', '"', '\\', '/', '\u{0}', '\u{7f}', 'é',
    'ß', 'İ', 'ı', 'ǅ', 'Ω', 'я', '中', '\u{200b}', '\u{feff}', '\u{fffd}', '𝔪', '😀', '\u{10ffff}', 'm',
];

fn random_text(rng: &mut Rng) -> String {
    let n = match rng.below(8) {
        0 => 0,
        1 => 1,
        _ => rng.below(24),
    };
    (0..n).map(|_| *rng.pick(UNI)).collect()
}

fn mutate(rng: &mut Rng, s: &str) -> String {
    let mut cs: Vec<char> = s.chars().collect();
    match rng.below(9) {
        0 if !cs.is_empty() => {
            let i = rng.below(cs.len());
            cs.remove(i);
        }
        1 => {
            let i = rng.below(cs.len() + 1);
            cs.insert(i, *rng.pick(UNI));
        }
        2 if !cs.is_empty() => {
            let i = rng.below(cs.len());
            cs[i] = *rng.pick(UNI);
        }
        3 if cs.len() > 1 => {
            let i = rng.below(cs.len() - 1);
            cs.swap(i, i + 1);
        }
        4 if !cs.is_empty() => {
            let i = rng.below(cs.len());
            cs[i] = flip_case(cs[i]);
        }
        5 => {
            let k = rng.below(cs.len() + 1);
            cs.truncate(k);
        }
        6 => return s.to_uppercase(),
        7 => {
            for c in cs.iter_mut() {
                if rng.chance(1, 3) {
                    *c = flip_case(*c);
                }
            }
        }
        _ => cs.extend(random_text(rng).chars()),
    }
    cs.into_iter().collect()
}

/// One random string for enum `i`, with its class label.
fn random_string(rng: &mut Rng, w: &World, i: usize) -> (String, &'static str) {
    let sp = &w.spec[i];
    let texts = sp.texts();
    let wilds: Vec<&String> =
        sp.entries.iter().zip(&texts).filter(|(e, _)| e.text.ends_with(".*")).map(|(_, t)| &t.1).collect();
    match rng.below(12) {
        0 => (random_text(rng), "unicode"),
        1 => (String::new(), "empty"),
        2 | 3 => {
            let (k, t) = rng.pick(&texts).clone();
            (t, if k == Kind::A { "alias" } else { "spelling" })
        }
        4 if !wilds.is_empty() => {
            let p = (*rng.pick(&wilds)).clone();
            let suf = match rng.below(8) {
                0 => String::new(),
                1 => format!("{p}{}", random_text(rng)),
                2 => format!("{p}{p}"),
                _ => random_text(rng),
            };
            (format!("{p}{suf}"), "wildcard")
        }
        5 if !wilds.is_empty() => {
            let p = (*rng.pick(&wilds)).clone();
            (mutate(rng, &p) + &random_text(rng), "wildnear")
        }
        6 => {
            // a spelling of another enum
            let j = rng.below(w.spec.len());
            let t = w.spec[j].texts();
            (rng.pick(&t).1.clone(), "foreign")
        }
        7 => {
            let e = rng.pick(&sp.entries);
            (rng.pick(&rule_variants(&e.variant)).clone(), "rule")
        }
        8 => {
            let t = rng.pick(&texts).1.clone();
            let once = mutate(rng, &t);
            (mutate(rng, &once), "near2")
        }
        _ => {
            let t = rng.pick(&texts).1.clone();
            (mutate(rng, &t), "near")
        }
    }
}

const JSON_NON_STRINGS: &[&str] = &["n", "t", "f", "i0", "i1", "i-7", "x", "a0", "o0"];

fn random_requests(rng: &mut Rng, w: &World, n: usize) -> Vec<Req> {
    let mut v = Vec::new();
    for k in 0..n {
        // every enum gets its share; event-type enums (the last seven) a bit more
        let i = if rng.chance(1, 5) { w.spec.len() - 1 - rng.below(7) } else { k % w.spec.len() };
        let name = &w.spec[i].name;
        match rng.below(10) {
            0..=5 => {
                let (s, cls) = random_string(rng, w, i);
                v.push(Req::new(format!("c19.conv {name} {}", stok(&s)), format!("conv.{cls}")));
            }
            6 => {
                let tok = if rng.chance(1, 3) {
                    stok(&random_string(rng, w, i).0)
                } else if rng.chance(1, 4) {
                    format!("a1 {}", stok(&random_string(rng, w, i).0))
                } else {
                    (*rng.pick(JSON_NON_STRINGS)).to_owned()
                };
                v.push(Req::new(format!("c19.de {name} {tok}"), "de"));
            }
            _ => {
                let (a, _) = random_string(rng, w, i);
                let (b, cls) = if rng.chance(1, 4) { (mutate(rng, &a), "near") } else { random_string(rng, w, i) };
                v.push(Req::new(format!("c19.cmp {name} {} {}", stok(&a), stok(&b)), format!("cmp.{cls}")));
            }
        }
    }
    v
}

fn gen(rng: &mut Rng, n: usize, _tier: &str) -> Vec<Req> {
    let w = world();
    let mut reqs = cell_requests(&w);
    reqs.extend(pair_requests(&w));
    reqs.extend(random_requests(rng, &w, n));
    reqs
}

fn str_tok(t: &str) -> Option<String> {
    unhex_str(t.strip_prefix('s')?)
}

fn run(req: &str) -> Outcome {
    thread_local! { static W: World = world(); }
    W.with(|w| run_in(w, req))
}

fn run_in(w: &World, req: &str) -> Outcome {
    let toks: Vec<&str> = req.split(' ').collect();
    if toks.len() < 3 {
        return Outcome::bad();
    }
    let Some((ops, sp)) = w.find(toks[1]) else { return Outcome::bad() };
    match (toks[0], toks.len()) {
        ("c19.cell", 3) => {
            let Some(s) = str_tok(toks[2]) else { return Outcome::bad() };
            let o = (ops.observe)(&s);
            let mut t3 = Vec::new();
            check_expect(sp, &s, &o, &mut t3);
            Outcome { imp: o.describe(), t3 }
        }
        ("c19.conv", 3) => {
            let Some(s) = str_tok(toks[2]) else { return Outcome::bad() };
            (ops.conv)(sp, &s)
        }
        ("c19.de", _) => {
            let mut it = toks[2..].iter();
            let Some(v) = h_util::parse_tokens(&mut it) else { return Outcome::bad() };
            if it.next().is_some() {
                return Outcome::bad();
            }
            (ops.de)(&v.to_string())
        }
        ("c19.pair" | "c19.cmp", 4) => {
            let (Some(a), Some(b)) = (str_tok(toks[2]), str_tok(toks[3])) else { return Outcome::bad() };
            let c = (ops.cmp)(&a, &b);
            let ans = cmp_answer(&c);
            let t3 = c.problems.iter().map(|p| format!("{}: {p}", sp.name)).collect();
            Outcome { imp: if toks[0] == "c19.cmp" { format!("ok {ans}") } else { ans }, t3 }
        }
        _ => Outcome::bad(),
    }
}

// ------------------------------------------------------------------------------------------------
// T1: the tables, extracted from the running implementation.

fn lean_bytes(s: &str) -> String {
    let mut out = String::from("[");
    for (i, b) in s.bytes().enumerate() {
        if i > 0 {
            out.push(',');
        }
        write!(out, "{b}").unwrap();
    }
    out.push(']');
    out
}

struct XRow {
    label: &'static str,
    spelling: String,
    aliases: Vec<String>,
    wildcard: bool,
}

/// Convert every candidate through the real `From<&str>`; everything that lands in a non-custom
/// variant becomes (part of) a row: the row's spelling is what the value is written as, every other
/// string that reached the variant is an alias. Rows appear in order of first appearance.
fn extract_table(ops: &EnumOps, sp: &SpecEnum) -> Vec<XRow> {
    let mut rows: Vec<XRow> = Vec::new();
    for (s, _) in cell_candidates(sp) {
        let o = (ops.observe)(&s);
        let (label, wildcard, key, spelling) = match &o.var {
            Var::Custom => continue,
            Var::Unit(l) => (*l, false, s.clone(), o.text.clone()),
            Var::Frag(l, suf) => {
                // prefix that was matched / prefix that is written
                let key = s.strip_suffix(suf.as_str()).unwrap_or("?suffix-not-kept").to_owned();
                let sp_ = o.text.strip_suffix(suf.as_str()).unwrap_or("?suffix-not-kept").to_owned();
                (*l, true, key, sp_)
            }
        };
        let row = match rows.iter_mut().find(|r| r.label == label && r.wildcard == wildcard) {
            Some(r) => r,
            None => {
                rows.push(XRow { label, spelling: spelling.clone(), aliases: vec![], wildcard });
                rows.last_mut().unwrap()
            }
        };
        if spelling != row.spelling {
            // one variant written in two ways: keep both visible so that the Lean comparison fails
            row.aliases.push(format!("?written-as:{spelling}"));
        }
        if key != row.spelling && !row.aliases.contains(&key) {
            row.aliases.push(key);
        }
    }
    rows
}

/// Does the real `Ord` agree with the string form on every pair of specified strings?
fn ord_kind(ops: &EnumOps, sp: &SpecEnum) -> &'static str {
    if !ops.has_ord {
        return ".none";
    }
    let ss = pair_strings(sp);
    for a in &ss {
        for b in &ss {
            let c = (ops.cmp)(a, b);
            if c.ord != Some(c.a.as_bytes().cmp(c.b.as_bytes())) {
                return ".structural";
            }
        }
    }
    ".asRefStr"
}

fn extract() -> String {
    let w = world();
    let mut s = String::new();
    s.push_str("-- GENERATED by `h-c19 c19 extract` from the running implementation. Do not edit.\n");
    s.push_str("import RumaModel.Model.StringEnum\nnamespace Ruma.Generated.C19\nopen Ruma.StringEnum\n\n");
    let mut cells = 0usize;
    for (ops, sp) in w.ops.iter().zip(&w.spec) {
        let rows = extract_table(ops, sp);
        cells += cell_candidates(sp).len();
        writeln!(s, "def tbl_{} : Table := [", sp.name).unwrap();
        for (i, r) in rows.iter().enumerate() {
            let al: Vec<String> = r.aliases.iter().map(|a| lean_bytes(a)).collect();
            writeln!(
                s,
                "  ⟨\"{}\", {}, [{}], {}⟩{}",
                r.label,
                lean_bytes(&r.spelling),
                al.join(", "),
                r.wildcard,
                if i + 1 < rows.len() { "," } else { "" }
            )
            .unwrap();
        }
        s.push_str("]\n\n");
    }
    s.push_str("/-- Every covered enum: name, whether it has `PartialEq`, what its `Ord` does, its table. -/\n");
    s.push_str("def tables : List EnumInfo := [\n");
    for (i, (ops, sp)) in w.ops.iter().zip(&w.spec).enumerate() {
        writeln!(
            s,
            "  ⟨\"{}\", {}, {}, tbl_{}⟩{}",
            sp.name,
            ops.has_eq,
            ord_kind(ops, sp),
            sp.name,
            if i + 1 < w.ops.len() { "," } else { "" }
        )
        .unwrap();
    }
    writeln!(s, "]\n\n-- {cells} strings were converted to build these tables.\nend Ruma.Generated.C19").unwrap();
    s
}

/// Counts for the evidence file (`h-c19 c19 stats`).
fn stats() {
    let w = world();
    let mut m: BTreeMap<&str, usize> = BTreeMap::new();
    for r in cell_requests(&w) {
        *m.entry(if r.cls.starts_with("cell") { "cells" } else { "other" }).or_default() += 1;
    }
    m.insert("pairs", pair_requests(&w).len());
    m.insert("enums", w.ops.len());
    m.insert("entries", w.spec.iter().map(|s| s.entries.len()).sum());
    println!("{m:?}");
}

fn main() {
    if std::env::args().nth(2).as_deref() == Some("stats") {
        return stats();
    }
    h_lib::std_main(Some(&extract), &gen, &run);
}
