//! Reader for the data part of `lean/RumaModel/Spec/StringEnum.lean` (the single source of the
//! specified spellings). The format is rigid on purpose: anything unexpected inside an enum block
//! is a panic (the check then reports itself broken, never a verdict).

pub const LEAN_SPEC: &str = include_str!("../../../lean/RumaModel/Spec/StringEnum.lean");

#[derive(Clone, Copy, PartialEq, Eq, Debug)]
pub enum Kind {
    /// `v Variant spelling`
    V,
    /// `a Variant alias`
    A,
    /// `w Variant prefix.*`
    W,
}

#[derive(Clone, Debug)]
pub struct Entry {
    pub kind: Kind,
    pub variant: String,
    pub text: String,
}

#[derive(Clone, Debug)]
pub struct SpecEnum {
    pub name: String,
    pub entries: Vec<Entry>,
}

/// What the specification says a string denotes.
#[derive(Clone, PartialEq, Eq, Debug)]
pub enum Expect {
    Unit(String),
    Frag(String, String),
    Custom,
}

fn two_quoted(rest: &str) -> Option<(String, String)> {
    let mut parts = rest.split('"');
    let before = parts.next()?;
    if !before.trim().is_empty() {
        return None;
    }
    let a = parts.next()?.to_owned();
    if parts.next()? != " " {
        return None;
    }
    let b = parts.next()?.to_owned();
    let tail = parts.next()?.trim();
    if parts.next().is_some() || !(tail.is_empty() || tail == ",") {
        return None;
    }
    if a.contains('\\') || b.contains('\\') {
        return None;
    }
    Some((a, b))
}

pub fn parse() -> Vec<SpecEnum> {
    let mut out: Vec<SpecEnum> = Vec::new();
    let mut cur: Option<SpecEnum> = None;
    for (ln, line) in LEAN_SPEC.lines().enumerate() {
        let t = line.trim();
        if let Some(e) = cur.as_mut() {
            if t == "]⟩" {
                out.push(cur.take().unwrap());
                continue;
            }
            let (kind, rest) = if let Some(r) = t.strip_prefix("v ") {
                (Kind::V, r)
            } else if let Some(r) = t.strip_prefix("a ") {
                (Kind::A, r)
            } else if let Some(r) = t.strip_prefix("w ") {
                (Kind::W, r)
            } else {
                panic!("spec line {}: unexpected line inside enum block: {line:?}", ln + 1);
            };
            let (variant, text) = two_quoted(rest)
                .unwrap_or_else(|| panic!("spec line {}: cannot read entry {line:?}", ln + 1));
            if kind == Kind::W && !text.ends_with(".*") {
                panic!("spec line {}: wildcard pattern must end in .*", ln + 1);
            }
            e.entries.push(Entry { kind, variant, text });
        } else if t.starts_with("def ") && t.contains(": EnumSpec := ⟨\"") {
            let name = t.split('"').nth(1).expect("enum name").to_owned();
            assert!(t.ends_with("\", ["), "spec line {}: unexpected header {line:?}", ln + 1);
            cur = Some(SpecEnum { name, entries: Vec::new() });
        }
    }
    assert!(cur.is_none(), "unterminated enum block in the Lean spec");
    assert!(!out.is_empty(), "no enum found in the Lean spec");
    out
}

impl SpecEnum {
    fn primary(&self, variant: &str) -> &Entry {
        self.entries
            .iter()
            .find(|e| e.kind != Kind::A && e.variant == variant)
            .unwrap_or_else(|| panic!("{}: alias for unlisted variant {variant}", self.name))
    }

    /// Prefix of a wildcard pattern (`m.x.*` → `m.x.`).
    pub fn prefix(text: &str) -> &str {
        text.strip_suffix('*').expect("wildcard pattern")
    }

    /// The property, read off the specification: which variant `s` denotes and how the value is
    /// written (aliases go to the canonical spelling, everything else is kept).
    pub fn expect(&self, s: &str) -> (Expect, String) {
        for e in &self.entries {
            let p = self.primary(&e.variant);
            match (e.kind, p.kind) {
                (Kind::V, _) => {
                    if e.text == s {
                        return (Expect::Unit(e.variant.clone()), s.to_owned());
                    }
                }
                (Kind::W, _) => {
                    if let Some(rest) = s.strip_prefix(Self::prefix(&e.text)) {
                        return (Expect::Frag(e.variant.clone(), rest.to_owned()), s.to_owned());
                    }
                }
                (Kind::A, Kind::V) => {
                    if e.text == s {
                        return (Expect::Unit(e.variant.clone()), p.text.clone());
                    }
                }
                (Kind::A, _) => {
                    if let Some(rest) = s.strip_prefix(Self::prefix(&e.text)) {
                        return (
                            Expect::Frag(e.variant.clone(), rest.to_owned()),
                            format!("{}{rest}", Self::prefix(&p.text)),
                        );
                    }
                }
            }
        }
        (Expect::Custom, s.to_owned())
    }

    /// Every string of the specification for this enum (wildcards as their prefix).
    pub fn texts(&self) -> Vec<(Kind, String)> {
        self.entries
            .iter()
            .map(|e| {
                let wild = self.primary(&e.variant).kind == Kind::W;
                (e.kind, if wild { Self::prefix(&e.text).to_owned() } else { e.text.clone() })
            })
            .collect()
    }
}
