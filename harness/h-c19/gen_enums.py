#!/usr/bin/env python3
"""
Bootstrap aid, NOT run by ./check: how `src/enums.rs` (the harness' list of enum types with their
public paths, trait flags and variant identifiers) and the first draft of part 2 of
`lean/RumaModel/Spec/StringEnum.lean` were produced from /repo's sources.

It scans crates/*/src for enums deriving StringEnum/FromString/AsRefStr, evaluates `#[cfg(feature)]`
attributes under the feature set of Cargo.toml, applies the rename rules, parses the `event_enum!`
invocation of ruma-events/src/enums.rs for the seven event-type enums, and writes
/tmp/c19/enums.rs and /tmp/c19/spec_data.lean. Both outputs were then edited by hand: private module
paths replaced by the public re-exports, ContentDispositionType / VoipVersionId /
RoomPowerLevelsIntField / RoomVersionId removed (not StringEnum conversions), the `string_enum!(` /
`event_type_enum!(` prefixes turned into `string(` / `event(` lines inside `all_enums! { … }`, and
every spelling compared with the Matrix specification. The committed Lean spec is the reference
from then on; this script is kept so that a new enum can be added the same way.

Run the six stages in order (each reads the previous stage's JSON under /tmp/c19).
"""

# ---------------------------------------------------------------- stage: enum_scan.py
import re, os, sys, json
root = '/repo/crates'
res = []
for dp, dn, fn in os.walk(root):
    if 'ruma-macros' in dp or '/tests' in dp or '/target' in dp: continue
    for f in sorted(fn):
        if not f.endswith('.rs'): continue
        p = os.path.join(dp, f)
        lines = open(p).read().split('\n')
        for i, l in enumerate(lines):
            m = re.match(r'\s*pub(?:\([a-z]+\))? enum (\w+)', l)
            if not m: continue
            # walk back over attribute / doc lines
            j = i - 1
            while j >= 0 and (re.match(r'\s*(#\[|///|//|\)\]|[A-Za-z_, ]+,?\s*$|\s*$)', lines[j]) and not re.match(r'\s*$', lines[j]) and not re.match(r'\s*(pub|impl|fn|use|mod|\})', lines[j])):
                j -= 1
            attrs = '\n'.join(lines[j+1:i])
            if not re.search(r'StringEnum|FromString|AsRefStr', attrs): continue
            name = m.group(1)
            k = i; depth = 0; body = []
            started = False
            while True:
                depth += lines[k].count('{') - lines[k].count('}')
                if '{' in lines[k]: started = True
                body.append(lines[k])
                if started and depth == 0: break
                k += 1
            derives = re.findall(r'derive\(([^)]*)\)', attrs, re.S)
            dl = [x.strip() for d in derives for x in d.replace('\n',' ').split(',') if x.strip()]
            ra = re.search(r'ruma_enum\(rename_all\s*=\s*"([^"]*)"', attrs)
            cfgs = re.findall(r'#\[cfg\(([^\]]*)\)\]', attrs)
            res.append(dict(file=os.path.relpath(p, root), line=i+1, name=name, derives=dl, rename_all=ra.group(1) if ra else None, cfg=cfgs, body='\n'.join(body[1:-1])))
json.dump(res, open('/tmp/c19/enums.json','w'), indent=1)
for r in res:
    print(r['file'], r['name'], r['rename_all'], r['cfg'], [d for d in r['derives'] if 'Ord' in d or 'Eq' in d])
print(len(res))

# ---------------------------------------------------------------- stage: variants.py
import json, re
enums = json.load(open('/tmp/c19/enums.json'))
def snake(v):
    out=''
    for i,ch in enumerate(v):
        if i>0 and ch.isupper(): out+='_'
        out+=ch.lower()
    return out
def rule(r, v):
    if r is None or r=='PascalCase': return v
    if r=='lowercase': return v.lower()
    if r=='UPPERCASE': return v.upper()
    if r=='camelCase': return v[0].lower()+v[1:]
    if r=='snake_case': return snake(v)
    if r=='SCREAMING_SNAKE_CASE': return snake(v).upper()
    if r=='kebab-case': return snake(v).replace('_','-')
    if r=='SCREAMING-KEBAB-CASE': return snake(v).upper().replace('_','-')
    if r=='M_MATRIX_ERROR_CASE': return 'M_'+snake(v).upper()
    if r=='m.lowercase': return 'm.'+v.lower()
    if r=='m.snake_case': return 'm.'+snake(v)
    if r=='m.dotted.case': return 'm.'+snake(v).replace('_','.')
    if r=='.m.rule.snake_case': return '.m.rule.'+snake(v)
    if r=='m.role.snake_case': return 'm.role.'+snake(v)
    raise Exception(r)
out=[]
for e in enums:
    body = e['body']
    # strip doc comments
    lines=[l.strip() for l in body.split('\n')]
    lines=[l for l in lines if l and not l.startswith('//')]
    txt=' '.join(lines)
    # split into variants by top-level commas
    parts=[];depth=0;cur=''
    for c in txt:
        if c in '([{': depth+=1
        if c in ')]}': depth-=1
        if c==',' and depth==0:
            parts.append(cur.strip());cur=''
        else: cur+=c
    if cur.strip(): parts.append(cur.strip())
    vs=[]
    for p in parts:
        attrs=re.findall(r'#\[((?:[^\[\]]|\[[^\]]*\])*)\]', p)
        rest=re.sub(r'#\[((?:[^\[\]]|\[[^\]]*\])*)\]','',p).strip()
        m=re.match(r'(\w+)\s*(\(.*\)|\{.*\})?$', rest)
        if not m: print('??', e['name'], repr(p)); continue
        name=m.group(1); data=m.group(2)
        cfg=[a for a in attrs if a.startswith('cfg')]
        ren=None; al=[]
        for a in attrs:
            if a.startswith('ruma_enum'):
                r=re.search(r'rename\s*=\s*"([^"]*)"',a)
                if r: ren=r.group(1)
                al+=re.findall(r'alias\s*=\s*"([^"]*)"',a)
        vs.append(dict(name=name,data=bool(data),cfg=cfg,spelling=None if data else (ren if ren is not None else rule(e['rename_all'],name)),aliases=al, deprecated=any('deprecated' in a for a in attrs)))
    e['variants']=vs
    out.append(e)
json.dump(out, open('/tmp/c19/enums2.json','w'), indent=1)
for e in out:
    print(e['file'], e['name'], e['cfg'])
    for v in e['variants']:
        print('    ', v['name'], v['spelling'], v['aliases'], v['cfg'], 'DEPR' if v['deprecated'] else '')

# ---------------------------------------------------------------- stage: paths.py
import json, re
enums = json.load(open('/tmp/c19/enums2.json'))
for e in enums:
    f = e['file']; crate, rest = f.split('/src/')
    mods = rest[:-3].split('/')
    if mods[-1] in ('lib','mod'): mods = mods[:-1]
    lines = open('/repo/crates/'+f).read().split('\n')
    i = e['line']-1
    indent = len(lines[i]) - len(lines[i].lstrip())
    if indent >= 4:
        j = i
        while j >= 0 and not re.match(r'pub mod (\w+) \{', lines[j]): j -= 1
        mods.append(re.match(r'pub mod (\w+) \{', lines[j]).group(1))
    e['path'] = '::'.join([crate.replace('-','_')] + mods + [e['name']])
    print(e['path'])
json.dump(enums, open('/tmp/c19/enums3.json','w'), indent=1)

# ---------------------------------------------------------------- stage: gen.py
import json, re, collections
FEATURES = {
 'ruma-common': {'api','canonical-json','rand','client','server','unstable-msc3930','unstable-msc3931','unstable-msc3932'},
 'ruma-events': {'unstable-msc1767','unstable-msc2545','unstable-msc2867','unstable-msc3245','unstable-msc3246','unstable-msc3381','unstable-msc3401','unstable-msc3488','unstable-msc3489','unstable-msc3551','unstable-msc3552','unstable-msc3553','unstable-msc3927','unstable-msc3954','unstable-msc3956','unstable-msc4075','unstable-msc4171'},
 'ruma-client-api': {'client','server','unstable-msc2965','unstable-msc3814','unstable-msc3824','unstable-msc3843','unstable-msc4108','unstable-msc4121','unstable-msc4140','unstable-msc4186'},
 'ruma-federation-api': {'client','server'}, 'ruma-state-res': set(), 'ruma-push-gateway-api': {'client','server'}, 'ruma-identity-service-api': {'client','server'},
}
def cfg_on(crate, cfgs):
    for c in cfgs:
        m = re.fullmatch(r'(?:cfg\()?feature = "([^"]+)"\)?', c.strip())
        if not m: raise Exception('cfg form: '+c)
        if m.group(1) not in FEATURES[crate]: return False
    return True
enums = json.load(open('/tmp/c19/enums3.json'))
SKIP = {'RoomVersionId','VoipVersionId','RoomPowerLevelsIntField'}
out = []
names = collections.Counter(e['name'] for e in enums)
for e in enums:
    if e['name'] in SKIP: continue
    crate = e['file'].split('/')[0]
    if not cfg_on(crate, e['cfg']): print('skip cfg', e['name']); continue
    label = e['name']
    if names[label] > 1:
        label = {'ruma-client-api':'ClientApi','ruma-events':'Events','ruma-common':'Common','ruma-state-res':'StateRes'}[crate] + label
    vs = [v for v in e['variants'] if not v['data'] and cfg_on(crate, v['cfg'])]
    d = e['derives']
    eq = 'PartialEq' in d or 'PartialEqAsRefStr' in d
    ord_ = 'Ord' in d or 'OrdAsRefStr' in d
    out.append(dict(label=label, path=e['path'], eq=eq, ord=ord_, variants=vs, crate=crate))
json.dump(out, open('/tmp/c19/enums4.json','w'), indent=1)
print(len(out))

# ---------------------------------------------------------------- stage: gen_ev.py
import re, json
src = open('/repo/crates/ruma-events/src/enums.rs').read()
m = re.search(r'event_enum! \{(.*?)\n\}\n', src, re.S)
body = m.group(1)
FE = {'unstable-msc1767','unstable-msc2545','unstable-msc2867','unstable-msc3245','unstable-msc3246','unstable-msc3381','unstable-msc3401','unstable-msc3488','unstable-msc3489','unstable-msc3551','unstable-msc3552','unstable-msc3553','unstable-msc3927','unstable-msc3954','unstable-msc3956','unstable-msc4075','unstable-msc4171'}
kinds = {}
for km in re.finditer(r'enum (\w+) \{(.*?)\n    \}', body, re.S):
    kind = km.group(1); entries = []
    cfgs=[]; aliases=[]; ident=None
    for line in km.group(2).split('\n'):
        line=line.strip()
        if line.startswith('#[cfg'):
            cfgs.append(re.search(r'feature = "([^"]+)"', line).group(1))
        elif line.startswith('#[ruma_enum'):
            aliases += re.findall(r'alias = "([^"]+)"', line)
            im = re.search(r'ident = (\w+)', line)
            if im: ident = im.group(1)
        elif line.startswith('"'):
            t = re.match(r'"([^"]+)"', line).group(1)
            entries.append(dict(ty=t, aliases=aliases, ident=ident, cfgs=cfgs))
            cfgs=[]; aliases=[]; ident=None
    kinds[kind]=entries
def ident_of(e):
    if e['ident']: return e['ident']
    stable = e['ty'] if e['ty'].startswith('m.') else next(a for a in e['aliases'] if a.startswith('m.'))
    n = stable[2:]
    if n.endswith('.*'): n = n[:-2]
    return ''.join(p[0].upper()+p[1:] for p in re.split(r'[._]', n))
def enum_rows(ks):
    rows=[]
    for k in ks:
        for e in kinds[k]:
            if not all(c in FE for c in e['cfgs']): continue
            if any(r['ty']==e['ty'] for r in rows): continue
            rows.append(dict(ty=e['ty'], aliases=e['aliases'], ident=ident_of(e)))
    return rows
res = {
 'TimelineEventType': enum_rows(['MessageLike','State']),
 'StateEventType': enum_rows(['State']),
 'MessageLikeEventType': enum_rows(['MessageLike']),
 'EphemeralRoomEventType': enum_rows(['EphemeralRoom']),
 'RoomAccountDataEventType': enum_rows(['RoomAccountData']),
 'GlobalAccountDataEventType': enum_rows(['GlobalAccountData']),
 'ToDeviceEventType': enum_rows(['ToDevice']),
}
json.dump(res, open('/tmp/c19/evtypes.json','w'), indent=1)
for k,v in res.items():
    print(k, len(v))
    for r in v: print('   ', r['ident'], r['ty'], r['aliases'])

# ---------------------------------------------------------------- stage: emit.py
import json, re
enums = json.load(open('/tmp/c19/enums4.json'))
ev = json.load(open('/tmp/c19/evtypes.json'))
def lname(label): return label[0].lower()+label[1:]
spec = []   # (label, comment, entries)
rs = []
groups = {}
for e in enums:
    entries = []
    for v in e['variants']:
        entries.append(('v', v['name'], v['spelling']))
        for a in v['aliases']: entries.append(('a', v['name'], a))
    spec.append((e['label'], e['path'], entries))
    vs = ', '.join(v['name'] for v in e['variants'])
    rs.append(f'string_enum!("{e["label"]}", {e["path"]}, eq = {"yes" if e["eq"] else "no"}, ord = {"yes" if e["ord"] else "no"}, [{vs}]);')
for name, rows in ev.items():
    entries = []
    for r in rows:
        entries.append(('w' if r['ty'].endswith('.*') else 'v', r['ident'], r['ty']))
        for a in r['aliases']: entries.append(('a', r['ident'], a))
    spec.append((name, 'ruma_events::'+name, entries))
    units = ', '.join(r['ident'] for r in rows if not r['ty'].endswith('.*'))
    frags = ', '.join(r['ident'] for r in rows if r['ty'].endswith('.*'))
    rs.append(f'event_type_enum!("{name}", ruma_events::{name}, [{units}], [{frags}]);')
with open('/tmp/c19/spec_data.lean','w') as f:
    for label, path, entries in spec:
        f.write(f'/-- `{path}` -/\ndef {lname(label)} : EnumSpec := ⟨"{label}", [\n')
        for i,(k,v,s) in enumerate(entries):
            f.write(f'  {k} "{v}" "{s}"{"," if i+1<len(entries) else ""}\n')
        f.write(']⟩\n\n')
    f.write('/-- Every enum the check covers. -/\ndef all : List EnumSpec := [\n  ' + ',\n  '.join(lname(l) for l,_,_ in spec) + '\n]\n')
open('/tmp/c19/enums.rs','w').write('\n'.join(rs)+'\n')
print(len(spec), sum(len(e) for _,_,e in spec))
