//! Token codec for `CanonicalJsonValue` and a structured random JSON generator.
use std::fmt::Write as _;

use h_util::{stok, Rng};
use ruma_common::{CanonicalJsonObject, CanonicalJsonValue};
use serde_json::Value;

pub fn cj_tok(v: &CanonicalJsonValue, out: &mut String) {
    match v {
        CanonicalJsonValue::Null => out.push('n'),
        CanonicalJsonValue::Bool(true) => out.push('t'),
        CanonicalJsonValue::Bool(false) => out.push('f'),
        CanonicalJsonValue::Integer(i) => write!(out, "i{i}").unwrap(),
        CanonicalJsonValue::String(s) => out.push_str(&stok(s)),
        CanonicalJsonValue::Array(a) => {
            write!(out, "a{}", a.len()).unwrap();
            for x in a {
                out.push(' ');
                cj_tok(x, out);
            }
        }
        CanonicalJsonValue::Object(o) => cj_obj_tok(o, out),
    }
}

pub fn cj_obj_tok(o: &CanonicalJsonObject, out: &mut String) {
    write!(out, "o{}", o.len()).unwrap();
    for (k, x) in o {
        out.push(' ');
        out.push_str(&stok(k));
        out.push(' ');
        cj_tok(x, out);
    }
}

pub fn cj_obj_toks(o: &CanonicalJsonObject) -> String {
    let mut s = String::new();
    cj_obj_tok(o, &mut s);
    s
}

/// Parse a token stream into a canonical value (request lines only carry canonical values here).
pub fn cj_parse(toks: &mut std::slice::Iter<'_, &str>) -> Option<CanonicalJsonValue> {
    let v = h_util::parse_tokens(toks)?;
    CanonicalJsonValue::try_from(v).ok()
}

pub fn cj_parse_obj(toks: &mut std::slice::Iter<'_, &str>) -> Option<CanonicalJsonObject> {
    match cj_parse(toks)? {
        CanonicalJsonValue::Object(o) => Some(o),
        _ => None,
    }
}

pub const STR_POOL: &[&str] = &[
    "", "a", "b", "ab", "abc", "A", "é", "日本", "\u{7f}", "\u{0}", "\u{1f}", "\n", "\"", "\\",
    "\u{d7ff}", "\u{e000}", "\u{ffff}", "\u{10000}", "\u{10ffff}", "e\u{301}", "a b", "/", "signed",
    "m.room.member", "join", "@u:h", "$e", "!r:h",
];

pub const INT_POOL: &[i64] = &[
    0, 1, -1, 50, 100, 9007199254740991, -9007199254740991, 9007199254740990, 255, 256, 65535,
];

/// Random JSON value whose integers are all inside the canonical range.
pub fn gen_canonical_value(rng: &mut Rng, depth: u32) -> Value {
    let k = if depth == 0 { rng.below(4) } else { rng.below(6) };
    match k {
        0 => match rng.below(3) {
            0 => Value::Null,
            1 => Value::Bool(true),
            _ => Value::Bool(false),
        },
        1 => Value::from(*rng.pick(INT_POOL)),
        2 => Value::from(rng.range(-1000, 1000)),
        3 => Value::String((*rng.pick(STR_POOL)).to_owned()),
        4 => {
            let n = rng.below(4);
            Value::Array((0..n).map(|_| gen_canonical_value(rng, depth - 1)).collect())
        }
        _ => {
            let n = rng.below(4);
            let mut m = serde_json::Map::new();
            for _ in 0..n {
                m.insert((*rng.pick(STR_POOL)).to_owned(), gen_canonical_value(rng, depth - 1));
            }
            Value::Object(m)
        }
    }
}
