//! Shared by all property harnesses: request/outcome plumbing, canonical-JSON token codec,
//! random JSON generator, room-version helpers.
pub mod cj;

pub use h_util::{self, stok, Args, Case, CaseWriter, Rng};
use ruma_common::RoomVersionId;

/// A generated request before the implementation is run on it.
pub struct Req {
    pub req: String,
    pub cls: String,
}

impl Req {
    pub fn new(req: impl Into<String>, cls: impl Into<String>) -> Self {
        Req { req: req.into(), cls: cls.into() }
    }
}

/// What the implementation did on one request: its canonical answer line and the direct-oracle
/// (T3) failures observed while running it.
pub struct Outcome {
    pub imp: String,
    pub t3: Vec<String>,
}

impl Outcome {
    pub fn new(imp: impl Into<String>) -> Self {
        Outcome { imp: imp.into(), t3: vec![] }
    }
    pub fn bad() -> Self {
        Outcome::new("bad-op")
    }
}

/// Run every request through `run` (each under `catch_unwind`; a panic is the answer `panic`) and
/// write the case file the check script reads.
pub fn drive(args: &Args, reqs: Vec<Req>, run: impl Fn(&str) -> Outcome) {
    let mut w = CaseWriter::create(&args.out);
    for r in reqs {
        let o = match h_util::guarded(|| run(&r.req)) {
            Ok(o) => o,
            Err(()) => Outcome { imp: "panic".into(), t3: vec![] },
        };
        w.push(Case { req: r.req, imp: o.imp, cls: r.cls, t3: o.t3 });
    }
    w.finish();
}

/// Standard `main`: modes `extract` (optional), `gen`, `replay`.
pub fn std_main(
    extract: Option<&dyn Fn() -> String>,
    gen: &dyn Fn(&mut Rng, usize, &str) -> Vec<Req>,
    run: &(dyn Fn(&str) -> Outcome + std::panic::RefUnwindSafe),
) {
    let args = h_util::parse_args();
    h_util::quiet_panics();
    match args.mode.as_str() {
        "extract" => {
            let f = extract.expect("this property has no extract mode");
            std::fs::write(&args.out, f()).unwrap();
        }
        "gen" => {
            let mut rng = Rng::new(args.seed);
            let reqs = gen(&mut rng, args.n, &args.tier);
            drive(&args, reqs, |r| run(r));
        }
        "replay" => {
            let req = args.replay.as_deref().expect("--replay <request line>");
            match h_util::guarded(|| run(req)) {
                Ok(o) => {
                    println!("{}", o.imp);
                    for t in o.t3 {
                        println!("T3: {t}");
                    }
                }
                Err(()) => println!("panic"),
            }
        }
        m => {
            eprintln!("unknown mode {m}");
            std::process::exit(2);
        }
    }
}

pub fn version_id(v: u32) -> RoomVersionId {
    match v {
        1 => RoomVersionId::V1,
        2 => RoomVersionId::V2,
        3 => RoomVersionId::V3,
        4 => RoomVersionId::V4,
        5 => RoomVersionId::V5,
        6 => RoomVersionId::V6,
        7 => RoomVersionId::V7,
        8 => RoomVersionId::V8,
        9 => RoomVersionId::V9,
        10 => RoomVersionId::V10,
        11 => RoomVersionId::V11,
        _ => panic!("bad version"),
    }
}
