//! C13 — push ruleset edits follow the documented placement semantics, never panic, fail atomically.
//!
//! Requests (one line carries a whole operation sequence; the protocol is stateless):
//!   `c13.seq  <start: empty|default> <op>*` → `tr <step>* end <state>` or `tr <step>* panic`
//!   `c13.spec <start: empty|default> <op>*` → `sp <outcome,…|-> <state>` or `sp panic`
//!       (answered by the SPEC side of the driver, Spec/RulesetPlacement.lean)
//! An op is ONE token, fields separated by `,`; ids are `s<hex utf-8>`, an absent anchor is `n`:
//!   `i,<kind>,<id>,<tag>,<after|n>,<before|n>`   Ruleset::insert (new rule with `tag` actions)
//!   `r,<kind>,<id>`                              Ruleset::remove
//!   `e,<kind>,<id>,<t|f>`                        Ruleset::set_enabled
//!   `a,<kind>,<id>,<tag>`                        Ruleset::set_actions
//!   `g,<kind>,<id>`                              Ruleset::get
//! kind: `o` override, `c` content, `r` room, `s` sender, `u` underride, `x` a custom RuleKind
//! (not for `i`). The actions tag of a rule is the number of its actions.
//! step  = `<outcome>|<lists of the kinds that changed in this step, `;`-separated>`; an entry
//!         longer than 160 bytes is replaced by `#<FNV-1a-64 of it, 16 hex digits>`
//! outcome = `ok` | `err:protected|invalid|unknown|order|other` | `got:none` | `got:<e><d>~<tag>`
//! state = `o=<rules>;c=<rules>;r=<rules>;s=<rules>;u=<rules>`, rules = `,`-joined `<id>~<e><d>~<tag>`
//! (e, d ∈ {0,1}: enabled, default). Error kinds are grouped into the classes the property talks
//! about: protected (server-default id / anchor / removal), invalid id, unknown rule, anchor order.
use std::{
    collections::{HashMap, HashSet},
    panic::{catch_unwind, AssertUnwindSafe},
};

use h_lib::{h_util, stok, Outcome, Req, Rng};
use ruma_common::{
    push::{
        Action, InsertPushRuleError, NewConditionalPushRule, NewPatternedPushRule, NewPushRule,
        NewSimplePushRule, RemovePushRuleError, RuleKind, Ruleset,
    },
    user_id, OwnedRoomId, OwnedUserId,
};
use serde_json::Value;

fn conds(tag: usize) -> Vec<ruma_common::push::PushCondition> {
    use ruma_common::push::PushCondition;
    match tag % 3 {
        0 => vec![],
        1 => vec![PushCondition::EventMatch { key: "type".into(), pattern: format!("m.t{tag}") }],
        _ => vec![PushCondition::ContainsDisplayName],
    }
}

// ---------------------------------------------------------------------------------------------
// operations

#[derive(Clone, Copy, PartialEq, Eq, Debug)]
enum Kind {
    O,
    C,
    R,
    S,
    U,
}
const KINDS: [Kind; 5] = [Kind::O, Kind::C, Kind::R, Kind::S, Kind::U];

impl Kind {
    fn idx(self) -> usize {
        self as usize
    }
    fn tok(self) -> &'static str {
        ["o", "c", "r", "s", "u"][self.idx()]
    }
    fn rule_kind(self) -> RuleKind {
        match self {
            Kind::O => RuleKind::Override,
            Kind::C => RuleKind::Content,
            Kind::R => RuleKind::Room,
            Kind::S => RuleKind::Sender,
            Kind::U => RuleKind::Underride,
        }
    }
    /// Documented default position of a new unpositioned rule: most important of its kind, second
    /// (after `.m.rule.master`) among the overrides.
    fn default_pos(self) -> usize {
        if self == Kind::O {
            1
        } else {
            0
        }
    }
}

#[derive(Clone, Copy, PartialEq, Eq, Debug)]
enum KindArg {
    Known(Kind),
    Custom,
}

impl KindArg {
    fn parse(t: &str) -> Option<KindArg> {
        Some(match t {
            "o" => KindArg::Known(Kind::O),
            "c" => KindArg::Known(Kind::C),
            "r" => KindArg::Known(Kind::R),
            "s" => KindArg::Known(Kind::S),
            "u" => KindArg::Known(Kind::U),
            "x" => KindArg::Custom,
            _ => return None,
        })
    }
    fn rule_kind(self) -> RuleKind {
        match self {
            KindArg::Known(k) => k.rule_kind(),
            KindArg::Custom => RuleKind::from("x.custom"),
        }
    }
}

#[derive(Clone, Debug)]
enum Op {
    Insert { kind: Kind, id: String, tag: usize, after: Option<String>, before: Option<String> },
    Remove { kind: KindArg, id: String },
    Enable { kind: KindArg, id: String, on: bool },
    Actions { kind: KindArg, id: String, tag: usize },
    Get { kind: KindArg, id: String },
}

fn parse_id(t: &str) -> Option<String> {
    h_util::unhex_str(t.strip_prefix('s')?)
}

fn parse_opt_id(t: &str) -> Option<Option<String>> {
    if t == "n" {
        Some(None)
    } else {
        parse_id(t).map(Some)
    }
}

fn parse_op(tok: &str) -> Option<Op> {
    let f: Vec<&str> = tok.split(',').collect();
    Some(match (f[0], f.len()) {
        ("i", 6) => {
            let KindArg::Known(kind) = KindArg::parse(f[1])? else { return None };
            Op::Insert {
                kind,
                id: parse_id(f[2])?,
                tag: f[3].parse().ok()?,
                after: parse_opt_id(f[4])?,
                before: parse_opt_id(f[5])?,
            }
        }
        ("r", 3) => Op::Remove { kind: KindArg::parse(f[1])?, id: parse_id(f[2])? },
        ("e", 4) => Op::Enable {
            kind: KindArg::parse(f[1])?,
            id: parse_id(f[2])?,
            on: match f[3] {
                "t" => true,
                "f" => false,
                _ => return None,
            },
        },
        ("a", 4) => {
            Op::Actions { kind: KindArg::parse(f[1])?, id: parse_id(f[2])?, tag: f[3].parse().ok()? }
        }
        ("g", 3) => Op::Get { kind: KindArg::parse(f[1])?, id: parse_id(f[2])? },
        _ => return None,
    })
}

fn opt_tok(a: Option<&str>) -> String {
    a.map(stok).unwrap_or_else(|| "n".into())
}
fn t_ins(k: &str, id: &str, tag: usize, after: Option<&str>, before: Option<&str>) -> String {
    format!("i,{k},{},{tag},{},{}", stok(id), opt_tok(after), opt_tok(before))
}
fn t_rem(k: &str, id: &str) -> String {
    format!("r,{k},{}", stok(id))
}
fn t_en(k: &str, id: &str, on: bool) -> String {
    format!("e,{k},{},{}", stok(id), if on { "t" } else { "f" })
}
fn t_act(k: &str, id: &str, tag: usize) -> String {
    format!("a,{k},{},{tag}", stok(id))
}
fn t_get(k: &str, id: &str) -> String {
    format!("g,{k},{}", stok(id))
}

// ---------------------------------------------------------------------------------------------
// observing the real ruleset

#[derive(Clone, PartialEq, Debug)]
struct RuleSnap {
    id: String,
    enabled: bool,
    default: bool,
    tag: usize,
    /// The whole rule as serialized by the implementation (used only by the T3 oracles).
    json: Value,
}

type Snap = [Vec<RuleSnap>; 5];

fn snap(rs: &Ruleset) -> Snap {
    macro_rules! list {
        ($set:expr) => {
            $set.iter()
                .map(|r| RuleSnap {
                    id: AsRef::<str>::as_ref(&r.rule_id).to_owned(),
                    enabled: r.enabled,
                    default: r.default,
                    tag: r.actions.len(),
                    json: serde_json::to_value(r).expect("rule serializes"),
                })
                .collect::<Vec<_>>()
        };
    }
    [list!(rs.override_), list!(rs.content), list!(rs.room), list!(rs.sender), list!(rs.underride)]
}

fn fmt_id(id: &str) -> String {
    let safe = !id.is_empty()
        && id.bytes().all(|b| b.is_ascii_alphanumeric() || b"._-!@:/\\".contains(&b));
    if safe {
        id.to_owned()
    } else {
        format!("%{}", h_util::hex(id.as_bytes()))
    }
}

fn fmt_rule(r: &RuleSnap) -> String {
    format!("{}~{}{}~{}", fmt_id(&r.id), r.enabled as u8, r.default as u8, r.tag)
}

fn fmt_kind(k: Kind, l: &[RuleSnap]) -> String {
    format!("{}={}", k.tok(), l.iter().map(fmt_rule).collect::<Vec<_>>().join(","))
}

fn fmt_state(s: &Snap) -> String {
    KINDS.iter().map(|k| fmt_kind(*k, &s[k.idx()])).collect::<Vec<_>>().join(";")
}

fn fmt_changed(before: &Snap, after: &Snap) -> String {
    let same = |a: &[RuleSnap], b: &[RuleSnap]| {
        a.len() == b.len()
            && a.iter().zip(b).all(|(x, y)| {
                (x.id.as_str(), x.enabled, x.default, x.tag) == (y.id.as_str(), y.enabled, y.default, y.tag)
            })
    };
    let full = KINDS
        .iter()
        .filter(|k| !same(&before[k.idx()], &after[k.idx()]))
        .map(|k| fmt_kind(*k, &after[k.idx()]))
        .collect::<Vec<_>>()
        .join(";");
    compact(full)
}

/// Long per-step entries (the server-default override list has twelve long ids) are replaced by
/// `#` + their FNV-1a-64 hash, on both sides; the final state is always printed in full.
fn compact(s: String) -> String {
    if s.len() <= 160 {
        return s;
    }
    let mut h: u64 = 0xcbf2_9ce4_8422_2325;
    for b in s.bytes() {
        h = (h ^ b as u64).wrapping_mul(0x0000_0100_0000_01b3);
    }
    format!("#{h:016x}")
}

fn start_state(name: &str) -> Option<Ruleset> {
    match name {
        "empty" => Some(Ruleset::new()),
        "default" => Some(Ruleset::server_default(user_id!("@u:h"))),
        _ => None,
    }
}

fn actions(tag: usize) -> Vec<Action> {
    vec![Action::Notify; tag]
}

/// Run one operation on the real ruleset; the grouped outcome class, or `None` when the request
/// cannot be expressed (a room/sender id that is not a room/user id).
fn apply(rs: &mut Ruleset, op: &Op) -> Option<String> {
    Some(match op {
        Op::Insert { kind, id, tag, after, before } => {
            let acts = actions(*tag);
            let rule = match kind {
                // the payload of a rule (conditions, pattern) varies with the tag, so that re-inserting an
                // id replaces a rule that differs from the old one in more than its actions: identity of a
                // rule in its list is its id alone
                Kind::O => NewPushRule::Override(NewConditionalPushRule::new(id.clone(), conds(*tag), acts)),
                Kind::U => NewPushRule::Underride(NewConditionalPushRule::new(id.clone(), conds(*tag), acts)),
                Kind::C => {
                    NewPushRule::Content(NewPatternedPushRule::new(id.clone(), format!("pat{tag}"), acts))
                }
                Kind::R => NewPushRule::Room(NewSimplePushRule::new(
                    OwnedRoomId::try_from(id.as_str()).ok()?,
                    acts,
                )),
                Kind::S => NewPushRule::Sender(NewSimplePushRule::new(
                    OwnedUserId::try_from(id.as_str()).ok()?,
                    acts,
                )),
            };
            match rs.insert(rule, after.as_deref(), before.as_deref()) {
                Ok(()) => "ok".into(),
                Err(InsertPushRuleError::ServerDefaultRuleId)
                | Err(InsertPushRuleError::RelativeToServerDefaultRule) => "err:protected".into(),
                Err(InsertPushRuleError::InvalidRuleId) => "err:invalid".into(),
                Err(InsertPushRuleError::UnknownRuleId) => "err:unknown".into(),
                Err(InsertPushRuleError::BeforeHigherThanAfter) => "err:order".into(),
                Err(_) => "err:other".into(),
            }
        }
        Op::Remove { kind, id } => match rs.remove(kind.rule_kind(), id) {
            Ok(()) => "ok".into(),
            Err(RemovePushRuleError::ServerDefault) => "err:protected".into(),
            Err(RemovePushRuleError::NotFound) => "err:unknown".into(),
            Err(_) => "err:other".into(),
        },
        Op::Enable { kind, id, on } => match rs.set_enabled(kind.rule_kind(), id, *on) {
            Ok(()) => "ok".into(),
            Err(_) => "err:unknown".into(),
        },
        Op::Actions { kind, id, tag } => match rs.set_actions(kind.rule_kind(), id, actions(*tag)) {
            Ok(()) => "ok".into(),
            Err(_) => "err:unknown".into(),
        },
        Op::Get { kind, id } => match rs.get(kind.rule_kind(), id) {
            None => "got:none".into(),
            Some(r) => format!(
                "got:{}{}~{}",
                r.enabled() as u8,
                r.is_server_default() as u8,
                r.actions().len()
            ),
        },
    })
}

// ---------------------------------------------------------------------------------------------
// T3: the property itself, evaluated on the real ruleset before/after each step

fn pos(l: &[RuleSnap], id: &str) -> Option<usize> {
    l.iter().position(|r| r.id == id)
}

fn without<'a>(l: &'a [RuleSnap], id: &str) -> Vec<&'a RuleSnap> {
    l.iter().filter(|r| r.id != id).collect()
}

fn oracle(step: usize, op: &Op, before: &Snap, after: &Snap, outcome: &str, t3: &mut Vec<String>) {
    let mut fail = |m: String| t3.push(format!("step {step} {op:?}: {m}"));
    // ids unique per kind, always
    for k in KINDS {
        let mut seen = HashSet::new();
        for r in &after[k.idx()] {
            if !seen.insert(r.id.as_str()) {
                fail(format!("rule id {:?} occurs twice among the {} rules", r.id, k.tok()));
            }
        }
    }
    // an error (and a lookup) leaves the ruleset unchanged
    if outcome != "ok" {
        if before != after {
            fail(format!("returned {outcome} but the ruleset changed"));
        }
    }
    let target_kind = match op {
        Op::Insert { kind, .. } => Some(*kind),
        Op::Remove { kind, .. } | Op::Enable { kind, .. } | Op::Actions { kind, .. } | Op::Get { kind, .. } => {
            match kind {
                KindArg::Known(k) => Some(*k),
                KindArg::Custom => None,
            }
        }
    };
    // the other kinds are never touched
    for k in KINDS {
        if Some(k) != target_kind && before[k.idx()] != after[k.idx()] {
            fail(format!("the {} rules changed", k.tok()));
        }
    }
    let Some(kind) = target_kind else {
        if outcome == "ok" {
            fail("operation on a custom kind succeeded".into());
        }
        return;
    };
    let (old, new) = (&before[kind.idx()], &after[kind.idx()]);
    match op {
        Op::Insert { id, tag, after: aft, before: bef, .. } => {
            let dotted = |s: &Option<String>| s.as_deref().is_some_and(|s| s.starts_with('.'));
            if id.starts_with('.') && outcome == "ok" {
                fail("a rule with a server-default id was created".into());
            }
            if (dotted(aft) || dotted(bef)) && outcome == "ok" {
                fail("a rule was placed relative to a server-default rule".into());
            }
            if outcome != "ok" {
                return;
            }
            let Some(i) = pos(new, id) else {
                fail("insert returned ok but the rule is not in the list".into());
                return;
            };
            let me = &new[i];
            let prev = pos(old, id).map(|j| &old[j]);
            if me.default || me.tag != *tag {
                fail("inserted rule has wrong default flag or actions".into());
            }
            match prev {
                Some(p) if p.enabled != me.enabled => fail("replacing a rule changed its enabled flag".into()),
                None if !me.enabled => fail("a new rule is not enabled".into()),
                _ => {}
            }
            if without(old, id) != without(new, id) {
                fail("the other rules did not keep their relative order / content".into());
            }
            if let Some(b) = bef {
                if pos(new, b) != Some(i + 1) {
                    fail(format!("rule is not immediately before {b:?}: {}", fmt_kind(kind, new)));
                }
                if let Some(a) = aft {
                    if !pos(new, a).is_some_and(|ja| ja < i) {
                        fail(format!("rule is not after {a:?}: {}", fmt_kind(kind, new)));
                    }
                }
            } else if let Some(a) = aft {
                if pos(new, a).map(|ja| ja + 1) != Some(i) {
                    fail(format!("rule is not immediately after {a:?}: {}", fmt_kind(kind, new)));
                }
            } else {
                match pos(old, id) {
                    Some(j) if j != i => fail("an unpositioned replaced rule did not keep its place".into()),
                    None if i != kind.default_pos().min(old.len()) => fail(format!(
                        "a new unpositioned rule is at index {i}, not at the default position: {}",
                        fmt_kind(kind, new)
                    )),
                    _ => {}
                }
            }
        }
        Op::Remove { id, .. } => {
            let prev = pos(old, id).map(|j| &old[j]);
            match (prev, outcome) {
                (Some(p), "ok") if p.default => fail("a server-default rule was removed".into()),
                (Some(_), "ok") => {
                    if without(old, id) != new.iter().collect::<Vec<_>>() {
                        fail("remove did not remove exactly the rule".into());
                    }
                }
                (None, "ok") => fail("removing an absent rule succeeded".into()),
                (Some(p), _) if !p.default => fail("removing a user-defined rule failed".into()),
                _ => {}
            }
        }
        Op::Enable { id, .. } | Op::Actions { id, .. } => {
            let present = pos(old, id).is_some();
            if present != (outcome == "ok") {
                fail(format!("rule present = {present} but outcome {outcome}"));
            }
            if outcome != "ok" {
                return;
            }
            let ids = |l: &[RuleSnap]| l.iter().map(|r| r.id.clone()).collect::<Vec<_>>();
            if ids(old) != ids(new) || without(old, id) != without(new, id) {
                fail("order or other rules changed".into());
            }
            if let (Some(j), Some(i)) = (pos(old, id), pos(new, id)) {
                let (o, n) = (&old[j], &new[i]);
                let okay = match op {
                    Op::Enable { on, .. } => n.enabled == *on && n.tag == o.tag && n.default == o.default,
                    Op::Actions { tag, .. } => n.tag == *tag && n.enabled == o.enabled && n.default == o.default,
                    _ => true,
                };
                if !okay {
                    fail("wrong fields after set_enabled / set_actions".into());
                }
            }
        }
        Op::Get { id, .. } => {
            let want = match pos(old, id).map(|j| &old[j]) {
                None => "got:none".to_owned(),
                Some(r) => format!("got:{}{}~{}", r.enabled as u8, r.default as u8, r.tag),
            };
            if want != outcome {
                fail(format!("get returned {outcome}, list says {want}"));
            }
        }
    }
}

// ---------------------------------------------------------------------------------------------
// running one request

struct Trace {
    outcomes: Vec<String>,
    steps: Vec<String>,
    last: Snap,
    panicked: bool,
    t3: Vec<String>,
}

fn run_ops(start: &str, ops: &[Op]) -> Option<Trace> {
    let mut rs = start_state(start)?;
    let mut tr = Trace { outcomes: vec![], steps: vec![], last: snap(&rs), panicked: false, t3: vec![] };
    // start state sanity (the invariants the theorems start from)
    for k in KINDS {
        for r in &tr.last[k.idx()] {
            if r.default != r.id.starts_with('.') {
                tr.t3.push(format!("start state: rule {:?} default={} ", r.id, r.default));
            }
        }
    }
    for (n, op) in ops.iter().enumerate() {
        let res = catch_unwind(AssertUnwindSafe(|| apply(&mut rs, op)));
        match res {
            Err(_) => {
                tr.t3.push(format!("step {n} {op:?}: panicked"));
                tr.panicked = true;
                return Some(tr);
            }
            Ok(None) => return None,
            Ok(Some(outcome)) => {
                let now = snap(&rs);
                oracle(n, op, &tr.last, &now, &outcome, &mut tr.t3);
                tr.steps.push(format!("{outcome}|{}", fmt_changed(&tr.last, &now)));
                tr.outcomes.push(outcome);
                tr.last = now;
            }
        }
    }
    Some(tr)
}

pub fn run(req: &str) -> Outcome {
    let toks: Vec<&str> = req.split(' ').filter(|t| !t.is_empty()).collect();
    if toks.len() < 2 || !(toks[0] == "c13.seq" || toks[0] == "c13.spec") {
        return Outcome::bad();
    }
    let Some(ops) = toks[2..].iter().map(|t| parse_op(t)).collect::<Option<Vec<Op>>>() else {
        return Outcome::bad();
    };
    let Some(tr) = run_ops(toks[1], &ops) else { return Outcome::bad() };
    let imp = if toks[0] == "c13.seq" {
        let mut s = String::from("tr");
        for st in &tr.steps {
            s.push(' ');
            s.push_str(st);
        }
        if tr.panicked {
            s.push_str(" panic");
        } else {
            s.push_str(" end ");
            s.push_str(&fmt_state(&tr.last));
        }
        s
    } else if tr.panicked {
        "sp panic".to_owned()
    } else {
        let o = if tr.outcomes.is_empty() { "-".to_owned() } else { tr.outcomes.join(",") };
        format!("sp {o} {}", fmt_state(&tr.last))
    };
    // the oracles are reported once, on the trace request
    Outcome { imp, t3: if toks[0] == "c13.seq" { tr.t3 } else { vec![] } }
}

// ---------------------------------------------------------------------------------------------
// generators

const MISSING: &str = "zz";

/// The full alphabet of the design for one string-id kind: ids {a,b,c,.m.rule.master,.x} ×
/// `after` {none,a,b,c,.x,missing} × `before` {same}; remove / get every id and a missing one;
/// enable/disable and set-actions on a user rule, the master rule and a missing one.
fn alphabet_full(k: &str) -> Vec<String> {
    let ids = ["a", "b", "c", ".m.rule.master", ".x"];
    let anchors = [None, Some("a"), Some("b"), Some("c"), Some(".x"), Some(MISSING)];
    let mut v = Vec::new();
    for id in ids {
        for a in anchors {
            for b in anchors {
                v.push(t_ins(k, id, 1, a, b));
            }
        }
    }
    v.push(t_ins(k, "a/b", 1, None, None));
    v.push(t_ins(k, "a\\b", 1, Some("a"), None));
    v.push(t_ins(k, "a", 3, None, None));
    for id in ["a", "b", "c", ".m.rule.master", ".x", MISSING] {
        v.push(t_rem(k, id));
        v.push(t_get(k, id));
    }
    for id in ["a", ".m.rule.master", MISSING] {
        v.push(t_en(k, id, false));
        v.push(t_en(k, id, true));
        v.push(t_act(k, id, 2));
    }
    v.push(t_act(k, "a", 0));
    v
}

/// A smaller alphabet for the second kind in two-kind searches and for literal enumeration.
fn alphabet_small(k: &str, ids: &[&str]) -> Vec<String> {
    let mut v = Vec::new();
    for id in ids {
        for a in [None].into_iter().chain(ids.iter().map(|s| Some(*s))).chain([Some(MISSING)]) {
            for b in [None].into_iter().chain(ids.iter().map(|s| Some(*s))) {
                v.push(t_ins(k, id, 1, a, b));
            }
        }
        v.push(t_rem(k, id));
    }
    v.push(t_en(k, ids[0], false));
    v
}

/// Every operation of `alphabet` applied in every distinct ruleset state reachable from `start`
/// within `depth - 1` operations of the alphabet (states are deduplicated by their complete
/// observable content; one shortest witness sequence per state; `depth = usize::MAX` runs to the
/// fixpoint). The states are those of the REAL ruleset.
fn bfs(start: &str, alphabet: &[String], depth: usize, cls: &str, cap: usize, out: &mut Vec<Req>) {
    let parsed: Vec<Op> = alphabet.iter().map(|t| parse_op(t).expect("alphabet parses")).collect();
    let key = |rs: &Ruleset| fmt_state(&snap(rs));
    let init = start_state(start).expect("start");
    let mut seen: HashMap<String, ()> = HashMap::new();
    seen.insert(key(&init), ());
    let mut frontier: Vec<(Vec<usize>, Ruleset)> = vec![(vec![], init)];
    let mut d = 0;
    let mut emitted = 0usize;
    while !frontier.is_empty() && d < depth {
        d += 1;
        let mut next = Vec::new();
        for (wit, rs) in &frontier {
            let prefix: String = wit.iter().map(|i| format!(" {}", alphabet[*i])).collect();
            for (i, op) in parsed.iter().enumerate() {
                if emitted >= cap {
                    eprintln!("[h-c13] bfs {cls}: cap {cap} reached at depth {d}; enumeration is NOT complete");
                    return;
                }
                emitted += 1;
                let line = format!("{start}{prefix} {}", alphabet[i]);
                out.push(Req::new(format!("c13.seq {line}"), format!("{cls}.seq")));
                out.push(Req::new(format!("c13.spec {line}"), format!("{cls}.spec")));
                let mut rs2 = rs.clone();
                let r = catch_unwind(AssertUnwindSafe(|| apply(&mut rs2, op)));
                if let Ok(Some(_)) = r {
                    let k = key(&rs2);
                    if !seen.contains_key(&k) {
                        seen.insert(k, ());
                        let mut w = wit.clone();
                        w.push(i);
                        next.push((w, rs2));
                    }
                }
            }
        }
        frontier = next;
    }
    eprintln!(
        "[h-c13] bfs {cls}: {} states, {emitted} (state, op) pairs, depth reached {d}{}",
        seen.len(),
        if frontier.is_empty() { " (fixpoint: every reachable state covered)" } else { "" }
    );
}

/// All sequences of exactly `len` operations of `alphabet`.
fn literal(start: &str, alphabet: &[String], len: usize, cls: &str, out: &mut Vec<Req>) {
    let n = alphabet.len();
    let total = n.pow(len as u32);
    for mut x in 0..total {
        let mut line = String::from(start);
        for _ in 0..len {
            line.push(' ');
            line.push_str(&alphabet[x % n]);
            x /= n;
        }
        out.push(Req::new(format!("c13.seq {line}"), format!("{cls}.seq")));
    }
}

fn id_pool(kind: Kind) -> &'static [&'static str] {
    match kind {
        Kind::O | Kind::C | Kind::U => &["a", "b", "c", "d", "e"],
        Kind::R => &["!a:x", "!b:x", "!c:x", "!d:x"],
        Kind::S => &["@a:x", "@b:x", "@c:x", "@d:x"],
    }
}

fn random_op(rng: &mut Rng, kinds: &[Kind]) -> String {
    let kind = *rng.pick(kinds);
    let k = kind.tok();
    let pool = id_pool(kind);
    let stringy = matches!(kind, Kind::O | Kind::C | Kind::U);
    let any_id = |rng: &mut Rng| -> String {
        match rng.below(if stringy { 14 } else { 10 }) {
            0 => MISSING.to_owned(),
            10 => ".m.rule.master".into(),
            11 => ".x".into(),
            12 => ".m.rule.contains_user_name".into(),
            13 => ".m.rule.call".into(),
            _ => (*rng.pick(&pool[..3])).to_owned(),
        }
    };
    let anchor = |rng: &mut Rng| -> Option<String> {
        match rng.below(12) {
            0..=4 => None,
            5 => Some(MISSING.into()),
            6 => Some((*rng.pick(&[".x", ".m.rule.master", ".m.rule.call"])).to_owned()),
            _ => Some((*rng.pick(pool)).to_owned()),
        }
    };
    let kx = if rng.chance(1, 40) { "x" } else { k };
    match rng.below(20) {
        0..=11 => {
            let id = if stringy && rng.chance(1, 30) {
                (*rng.pick(&["a/b", "a\\b", ".x", ".m.rule.master"])).to_owned()
            } else {
                (*rng.pick(pool)).to_owned()
            };
            let (a, b) = (anchor(rng), anchor(rng));
            // keep argument-validation classes unambiguous: an invalid id only with plain anchors
            let plain = |s: &Option<String>| !s.as_deref().is_some_and(|s| s.starts_with('.'));
            let (a, b) = if (id.contains('/') || id.contains('\\')) && !(plain(&a) && plain(&b)) {
                (None, None)
            } else {
                (a, b)
            };
            t_ins(k, &id, rng.below(4), a.as_deref(), b.as_deref())
        }
        12..=14 => t_rem(kx, &any_id(rng)),
        15..=16 => t_en(kx, &any_id(rng), rng.chance(1, 2)),
        17..=18 => t_act(kx, &any_id(rng), rng.below(4)),
        _ => t_get(kx, &any_id(rng)),
    }
}

fn random_seqs(rng: &mut Rng, n: usize, out: &mut Vec<Req>) {
    for i in 0..n {
        let start = if i % 4 == 3 { "default" } else { "empty" };
        let len = match rng.below(4) {
            0 => rng.below(8) + 1,
            1 => rng.below(20) + 1,
            _ => rng.below(60) + 1,
        };
        // concentrate on one or two kinds so that lists grow and re-insertions are frequent
        let kinds: Vec<Kind> = match rng.below(5) {
            0 => vec![Kind::O],
            1 => vec![*rng.pick(&KINDS)],
            2 => vec![Kind::O, Kind::U],
            3 => vec![Kind::C, Kind::R, Kind::S],
            _ => KINDS.to_vec(),
        };
        let mut line = String::from(start);
        for _ in 0..len {
            line.push(' ');
            line.push_str(&random_op(rng, &kinds));
        }
        let cls = format!("rand.{start}.len{}", if len <= 8 { "1-8" } else if len <= 20 { "9-20" } else { "21-60" });
        if i % 5 == 4 {
            out.push(Req::new(format!("c13.spec {line}"), format!("{cls}.spec")));
        }
        out.push(Req::new(format!("c13.seq {line}"), cls));
    }
}

fn gen(rng: &mut Rng, n: usize, tier: &str) -> Vec<Req> {
    let mut out = Vec::new();
    let thorough = tier == "thorough";
    let full_o = alphabet_full("o");
    let full_c = alphabet_full("c");
    let full_u = alphabet_full("u");
    let mut two: Vec<String> = full_o.clone();
    two.extend(alphabet_small("c", &["a", "b"]));
    let lit: Vec<String> = alphabet_small("o", &["a", "b"]);
    let lit3: Vec<String> = alphabet_small("o", &["a", "b", "c"]);
    // 20 operations: insert {a,b} x after {none,a,b} x before {none,a,b}, remove a, remove b
    let lit4: Vec<String> = lit
        .iter()
        .filter(|t| !t.contains(&stok(MISSING)) && !t.starts_with("e,"))
        .cloned()
        .collect();
    for start in ["empty", "default"] {
        // every op of the full alphabet in every reachable state of one kind
        let d1 = if thorough { usize::MAX } else { 3 };
        bfs(start, &full_o, d1, &format!("exh-o.{start}"), 400_000, &mut out);
        bfs(start, &full_c, if thorough { usize::MAX } else { 2 }, &format!("exh-c.{start}"), 400_000, &mut out);
        if thorough {
            bfs(start, &full_u, 3, &format!("exh-u.{start}"), 200_000, &mut out);
            bfs(start, &two, 3, &format!("exh-oc.{start}"), 400_000, &mut out);
        }
        // literal enumeration of whole sequences (no state deduplication)
        literal(start, &lit, 2, &format!("lit2.{start}"), &mut out);
        literal(start, &lit, 3, &format!("lit3.{start}"), &mut out);
        if thorough && start == "empty" {
            literal(start, &lit4, 4, &format!("lit4.{start}"), &mut out);
            literal(start, &lit3, 3, &format!("lit3x.{start}"), &mut out);
        }
    }
    random_seqs(rng, n, &mut out);
    out
}

fn main() {
    h_lib::std_main(None, &gen, &run);
}
