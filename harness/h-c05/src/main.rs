//! C05 — content hash, reference hash and event IDs are the spec's functions of the event.
//!
//! Requests (answers must equal the Lean driver's, see `lean/RumaModel/Driver/C05.lean`):
//!   `c05.fmt <v>`                → `1` | `2` | `3`   (event-ID format generation; SPEC op)
//!   `c05.alpha <v>`              → `std` | `url`     (alphabet `reference_hash` really used; SPEC op)
//!   `c05.sigrules <v>`           → `<t|f> <t|f>`     (check_event_id_server, check_join_authorised…; SPEC op)
//!   `c05.content <event>`        → `ok <base64>` | `err size`
//!   `c05.ref <v> <event>`        → `ok <base64>` | `err size` | `err other`
//!   `c05.eventid <v> <event>`    → `none` (format V1) | `ok $<base64>` | `err size` | `err other`
//!                                  (ruma has no function for this step; the op does what callers do:
//!                                  `format!("${}", reference_hash(..)?)`, parsed by the real `EventId`)
//!   `c05.sha s<hex bytes>`       → `ok <hex digest>`       (Lean reference SHA-256 vs the `sha2` crate)
//!   `c05.b64 <std|url> s<hex>`   → `ok <base64>`           (Lean base64 vs the `base64` crate)
use base64::{
    alphabet,
    engine::{general_purpose::NO_PAD, GeneralPurpose},
    Engine,
};
use h_lib::{
    cj::{cj_obj_toks, cj_parse_obj, gen_canonical_value},
    h_util, version_id, Outcome, Req, Rng,
};
use ruma_common::{
    canonical_json::{redact, RedactedBecause},
    room_version_rules::{EventIdFormatVersion, RoomVersionRules},
    CanonicalJsonObject, CanonicalJsonValue, EventId,
};
use ruma_signatures::{content_hash, hash_and_sign_event, reference_hash, Ed25519KeyPair, Error};
use serde_json::{json, Value};
use sha2::{Digest, Sha256};

const MAX_PDU: usize = 65_535;

fn rules(v: u32) -> RoomVersionRules {
    version_id(v).rules().expect("known version has rules")
}

const STD: GeneralPurpose = GeneralPurpose::new(&alphabet::STANDARD, NO_PAD);
const URL: GeneralPurpose = GeneralPurpose::new(&alphabet::URL_SAFE, NO_PAD);

/// The alphabet the *specification* prescribes for the room version (independent of the code).
fn spec_engine(v: u32) -> &'static GeneralPurpose {
    if v <= 3 {
        &STD
    } else {
        &URL
    }
}

fn to_cj_obj(v: Value) -> CanonicalJsonObject {
    match CanonicalJsonValue::try_from(v).expect("canonical") {
        CanonicalJsonValue::Object(o) => o,
        _ => panic!("not an object"),
    }
}

fn without(o: &CanonicalJsonObject, fields: &[&str]) -> CanonicalJsonObject {
    let mut o = o.clone();
    for f in fields {
        o.remove(*f);
    }
    o
}

fn bytes_of(o: &CanonicalJsonObject) -> Vec<u8> {
    serde_json::to_vec(o).expect("canonical objects serialise")
}

fn cls_content(r: &Result<String, Error>) -> String {
    match r {
        Ok(s) => format!("ok {s}"),
        Err(Error::PduSize) => "err size".into(),
        Err(_) => "err other".into(),
    }
}

fn content_hash_str(o: &CanonicalJsonObject) -> Result<String, Error> {
    content_hash(o).map(|h| h.encode())
}

fn fnv(s: &str) -> u64 {
    let mut h: u64 = 0xcbf29ce484222325;
    for b in s.bytes() {
        h ^= b as u64;
        h = h.wrapping_mul(0x100000001b3);
    }
    h
}

fn cjv(v: Value) -> CanonicalJsonValue {
    CanonicalJsonValue::try_from(v).expect("canonical")
}

/// Variants of `o` that differ only in the given (uncovered) field.
fn uncovered_variants(o: &CanonicalJsonObject, field: &str, rng: &mut Rng) -> Vec<CanonicalJsonObject> {
    let mut out = Vec::new();
    let mut a = o.clone();
    a.remove(field);
    out.push(a);
    let mut b = o.clone();
    b.insert(field.to_owned(), cjv(json!({"age": 1, "x": [1, "two", {"three": null}]})));
    out.push(b);
    let mut c = o.clone();
    c.insert(field.to_owned(), cjv(gen_canonical_value(rng, 2)));
    out.push(c);
    // the shapes these fields really have on the wire: `unsigned` of a redacted event, of a state event
    // with `prev_content`, of an aged event; `signatures` / `hashes` of several servers / algorithms
    for v in [
        json!({"redacted_because": {"type": "m.room.redaction", "sender": "@m:h", "redacts": "$x", "content": {"reason": "spam"}}}),
        json!({"redacted_because": {}, "age": 2}),
        json!({"prev_content": {"membership": "invite", "body": "x".repeat(300)}, "replaces_state": "$p", "age_ts": 7}),
        json!({"a.example": {"ed25519:1": "c2ln"}, "b.example": {"ed25519:k": "c2ln", "rsa:1": "x"}}),
        json!({"sha256": "n4bQgYhMfWWaL+qgxVrQFaO/TxsrC4Is0V1sFbDwCgg", "md5": "x"}),
    ] {
        let mut d = o.clone();
        d.insert(field.to_owned(), cjv(v));
        out.push(d);
    }
    out
}

fn run_content(o: CanonicalJsonObject, req: &str) -> Outcome {
    let mut t3 = Vec::new();
    let mut rng = Rng::new(fnv(req));
    let res = content_hash_str(&o);
    let imp = cls_content(&res);

    // independent recomputation: sha2 + base64 over serde's own serialisation of the stripped object
    let pre = bytes_of(&without(&o, &["unsigned", "signatures", "hashes"]));
    let expect = if pre.len() > MAX_PDU {
        "err size".to_owned()
    } else {
        format!("ok {}", STD.encode(Sha256::digest(&pre)))
    };
    if imp != expect {
        t3.push(format!(
            "content_hash differs from base64(sha256(canonical JSON without unsigned/signatures/hashes)), \
             canonical length {}: got `{imp}`, expected `{expect}`",
            pre.len()
        ));
    }

    // uncovered fields do not influence the result (error or not)
    for f in ["unsigned", "signatures", "hashes"] {
        for var in uncovered_variants(&o, f, &mut rng) {
            let r = cls_content(&content_hash_str(&var));
            if r != imp {
                t3.push(format!("content hash depends on `{f}`: `{imp}` vs `{r}`"));
            }
        }
    }

    // every covered change changes the hash
    if res.is_ok() {
        let mut covered: Vec<CanonicalJsonObject> = Vec::new();
        for (k, v) in &o {
            if ["unsigned", "signatures", "hashes"].contains(&k.as_str()) {
                continue;
            }
            let mut a = o.clone();
            a.insert(k.clone(), CanonicalJsonValue::Array(vec![v.clone()]));
            covered.push(a);
            let mut b = o.clone();
            b.remove(k);
            covered.push(b);
        }
        let mut c = o.clone();
        if !c.contains_key("zz.added") {
            c.insert("zz.added".into(), cjv(json!(0)));
            covered.push(c);
        }
        for var in covered {
            if let Ok(h) = content_hash_str(&var) {
                if Some(&h) == res.as_ref().ok() {
                    t3.push("a change to a covered field did not change the content hash".into());
                }
            }
        }
    }
    Outcome { imp, t3 }
}

const ALWAYS_KEPT_TOP: &[&str] = &[
    "event_id", "room_id", "sender", "state_key", "hashes", "depth", "prev_events", "auth_events",
    "origin_server_ts",
];

/// The specification's table of content keys that survive redaction, per room version (room version
/// specs, "Redactions"), written from the specification and NOT derived from the implementation.
/// (`third_party_invite` of `m.room.member`, of which only `signed` survives from version 11 on, is
/// left out: it is compared structurally by the other oracles.)
fn spec_keeps_content_key(v: u32, ty: &str, k: &str) -> bool {
    match ty {
        "m.room.member" => k == "membership" || (k == "join_authorised_via_users_server" && v >= 9),
        "m.room.create" => v >= 11 || k == "creator",
        "m.room.join_rules" => k == "join_rule" || (k == "allow" && v >= 8),
        "m.room.power_levels" => {
            ["ban", "events", "events_default", "kick", "redact", "state_default", "users", "users_default"].contains(&k)
                || (k == "invite" && v >= 11)
        }
        "m.room.history_visibility" => k == "history_visibility",
        "m.room.aliases" => k == "aliases" && v <= 5,
        "m.room.redaction" => k == "redacts" && v >= 11,
        _ => false,
    }
}

fn run_ref(ver: u32, o: CanonicalJsonObject, req: &str) -> Outcome {
    let mut t3 = Vec::new();
    let mut rng = Rng::new(fnv(req));
    let rules = rules(ver);
    let res = reference_hash(&o, &rules);
    let imp = cls_content(&res);

    // independent recomputation from the real redact() (C04), serde, sha2, base64 with the
    // alphabet the specification prescribes for this room version
    let redacted = redact(o.clone(), &rules.redaction, None);
    let expect = match &redacted {
        Err(_) => "err other".to_owned(),
        Ok(red) => {
            let pre = bytes_of(&without(red, &["signatures", "unsigned"]));
            if pre.len() > MAX_PDU {
                "err size".to_owned()
            } else {
                format!("ok {}", spec_engine(ver).encode(Sha256::digest(&pre)))
            }
        }
    };
    if imp != expect {
        t3.push(format!(
            "reference_hash differs from base64[{}](sha256(canonical JSON of the redacted event without \
             signatures/unsigned)): got `{imp}`, expected `{expect}`",
            if ver <= 3 { "standard" } else { "url-safe" }
        ));
    }

    // `unsigned` / `signatures` do not influence the result
    for f in ["unsigned", "signatures"] {
        for var in uncovered_variants(&o, f, &mut rng) {
            let r = cls_content(&reference_hash(&var, &rules));
            if r != imp {
                t3.push(format!("reference hash depends on `{f}`: `{imp}` vs `{r}`"));
            }
        }
    }
    // "Any change to a part of the event that the hash covers changes the hash", and a change to a
    // part redaction strips does not: for every content key that some room version's redaction table
    // names for this event type, and that this event carries, the reference hash with that value
    // replaced differs from the original iff the SPECIFICATION keeps the key in this room version
    // (table written from the room version specs below, not derived from the implementation).
    if imp.starts_with("ok ") {
        if let (Some(CanonicalJsonValue::String(ty)), Some(CanonicalJsonValue::Object(c))) = (o.get("type"), o.get("content")) {
            for k in c.keys() {
                if !(1..=11).any(|v| spec_keeps_content_key(v, ty, k)) {
                    continue;
                }
                let mut var = o.clone();
                if let Some(CanonicalJsonValue::Object(c2)) = var.get_mut("content") {
                    let new = if c.get(k) == Some(&CanonicalJsonValue::String("changed".into())) { "changed2" } else { "changed" };
                    c2.insert(k.clone(), CanonicalJsonValue::String(new.into()));
                }
                let r = cls_content(&reference_hash(&var, &rules));
                if !r.starts_with("ok ") {
                    continue;
                }
                let keeps = spec_keeps_content_key(ver, ty, k);
                if keeps && r == imp {
                    t3.push(format!("room version {ver}: content key `{k}` of {ty} survives redaction per the specification, but changing it does not change the reference hash"));
                }
                if !keeps && r != imp {
                    t3.push(format!("room version {ver}: content key `{k}` of {ty} is stripped by redaction per the specification, but changing it changes the reference hash"));
                }
            }
        }
    }
    // the same at the top level: the twelve keys every version keeps, `origin` / `membership` /
    // `prev_state` kept up to room version 10 only, every other key stripped (`hashes` is kept by redaction
    // and covered; `signatures` / `unsigned` are removed before hashing and are handled above)
    if imp.starts_with("ok ") {
        for k in ["event_id", "type", "room_id", "sender", "state_key", "content", "hashes", "depth", "prev_events",
                  "auth_events", "origin_server_ts", "origin", "membership", "prev_state", "redacts", "age_ts",
                  "prev_content", "replaces_state", "outlier", "destination"] {
            if !o.contains_key(k) || k == "type" || k == "content" {
                continue; // changing `type` / `content` wholesale changes which rule applies
            }
            let keeps = match k {
                "origin" | "membership" | "prev_state" => ver <= 10,
                "redacts" | "age_ts" | "prev_content" | "replaces_state" | "outlier" | "destination" => false,
                _ => true,
            };
            let mut var = o.clone();
            let new = if o.get(k) == Some(&CanonicalJsonValue::String("changed".into())) { "changed2" } else { "changed" };
            var.insert(k.to_owned(), CanonicalJsonValue::String(new.into()));
            let r = cls_content(&reference_hash(&var, &rules));
            if !r.starts_with("ok ") {
                continue;
            }
            if keeps && r == imp {
                t3.push(format!("room version {ver}: top-level key `{k}` survives redaction per the specification, but changing it does not change the reference hash"));
            }
            if !keeps && r != imp {
                t3.push(format!("room version {ver}: top-level key `{k}` is stripped by redaction per the specification, but changing it changes the reference hash"));
            }
        }
    }
    // a key redaction strips in every version does not influence the result
    {
        let mut var = o.clone();
        var.insert("zz.fresh".into(), cjv(gen_canonical_value(&mut rng, 2)));
        let r = cls_content(&reference_hash(&var, &rules));
        if r != imp {
            t3.push(format!("reference hash depends on the unspecified top-level key `zz.fresh`: `{imp}` vs `{r}`"));
        }
    }

    // unchanged by redaction (with and without `redacted_because`)
    if let Ok(red) = &redacted {
        let r = cls_content(&reference_hash(red, &rules));
        if r != imp {
            t3.push(format!("reference hash of the redacted copy differs: `{imp}` vs `{r}`"));
        }
        let because = to_cj_obj(json!({"type": "m.room.redaction", "event_id": "$r", "content": {}}));
        if let Ok(red2) = redact(o.clone(), &rules.redaction, Some(RedactedBecause::from_json(because))) {
            let r = cls_content(&reference_hash(&red2, &rules));
            if r != imp {
                t3.push(format!("reference hash of the redacted copy (with redacted_because) differs: `{imp}` vs `{r}`"));
            }
        }
    }

    // covered changes change the hash
    if let Ok(h0) = &res {
        let mut covered: Vec<(String, CanonicalJsonObject)> = Vec::new();
        for k in ALWAYS_KEPT_TOP {
            let mut a = o.clone();
            match o.get(*k) {
                Some(v) => {
                    a.insert((*k).to_owned(), CanonicalJsonValue::Array(vec![v.clone()]));
                    let mut b = o.clone();
                    b.remove(*k);
                    covered.push(((*k).to_owned(), b));
                }
                None => {
                    a.insert((*k).to_owned(), cjv(json!(0)));
                }
            }
            covered.push(((*k).to_owned(), a));
        }
        // `membership` in the content of a member event is kept by every version
        if o.get("type") == Some(&CanonicalJsonValue::String("m.room.member".into())) {
            if let Some(CanonicalJsonValue::Object(c)) = o.get("content") {
                let mut c2 = c.clone();
                let newv = match c.get("membership") {
                    Some(v) => CanonicalJsonValue::Array(vec![v.clone()]),
                    None => cjv(json!("join")),
                };
                c2.insert("membership".into(), newv);
                let mut a = o.clone();
                a.insert("content".into(), CanonicalJsonValue::Object(c2));
                covered.push(("content.membership".into(), a));
            }
        }
        for (k, var) in covered {
            if let Ok(h) = reference_hash(&var, &rules) {
                if &h == h0 {
                    t3.push(format!("a change to the covered field `{k}` did not change the reference hash"));
                }
            }
        }
    }
    Outcome { imp, t3 }
}

/// The event ID of a hash-ID room version, formed the way ruma's callers form it
/// (`format!("${}", reference_hash(object, rules)?)`) and parsed by the real `EventId` parser.
/// T3: the real parser accepts it, finds no server name and the hash as localpart; it is `$` + 43
/// characters of the alphabet the SPEC prescribes; it equals the independent recomputation; the
/// redacted copy and `unsigned`/`signatures` variants have the same ID.
fn run_eventid(ver: u32, o: CanonicalJsonObject, req: &str) -> Outcome {
    let mut t3 = Vec::new();
    let mut rng = Rng::new(fnv(req));
    let rules = rules(ver);
    if matches!(rules.event_id_format, EventIdFormatVersion::V1) {
        return Outcome::new("none".to_owned());
    }
    let form = |o: &CanonicalJsonObject| -> String {
        match reference_hash(o, &rules) {
            Ok(h) => format!("ok ${h}"),
            Err(Error::PduSize) => "err size".into(),
            Err(_) => "err other".into(),
        }
    };
    let imp = form(&o);
    if let Some(id) = imp.strip_prefix("ok ") {
        match <&EventId>::try_from(id) {
            Ok(eid) => {
                if eid.server_name().is_some() {
                    t3.push(format!("hash event ID `{id}` has a server name for the real parser"));
                }
                if format!("${}", eid.localpart()) != id {
                    t3.push(format!("localpart of `{id}` is `{}`", eid.localpart()));
                }
            }
            Err(e) => t3.push(format!("`${{reference_hash}}` = `{id}` is rejected by EventId::try_from: {e}")),
        }
        let body = &id[1..];
        let allowed: &[u8] = if ver <= 3 { b"+/" } else { b"-_" };
        if body.len() != 43
            || !body.bytes().all(|b| b.is_ascii_alphanumeric() || allowed.contains(&b))
        {
            t3.push(format!("event ID `{id}` is not `$` + 43 characters of the version's base64 alphabet"));
        }
    }
    // independent recomputation with the alphabet the specification prescribes
    let redacted = redact(o.clone(), &rules.redaction, None);
    let expect = match &redacted {
        Err(_) => "err other".to_owned(),
        Ok(red) => {
            let pre = bytes_of(&without(red, &["signatures", "unsigned"]));
            if pre.len() > MAX_PDU {
                "err size".to_owned()
            } else {
                format!("ok ${}", spec_engine(ver).encode(Sha256::digest(&pre)))
            }
        }
    };
    if imp != expect {
        t3.push(format!("event ID differs from `$` + base64(sha256(redacted canonical JSON)): got `{imp}`, expected `{expect}`"));
    }
    if let Ok(red) = &redacted {
        let r = form(red);
        if r != imp {
            t3.push(format!("event ID of the redacted copy differs: `{imp}` vs `{r}`"));
        }
    }
    for f in ["unsigned", "signatures"] {
        for var in uncovered_variants(&o, f, &mut rng) {
            let r = form(&var);
            if r != imp {
                t3.push(format!("event ID depends on `{f}`: `{imp}` vs `{r}`"));
            }
        }
    }
    Outcome { imp, t3 }
}

/// Behavioural: which alphabet does `reference_hash` use for this version? Probe events until the
/// digest contains one of the two characters the alphabets differ in.
/// `hashes.sha256` written by `hash_and_sign_event` (observe_at of C05): whatever the event carried
/// under `hashes` before, the stored value must be the content hash of the event as it is now.
/// Answer: `err size` (too large), `err other` (`hashes` present and not an object), otherwise
/// `ok <sha256 as stored> <number of keys of hashes afterwards>` — read from the object the real
/// function left behind (the insertion happens before the redact/sign steps, so it is there even
/// when those fail).
fn run_stored(ver: u32, orig: CanonicalJsonObject) -> Outcome {
    let mut d = vec![0x30u8, 0x2e, 0x02, 0x01, 0x00, 0x30, 0x05, 0x06, 0x03, 0x2b, 0x65, 0x70, 0x04, 0x22, 0x04, 0x20];
    d.extend_from_slice(&[7u8; 32]);
    let kp = Ed25519KeyPair::from_der(&d, "1".to_owned()).expect("PKCS#8 v1 document for a 32-byte seed");
    let mut ev = orig.clone();
    let r = hash_and_sign_event("h.example", &kp, &mut ev, &rules(ver).redaction);
    let mut t3 = Vec::new();
    let ans = match (&r, ev.get("hashes")) {
        (Err(Error::PduSize), _) => "err size".to_owned(),
        (_, Some(CanonicalJsonValue::Object(h))) => match h.get("sha256") {
            Some(CanonicalJsonValue::String(sv)) => {
                // T3: the stored hash is the content hash of the event as returned
                match content_hash_str(&ev) {
                    Ok(now) if &now != sv => t3.push(format!(
                        "hashes.sha256 written by hash_and_sign_event ({sv}) is not the content hash of the event ({now})"
                    )),
                    _ => {}
                }
                format!("ok {sv} {}", h.len())
            }
            _ => {
                t3.push("hashes.sha256 after hash_and_sign_event is not a string".to_owned());
                format!("ok #not-a-string {}", h.len())
            }
        },
        _ => "err other".to_owned(),
    };
    Outcome { imp: ans, t3 }
}

fn run_alpha(ver: u32) -> String {
    let rules = rules(ver);
    for i in 0..1000 {
        let ev = to_cj_obj(json!({"type": "m.room.message", "depth": i}));
        let h = reference_hash(&ev, &rules).expect("probe hashes");
        let std = h.contains('+') || h.contains('/');
        let url = h.contains('-') || h.contains('_');
        match (std, url) {
            (true, false) => return "std".into(),
            (false, true) => return "url".into(),
            (false, false) => continue,
            (true, true) => return "mixed".into(),
        }
    }
    "undetermined".into()
}

fn fmt_no(f: &EventIdFormatVersion) -> u32 {
    match f {
        EventIdFormatVersion::V1 => 1,
        EventIdFormatVersion::V2 => 2,
        EventIdFormatVersion::V3 => 3,
        #[allow(unreachable_patterns)]
        _ => 0,
    }
}

fn tf(b: bool) -> &'static str {
    if b {
        "t"
    } else {
        "f"
    }
}

pub fn run(req: &str) -> Outcome {
    let toks: Vec<&str> = req.split(' ').collect();
    let bad = Outcome::bad;
    match toks[0] {
        "c05.fmt" => {
            let Some(ver) = toks.get(1).and_then(|t| t.parse::<u32>().ok()) else { return bad() };
            Outcome::new(fmt_no(&rules(ver).event_id_format).to_string())
        }
        "c05.alpha" => {
            let Some(ver) = toks.get(1).and_then(|t| t.parse::<u32>().ok()) else { return bad() };
            Outcome::new(run_alpha(ver))
        }
        "c05.sigrules" => {
            let Some(ver) = toks.get(1).and_then(|t| t.parse::<u32>().ok()) else { return bad() };
            let s = rules(ver).signatures;
            Outcome::new(format!(
                "{} {}",
                tf(s.check_event_id_server),
                tf(s.check_join_authorised_via_users_server)
            ))
        }
        "c05.content" => {
            let mut it = toks[1..].iter();
            let Some(ev) = cj_parse_obj(&mut it) else { return bad() };
            if it.next().is_some() {
                return bad();
            }
            run_content(ev, req)
        }
        "c05.stored" => {
            let Some(ver) = toks.get(1).and_then(|t| t.parse::<u32>().ok()) else { return bad() };
            if !(1..=11).contains(&ver) {
                return bad();
            }
            let mut it = toks[2..].iter();
            let Some(ev) = cj_parse_obj(&mut it) else { return bad() };
            if it.next().is_some() {
                return bad();
            }
            run_stored(ver, ev)
        }
        "c05.ref" => {
            let Some(ver) = toks.get(1).and_then(|t| t.parse::<u32>().ok()) else { return bad() };
            if !(1..=11).contains(&ver) {
                return bad();
            }
            let mut it = toks[2..].iter();
            let Some(ev) = cj_parse_obj(&mut it) else { return bad() };
            if it.next().is_some() {
                return bad();
            }
            run_ref(ver, ev, req)
        }
        "c05.eventid" => {
            let Some(ver) = toks.get(1).and_then(|t| t.parse::<u32>().ok()) else { return bad() };
            if !(1..=11).contains(&ver) {
                return bad();
            }
            let mut it = toks[2..].iter();
            let Some(ev) = cj_parse_obj(&mut it) else { return bad() };
            if it.next().is_some() {
                return bad();
            }
            run_eventid(ver, ev, req)
        }
        "c05.sha" => {
            let Some(b) = toks.get(1).and_then(|t| t.strip_prefix('s')).and_then(h_util::unhex) else {
                return bad();
            };
            Outcome::new(format!("ok {}", h_util::hex(&Sha256::digest(&b))))
        }
        "c05.b64" => {
            let Some(b) = toks.get(2).and_then(|t| t.strip_prefix('s')).and_then(h_util::unhex) else {
                return bad();
            };
            match toks[1] {
                "std" => Outcome::new(format!("ok {}", STD.encode(&b))),
                "url" => Outcome::new(format!("ok {}", URL.encode(&b))),
                _ => bad(),
            }
        }
        _ => bad(),
    }
}

/// T1: `event_id_format`, `signatures` and `redaction` rules reached through `RoomVersionId::rules()`.
fn extract() -> String {
    let mut s = String::new();
    s.push_str("-- GENERATED by `h-c05 c05 extract` from the running implementation. Do not edit.\n");
    s.push_str("import RumaModel.Model.Hash\nnamespace Ruma.Generated.C05\nopen Ruma.Redact Ruma.Hash\n\n");
    s.push_str("/-- `RoomVersionId::V<n>.rules()` for n = 1..11: (n, event_id_format,\n");
    s.push_str("signatures.check_event_id_server, signatures.check_join_authorised_via_users_server). -/\n");
    s.push_str("def formatTable : List (Nat × EventIdFormat × Bool × Bool) := [\n");
    for v in 1..=11u32 {
        let r = rules(v);
        s.push_str(&format!(
            "  ({v}, .v{}, {}, {}){}\n",
            fmt_no(&r.event_id_format),
            r.signatures.check_event_id_server,
            r.signatures.check_join_authorised_via_users_server,
            if v == 11 { "" } else { "," }
        ));
    }
    s.push_str("]\n\n/-- `RoomVersionId::V<n>.rules().redaction` for n = 1..11, read field by field. -/\n");
    s.push_str("def redactionTable : List (Nat × Rules) := [\n");
    for v in 1..=11u32 {
        let r = rules(v).redaction;
        s.push_str(&format!(
            "  ({v}, ⟨{}, {}, {}, {}, {}, {}, {}, {}⟩){}\n",
            r.keep_room_aliases_aliases,
            r.keep_room_join_rules_allow,
            r.keep_room_member_join_authorised_via_users_server,
            r.keep_origin_membership_prev_state,
            r.keep_room_create_content,
            r.keep_room_redaction_redacts,
            r.keep_room_power_levels_invite,
            r.keep_room_member_third_party_invite_signed,
            if v == 11 { "" } else { "," }
        ));
    }
    s.push_str("]\n\nend Ruma.Generated.C05\n");
    s
}

// ---------------------------------------------------------------------------------------------
// generators

const TYPES: &[&str] = &[
    "m.room.member",
    "m.room.create",
    "m.room.join_rules",
    "m.room.power_levels",
    "m.room.history_visibility",
    "m.room.redaction",
    "m.room.aliases",
    "m.room.server_acl",
    "m.room.message",
    "m.room.topic",
    "m.room.third_party_invite",
    "x.custom",
    "",
];

const TOP_KEYS: &[&str] = &[
    "event_id", "room_id", "sender", "state_key", "hashes", "signatures", "depth", "prev_events",
    "auth_events", "origin_server_ts", "origin", "membership", "prev_state", "unsigned", "redacts",
    "age_ts", "prev_content", "replaces_state", "zz.fresh", "",
];

const CONTENT_KEYS: &[&str] = &[
    "membership", "join_authorised_via_users_server", "third_party_invite", "displayname",
    "reason", "creator", "m.federate", "room_version", "predecessor", "join_rule", "allow", "ban",
    "events", "events_default", "kick", "redact", "state_default", "users", "users_default",
    "invite", "notifications", "history_visibility", "redacts", "aliases", "deny", "body",
    "msgtype", "topic", "signed", "zz.fresh", "",
];

const TPI_KEYS: &[&str] = &["signed", "display_name", "mxid", "token", "signatures", "zz.fresh"];

fn gen_event(rng: &mut Rng, malformed_ok: bool) -> serde_json::Map<String, Value> {
    let mut ev = serde_json::Map::new();
    match if malformed_ok { rng.below(25) } else { 2 } {
        0 => {}
        1 => {
            ev.insert("type".into(), json!(5));
        }
        _ => {
            ev.insert("type".into(), json!(*rng.pick(TYPES)));
        }
    }
    for k in TOP_KEYS {
        if rng.chance(2, 5) {
            let v = match *k {
                // realistic shapes most of the time, arbitrary values otherwise
                "hashes" if rng.chance(2, 3) => json!({"sha256": "n4bQgYhMfWWaL+qgxVrQFaO/TxsrC4Is0V1sFbDwCgg"}),
                "signatures" if rng.chance(2, 3) => json!({"h": {"ed25519:1": "c2ln"}}),
                "unsigned" if rng.chance(2, 3) => json!({"age": rng.range(0, 5000)}),
                _ => gen_canonical_value(rng, 2),
            };
            ev.insert((*k).to_owned(), v);
        }
    }
    match if malformed_ok { rng.below(15) } else { 2 } {
        0 => {}
        1 => {
            ev.insert("content".into(), gen_canonical_value(rng, 1));
        }
        _ => {
            let mut c = serde_json::Map::new();
            for k in CONTENT_KEYS {
                if rng.chance(1, 4) {
                    c.insert((*k).to_owned(), gen_canonical_value(rng, 2));
                }
            }
            if rng.chance(1, 3) {
                if malformed_ok && rng.chance(1, 8) {
                    c.insert("third_party_invite".into(), gen_canonical_value(rng, 1));
                } else {
                    let mut t = serde_json::Map::new();
                    for k in TPI_KEYS {
                        if rng.chance(1, 2) {
                            t.insert((*k).to_owned(), gen_canonical_value(rng, 1));
                        }
                    }
                    c.insert("third_party_invite".into(), Value::Object(t));
                }
            }
            ev.insert("content".into(), Value::Object(c));
        }
    }
    ev
}

fn req_content(ev: &CanonicalJsonObject) -> String {
    format!("c05.content {}", cj_obj_toks(ev))
}

fn req_ref(ver: u32, ev: &CanonicalJsonObject) -> String {
    format!("c05.ref {ver} {}", cj_obj_toks(ev))
}

fn pad_string(rng: &mut Rng, bytes: usize) -> String {
    // a mixture of 1-byte, 2-byte (é), escaped (`"` → 2 bytes, U+0001 → 6 bytes) and 4-byte
    // characters, then ASCII to reach the exact byte count of the *serialised* string body
    let mut s = String::new();
    let mut used = 0usize;
    let units: &[(&str, usize)] = &[("a", 1), ("é", 2), ("\"", 2), ("\u{1}", 6), ("\u{10000}", 4), ("\\", 2), ("\n", 2)];
    let fancy = rng.below(40);
    for _ in 0..fancy {
        let (u, n) = *rng.pick(units);
        if used + n <= bytes {
            s.push_str(u);
            used += n;
        }
    }
    for _ in used..bytes {
        s.push('b');
    }
    s
}

/// Events whose hashed canonical form has exactly `target` bytes: (content-hash case, ref-hash case).
fn boundary_cases(rng: &mut Rng, target: usize, out: &mut Vec<Req>) {
    // content hash: pad `content.body`
    let ver = rng.range(1, 11) as u32;
    let mut ev = gen_event(rng, false);
    ev.insert("type".into(), json!("m.room.message"));
    let mut c = match ev.remove("content") {
        Some(Value::Object(c)) => c,
        _ => serde_json::Map::new(),
    };
    c.insert("body".into(), json!(""));
    ev.insert("content".into(), Value::Object(c.clone()));
    let base = to_cj_obj(Value::Object(ev.clone()));
    let l0 = bytes_of(&without(&base, &["unsigned", "signatures", "hashes"])).len();
    if l0 <= target {
        c.insert("body".into(), json!(pad_string(rng, target - l0)));
        ev.insert("content".into(), Value::Object(c));
        let e = to_cj_obj(Value::Object(ev.clone()));
        assert_eq!(bytes_of(&without(&e, &["unsigned", "signatures", "hashes"])).len(), target);
        out.push(Req::new(req_content(&e), format!("content-size-{target}")));
        // the same event's reference hash is small (body is redacted away)
        out.push(Req::new(req_ref(ver, &e), "ref-of-big-unredacted"));
    }
    // reference hash: pad a key that survives redaction in every version
    let ver = rng.range(1, 11) as u32;
    let mut ev = gen_event(rng, false);
    let padkey = *rng.pick(&["state_key", "sender", "room_id", "event_id"]);
    ev.insert(padkey.into(), json!(""));
    let base = to_cj_obj(Value::Object(ev.clone()));
    // (a generated member event may carry a `third_party_invite` that is not an object, which room
    // version 11's redaction refuses: no boundary case from such an event)
    let Ok(red) = redact(base.clone(), &rules(ver).redaction, None) else { return };
    let l0 = bytes_of(&without(&red, &["signatures", "unsigned"])).len();
    if l0 <= target {
        ev.insert(padkey.into(), json!(pad_string(rng, target - l0)));
        let e = to_cj_obj(Value::Object(ev));
        out.push(Req::new(req_ref(ver, &e), format!("ref-size-{target}")));
    }
}

/// Events that are only too large inside the parts that are not hashed.
fn big_uncovered_cases(rng: &mut Rng, field: &str, out: &mut Vec<Req>) {
    let mut ev = gen_event(rng, false);
    ev.insert(field.into(), json!({"pad": "x".repeat(66_000)}));
    let e = to_cj_obj(Value::Object(ev));
    out.push(Req::new(req_content(&e), format!("content-big-{field}")));
    let ver = rng.range(1, 11) as u32;
    // `hashes` IS covered by the reference hash (redaction keeps it): expect `err size` there
    out.push(Req::new(req_ref(ver, &e), format!("ref-big-{field}")));
}

fn random_bytes(rng: &mut Rng, n: usize) -> Vec<u8> {
    (0..n).map(|_| (rng.next() & 0xff) as u8).collect()
}

fn gen(rng: &mut Rng, n: usize, tier: &str) -> Vec<Req> {
    let mut v = Vec::new();
    for ver in 1..=11u32 {
        v.push(Req::new(format!("c05.fmt {ver}"), "fmt"));
        v.push(Req::new(format!("c05.alpha {ver}"), "alpha"));
        v.push(Req::new(format!("c05.sigrules {ver}"), "sigrules"));
    }
    // reference implementations against the sha2 / base64 crates: every length around the padding
    // boundaries, then random lengths
    for len in (0..=130usize).chain([191, 192, 193, 255, 256, 257, 1000]) {
        let b = random_bytes(rng, len);
        v.push(Req::new(format!("c05.sha s{}", h_util::hex(&b)), "sha"));
    }
    for len in 0..=40usize {
        let b = random_bytes(rng, len);
        v.push(Req::new(format!("c05.b64 std s{}", h_util::hex(&b)), "b64"));
        v.push(Req::new(format!("c05.b64 url s{}", h_util::hex(&b)), "b64"));
    }
    for b in [[0xfbu8, 0xff, 0xff], [0xff, 0xff, 0xfe], [0xfb, 0xef, 0xbe]] {
        v.push(Req::new(format!("c05.b64 std s{}", h_util::hex(&b)), "b64"));
        v.push(Req::new(format!("c05.b64 url s{}", h_util::hex(&b)), "b64"));
    }
    // size boundary: few in the quick tier (each is a 64 KiB event)
    let rounds = if tier == "thorough" { 40 } else { 2 };
    for _ in 0..rounds {
        for target in [MAX_PDU - 1, MAX_PDU, MAX_PDU + 1] {
            boundary_cases(rng, target, &mut v);
        }
    }
    for field in ["unsigned", "signatures", "hashes"] {
        big_uncovered_cases(rng, field, &mut v);
    }
    // every version x every type at least once, then random
    for ver in 1..=11u32 {
        for ty in TYPES {
            let mut ev = gen_event(rng, false);
            ev.insert("type".into(), json!(*ty));
            let e = to_cj_obj(Value::Object(ev));
            v.push(Req::new(req_ref(ver, &e), "ref"));
        }
    }
    // every version x every type with a redaction rule of its own, content carrying every key some
    // version's table names (the covered-change oracle of run_ref then visits every cell)
    for ver in 1..=11u32 {
        for ty in ["m.room.member", "m.room.create", "m.room.join_rules", "m.room.power_levels", "m.room.history_visibility", "m.room.aliases", "m.room.redaction"] {
            let mut c = serde_json::Map::new();
            for k in ["membership", "join_authorised_via_users_server", "creator", "room_version", "m.federate", "join_rule", "allow", "ban", "events", "events_default", "kick", "redact", "state_default", "users", "users_default", "invite", "history_visibility", "aliases", "redacts"] {
                if (1..=11).any(|v| spec_keeps_content_key(v, ty, k)) {
                    c.insert(k.to_owned(), json!(format!("v-{k}")));
                }
            }
            let e = to_cj_obj(json!({"type": ty, "sender": "@a:a.example", "state_key": "", "room_id": "!r:a.example",
                "origin_server_ts": 1, "depth": 3, "prev_events": [], "auth_events": [], "content": Value::Object(c),
                "origin": "a.example", "membership": "join", "prev_state": [], "redacts": "$x:a.example", "age_ts": 5,
                "prev_content": {"x": 1}, "replaces_state": "$p:a.example", "outlier": false, "destination": "b.example",
                "unsigned": {"redacted_because": {"type": "m.room.redaction"}}}));
            v.push(Req::new(req_ref(ver, &e), "ref.cells"));
        }
    }
    // hashes.sha256 written by hash_and_sign_event: fresh events, events that already carry `hashes`
    // (a stale sha256, other algorithms, an empty object, ill-shaped values), all versions
    for i in 0..(n / 10).max(60) {
        let mut ev = gen_event(rng, false);
        match i % 6 {
            0 => {
                ev.remove("hashes");
            }
            1 => {
                ev.insert("hashes".into(), json!({}));
            }
            2 => {
                ev.insert("hashes".into(), json!({"sha256": "n4bQgYhMfWWaL+qgxVrQFaO/TxsrC4Is0V1sFbDwCgg"}));
            }
            3 => {
                ev.insert("hashes".into(), json!({"md5": "kept", "sha256": "stale"}));
            }
            4 => {
                ev.insert("hashes".into(), json!({"sha512": "other", "sha256": 5}));
            }
            _ => {
                ev.insert("hashes".into(), gen_canonical_value(rng, 1));
            }
        }
        ev.remove("signatures");
        let e = to_cj_obj(Value::Object(ev));
        let ver = rng.range(1, 11) as u32;
        v.push(Req::new(format!("c05.stored {ver} {}", cj_obj_toks(&e)), "stored"));
    }
    // event IDs: every version once on a well-formed event (1, 2: `none`), then random versions,
    // some malformed events (redaction errors) among them
    for ver in 1..=11u32 {
        let e = to_cj_obj(Value::Object(gen_event(rng, false)));
        v.push(Req::new(format!("c05.eventid {ver} {}", cj_obj_toks(&e)), "eventid"));
    }
    for i in 0..(n / 10).max(60) {
        let e = to_cj_obj(Value::Object(gen_event(rng, i % 5 == 0)));
        let ver = rng.range(1, 11) as u32;
        v.push(Req::new(format!("c05.eventid {ver} {}", cj_obj_toks(&e)), "eventid"));
    }
    for _ in 0..n {
        let ev = to_cj_obj(Value::Object(gen_event(rng, true)));
        if rng.chance(1, 3) {
            v.push(Req::new(req_content(&ev), "content"));
        } else {
            let ver = rng.range(1, 11) as u32;
            v.push(Req::new(req_ref(ver, &ev), "ref"));
        }
    }
    v
}

fn main() {
    h_lib::std_main(Some(&extract), &gen, &run);
}
