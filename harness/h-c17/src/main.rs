//! C17 — entry points for untrusted wire data never panic, abort or hang.
//!
//! Requests:
//!   `c17.ep <entry> h<hex bytes>` → `returns` | `panic` | `hang`   (spec op: must be `returns`)
//!   `c17.cd h<hex>`     → `ok <type> <none|h<hex filename>>` | `err`   (model of the parser)
//!   `c17.lossy h<hex>`  → `h<hex>`    (std from_utf8_lossy, the model's external assumption)
//!   `c17.der h<hex>`    → `nopanic` | `panic`   (Ed25519KeyPair::from_der, ring-compat model)
//! Every entry point runs on a watchdog thread (deadline), each under catch_unwind; after an input
//! that was rejected, a fixed valid probe for the same entry point is re-run and must give the
//! answer recorded at start-up ("a rejected input has no effect on later calls").
mod entries;
mod scan;
mod seeds;


use h_lib::{h_util, Outcome, Req, Rng};

fn hx(b: &[u8]) -> String {
    format!("h{}", h_util::hex(b))
}

fn unh(t: &str) -> Option<Vec<u8>> {
    h_util::unhex(t.strip_prefix('h')?)
}

#[derive(Debug, Clone, PartialEq, Eq)]
pub enum Ran {
    /// returned a value; the string is a digest of it (used by the probe comparison)
    Accepted(String),
    Rejected,
    Panicked,
    Hung,
}

/// Run one entry point on one input with a deadline (20 s) on the long-lived watchdog worker, under
/// catch_unwind. A worker that hangs is abandoned (it keeps spinning) and replaced.
fn run_guarded(entry: &'static entries::Entry, input: Vec<u8>) -> Ran {
    match scan::with_deadline_secs(20, move || (entry.run)(&input)) {
        Some(Ok(Some(d))) => Ran::Accepted(d),
        Some(Ok(None)) => Ran::Rejected,
        Some(Err(())) => Ran::Panicked,
        // a stack overflow would have aborted the process, so no answer within the deadline is a hang
        None => Ran::Hung,
    }
}

/// A modelled scanner on a watchdog thread: an answer, `panic`, or `hang` (no answer within 5 s; these
/// scanners take microseconds). A hang is reported as a property failure of the implementation (T3).
/// After three hangs of one op in this process its remaining requests are not run any more (each would
/// cost another deadline and another spinning thread); they are answered `skipped`, which can only
/// happen in a run that already reports the hangs.
fn run_scan_guarded(req: &str, op: &str) -> Outcome {
    use std::{collections::HashMap, sync::Mutex};
    static HANGS: Mutex<Option<HashMap<String, u32>>> = Mutex::new(None);
    if HANGS.lock().unwrap().get_or_insert_with(HashMap::new).get(op).copied().unwrap_or(0) >= 3 {
        return Outcome::new("skipped");
    }
    let owned = req.to_owned();
    let r = scan::with_deadline(move || {
        let toks: Vec<&str> = owned.split(' ').collect();
        scan::run(&toks).unwrap_or_else(Outcome::bad)
    });
    match r {
        Some(Ok(o)) => o,
        Some(Err(())) => Outcome::new("panic"),
        None => {
            *HANGS.lock().unwrap().get_or_insert_with(HashMap::new).entry(op.to_owned()).or_insert(0) += 1;
            Outcome { imp: "hang".into(), t3: vec!["the implementation did not return within 5 s".into()] }
        }
    }
}

fn run_ep(name: &str, input: Vec<u8>) -> Outcome {
    let Some(entry) = entries::ENTRIES.iter().find(|e| e.name == name) else {
        return Outcome::bad();
    };
    let mut t3 = Vec::new();
    // recorded before this (or any) input ran through the entry point in this process
    let before = entries::probe_answer(entry);
    let r = run_guarded(entry, input);
    if let Ran::Accepted(d) = &r {
        // an entry point that checks a clause of the property itself reports the failure in its answer
        if d.starts_with("VIOLATION") {
            t3.push(d.clone());
        }
    }
    let imp = match r {
        Ran::Accepted(_) | Ran::Rejected => "returns",
        Ran::Panicked => "panic",
        Ran::Hung => "hang",
    };
    if r != Ran::Hung {
        // statelessness: the probe answers as it does in a fresh process
        let probe = seeds::probe(name);
        let after = run_guarded(entry, probe.to_vec());
        if before != after {
            t3.push(format!("probe of {name} changed after this input: {before:?} -> {after:?}"));
        }
    }
    Outcome { imp: imp.into(), t3 }
}

fn run(req: &str) -> Outcome {
    let toks: Vec<&str> = req.split(' ').collect();
    if scan::is_scan_op(toks[0]) {
        return run_scan_guarded(req, toks[0]);
    }
    match toks.as_slice() {
        ["c17.ep", name, h] => match unh(h) {
            Some(b) => run_ep(name, b),
            None => Outcome::bad(),
        },
        ["c17.cd", h] => {
            let Some(b) = unh(h) else { return Outcome::bad() };
            use ruma_common::http_headers::{ContentDisposition, ContentDispositionType};
            match ContentDisposition::try_from(b.as_slice()) {
                Ok(cd) => {
                    let ty = match &cd.disposition_type {
                        ContentDispositionType::Inline => "inline".to_owned(),
                        ContentDispositionType::Attachment => "attachment".to_owned(),
                        other => format!("custom:{}", h_util::hex(other.as_str().as_bytes())),
                    };
                    let f = match &cd.filename {
                        None => "none".to_owned(),
                        Some(f) => hx(f.as_bytes()),
                    };
                    let mut t3 = Vec::new();
                    // formatting a parsed value and parsing it again must not panic either
                    let text = cd.to_string();
                    if h_util::guarded(|| ContentDisposition::try_from(text.as_bytes()).is_ok()).is_err() {
                        t3.push("re-parsing the formatted header panicked".into());
                    }
                    Outcome { imp: format!("ok {ty} {f}"), t3 }
                }
                Err(_) => Outcome::new("err"),
            }
        }
        ["c17.lossy", h] => {
            let Some(b) = unh(h) else { return Outcome::bad() };
            Outcome::new(format!("ok {}", hx(String::from_utf8_lossy(&b).as_bytes())))
        }
        ["c17.der", h] => {
            let Some(b) = unh(h) else { return Outcome::bad() };
            let r = h_util::guarded(|| {
                ruma_signatures::Ed25519KeyPair::from_der(&b, "1".to_owned()).is_ok()
            });
            Outcome::new(if r.is_ok() { "nopanic" } else { "panic" })
        }
        _ => Outcome::bad(),
    }
}

// ---------------------------------------------------------------------------------------------
// generation

pub(crate) fn mutate_bytes(rng: &mut Rng, mut b: Vec<u8>) -> Vec<u8> {
    const SPECIAL: &[u8] = b"\0\n\r\t \"'\\/;:=,*?%#&+@!$[]{}<>.-_~\x7f\x80\xc3\xe2\xf0\xff0aA";
    let n = 1 + rng.below(3);
    for _ in 0..n {
        let len = b.len();
        match rng.below(9) {
            0 if len > 0 => {
                let i = rng.below(len);
                b.remove(i);
            }
            1 if len > 0 => {
                let i = rng.below(len);
                let c = b[i];
                b.insert(i, c);
            }
            2 => {
                let i = rng.below(len + 1);
                b.insert(i, *rng.pick(SPECIAL));
            }
            3 if len > 0 => {
                let i = rng.below(len);
                b[i] = *rng.pick(SPECIAL);
            }
            4 if len > 0 => {
                b.truncate(rng.below(len));
            }
            5 if len > 1 => {
                let i = rng.below(len - 1);
                b.swap(i, i + 1);
            }
            6 if len > 0 => {
                // boundary lengths: repeat one byte so that a component reaches 250..260 or k*256±6
                let i = rng.below(len);
                let target =
                    if rng.chance(1, 2) { 250 + rng.below(11) } else { (1 + rng.below(3)) * 256 - 6 + rng.below(13) };
                let c = if b[i].is_ascii_alphanumeric() { b[i] } else { b'a' };
                let ins = vec![c; target.saturating_sub(rng.below(8))];
                let tail = b.split_off(i);
                b.extend(ins);
                b.extend(tail);
            }
            7 if len > 0 => {
                // duplicate a slice
                let i = rng.below(len);
                let j = i + rng.below(len - i) + 1;
                let s = b[i..j.min(len)].to_vec();
                let at = rng.below(len + 1);
                let tail = b.split_off(at);
                b.extend(s);
                b.extend(tail);
            }
            _ => {
                if len > 0 {
                    let i = rng.below(len);
                    b[i] ^= 1 << rng.below(8);
                }
            }
        }
    }
    b
}

fn mutate_json(rng: &mut Rng, v: &mut serde_json::Value, depth: u32) {
    use serde_json::{json, Value};
    let swap = |rng: &mut Rng| -> Value {
        match rng.below(9) {
            0 => Value::Null,
            1 => json!(true),
            2 => json!(rng.range(-3, 3)),
            3 => json!(9007199254740993u64),
            4 => json!(1.5),
            5 => json!(""),
            6 => json!([]),
            7 => json!({}),
            _ => json!("x".repeat(250 + rng.below(20))),
        }
    };
    match v {
        Value::Object(m) if !m.is_empty() && depth < 8 => {
            let keys: Vec<String> = m.keys().cloned().collect();
            let k = rng.pick(&keys).clone();
            match rng.below(6) {
                0 => {
                    m.remove(&k);
                }
                1 => {
                    m.insert(k, swap(rng));
                }
                2 => {
                    let val = m.get(&k).cloned().unwrap();
                    m.insert(format!("{k}{}", rng.below(3)), val);
                }
                3 => {
                    // deep nesting, below serde_json's recursion limit of 128
                    let mut inner = m.get(&k).cloned().unwrap();
                    for _ in 0..(100 + rng.below(20)) {
                        inner = if rng.chance(1, 2) { json!([inner]) } else { json!({ "a": inner }) };
                    }
                    m.insert(k, inner);
                }
                _ => mutate_json(rng, m.get_mut(&k).unwrap(), depth + 1),
            }
        }
        Value::Array(a) if !a.is_empty() && depth < 8 => {
            let i = rng.below(a.len());
            match rng.below(4) {
                0 => {
                    a.remove(i);
                }
                1 => {
                    let x = a[i].clone();
                    a.push(x);
                }
                2 => a[i] = swap(rng),
                _ => mutate_json(rng, &mut a[i], depth + 1),
            }
        }
        other => *other = swap(rng),
    }
}

fn gen_ep(rng: &mut Rng) -> Req {
    let e = rng.pick(entries::ENTRIES);
    let seeds = seeds::seeds(e.name);
    let seed: Vec<u8> = seeds[rng.below(seeds.len())].to_vec();
    let input = if e.json && rng.chance(2, 3) {
        match serde_json::from_slice::<serde_json::Value>(&seed) {
            Ok(mut v) => {
                for _ in 0..(1 + rng.below(3)) {
                    mutate_json(rng, &mut v, 0);
                }
                serde_json::to_vec(&v).unwrap()
            }
            Err(_) => mutate_bytes(rng, seed),
        }
    } else if e.html && rng.chance(1, 6) {
        // deep nesting for the recursive HTML walks
        let d = 100 + rng.below(300);
        let tag = *rng.pick(&["div", "b", "span", "blockquote", "ul", "x-y", "table", "mx-reply"]);
        let mut s = String::new();
        for _ in 0..d {
            s.push_str(&format!("<{tag}>"));
        }
        s.push_str("t");
        if rng.chance(1, 2) {
            for _ in 0..d {
                s.push_str(&format!("</{tag}>"));
            }
        }
        s.into_bytes()
    } else if rng.chance(1, 10) {
        seed
    } else {
        mutate_bytes(rng, seed)
    };
    Req::new(format!("c17.ep {} {}", e.name, hx(&input)), format!("ep.{}", e.name))
}

fn gen_cd(rng: &mut Rng) -> Req {
    const PARTS: &[&str] = &[
        "inline", "attachment", "Attachment", "form-data", "x-custom", "", " ", ";", "; ", " ;",
        "filename", "filename*", "FILENAME", "name", "=", " = ", "\"", "\\", "\\\"", "a.txt",
        "\"a b.txt\"", "\"a\\\"b\"", "utf-8''", "UTF-8'en'", "iso-8859-1''", "%e2%82%ac", "%", "%4",
        "%zz", "'", "\t", "\r\n", "é", "\u{10000}", "a;b", "x y",
    ];
    let mut s: Vec<u8> = Vec::new();
    for _ in 0..rng.below(12) {
        s.extend_from_slice(rng.pick(PARTS).as_bytes());
    }
    if rng.chance(1, 4) {
        s = mutate_bytes(rng, s);
    }
    if rng.chance(1, 8) {
        s.push(*rng.pick(&[0x80u8, 0xff, 0xc3, 0xe2, 0xf0]));
    }
    Req::new(format!("c17.cd {}", hx(&s)), "cd")
}

fn gen_lossy(rng: &mut Rng) -> Req {
    const B: &[u8] = &[
        0x00, 0x41, 0x7f, 0x80, 0x8f, 0x90, 0x9f, 0xa0, 0xbf, 0xc0, 0xc1, 0xc2, 0xdf, 0xe0, 0xe1, 0xec,
        0xed, 0xee, 0xef, 0xf0, 0xf1, 0xf3, 0xf4, 0xf5, 0xff,
    ];
    let n = rng.below(8);
    let s: Vec<u8> = (0..n).map(|_| *rng.pick(B)).collect();
    Req::new(format!("c17.lossy {}", hx(&s)), "lossy")
}

fn gen_der(rng: &mut Rng) -> Req {
    let seeds = seeds::seeds("sig.der");
    let mut s: Vec<u8> = seeds[rng.below(seeds.len())].to_vec();
    match rng.below(5) {
        0 => {}
        1 => s = mutate_bytes(rng, s),
        2 => {
            // splice the ring template somewhere
            let at = rng.below(s.len() + 1);
            let tail = s.split_off(at);
            s.extend([0xA1, 0x23, 0x03, 0x21]);
            s.extend(tail);
        }
        3 => {
            // ring-shaped outer header with random length byte relation
            let body_len = rng.below(300);
            let mut d = vec![0x30, (body_len as i64 + rng.range(-2, 2)).rem_euclid(256) as u8];
            let at = rng.below(body_len + 1);
            for i in 0..body_len {
                if i == at {
                    d.extend([0xA1, 0x23, 0x03, 0x21]);
                }
                d.push(rng.below(256) as u8);
            }
            s = d;
        }
        _ => s = [0xA1, 0x23, 0x03, 0x21][..rng.below(5)].to_vec(),
    }
    Req::new(format!("c17.der {}", hx(&s)), "der")
}

/// Exhaustive single-edit neighbourhood of every seed of the text/byte entry points: every prefix,
/// every single deletion, and at every position the insertion and the replacement of each byte
/// string of `edits` (ASCII specials, multi-byte characters, a raw continuation byte). JSON and HTML
/// seeds get every prefix only. Deterministic; part of every run.
fn neighbourhood(tier: &str, v: &mut Vec<Req>) {
    const EDITS_QUICK: &[&[u8]] = &[
        b"\\", b"\"", b";", b"=", b":", b"/", b"%", b"'", b"[", b"]", b" ", b"\0", b"*", b"?", b"#", b"@",
        "\u{e9}".as_bytes(), "\u{10000}".as_bytes(), b"\x80",
    ];
    const EDITS_MORE: &[&[u8]] = &[
        b"!", b"$", b"&", b"+", b",", b"-", b".", b"<", b">", b"^", b"_", b"`", b"{", b"|", b"}", b"~", b"\n", b"\r",
        b"\t", b"\x7f", b"0", b"a", b"A", b"\xff", b"\xc3", b"\xe2\x82", "\u{20ac}".as_bytes(),
    ];
    let mut edits: Vec<&[u8]> = EDITS_QUICK.to_vec();
    if tier == "thorough" {
        edits.extend_from_slice(EDITS_MORE);
    }
    for e in entries::ENTRIES {
        for s in seeds::seeds(e.name) {
            let cls = format!("nbh.{}", e.name);
            let mut push = |b: Vec<u8>| {
                if e.name == "hdr.cd" {
                    // the modelled parser is compared with the Lean model on the same neighbourhood
                    v.push(Req::new(format!("c17.cd {}", hx(&b)), "nbh.cd-model"));
                }
                if e.name == "sig.der" {
                    v.push(Req::new(format!("c17.der {}", hx(&b)), "nbh.der-model"));
                }
                v.push(Req::new(format!("c17.ep {} {}", e.name, hx(&b)), cls.clone()))
            };
            for i in 0..s.len() {
                push(s[..i].to_vec());
            }
            if e.json || e.html || s.len() > 160 {
                continue;
            }
            for i in 0..s.len() {
                let mut d = s.to_vec();
                d.remove(i);
                push(d);
            }
            for ed in &edits {
                for i in 0..=s.len() {
                    let mut ins = s[..i].to_vec();
                    ins.extend_from_slice(ed);
                    ins.extend_from_slice(&s[i..]);
                    push(ins);
                    if i < s.len() {
                        let mut rep = s[..i].to_vec();
                        rep.extend_from_slice(ed);
                        rep.extend_from_slice(&s[i + 1..]);
                        push(rep);
                    }
                }
            }
        }
    }
}

fn gen(rng: &mut Rng, n: usize, tier: &str) -> Vec<Req> {
    let mut v = Vec::new();
    // every seed unmodified first
    for e in entries::ENTRIES {
        for s in seeds::seeds(e.name) {
            v.push(Req::new(format!("c17.ep {} {}", e.name, hx(s)), format!("seed.{}", e.name)));
        }
    }
    neighbourhood(tier, &mut v);
    for _ in 0..n {
        v.push(match rng.below(10) {
            0 => gen_cd(rng),
            1 => gen_lossy(rng),
            2 => gen_der(rng),
            _ => gen_ep(rng),
        });
    }
    // the hand-written scanners that have a Lean model (T2 against the model)
    scan::gen(rng, n, tier, &mut v);
    v
}

/// `h-c17 c17 stats --seed S --n N`: accepted / rejected / panicked counts per entry point for the
/// generated stream (printed as JSON; used to judge generator quality, not part of the verdict).
fn stats(seed: u64, n: usize) {
    let mut rng = Rng::new(seed);
    let mut m: std::collections::BTreeMap<String, [usize; 4]> = Default::default();
    for r in gen(&mut rng, n, "quick") {
        let toks: Vec<&str> = r.req.split(' ').collect();
        if toks[0] != "c17.ep" {
            continue;
        }
        let entry = entries::ENTRIES.iter().find(|e| e.name == toks[1]).unwrap();
        let k = match run_guarded(entry, unh(toks[2]).unwrap()) {
            Ran::Accepted(_) => 0,
            Ran::Rejected => 1,
            Ran::Panicked => 2,
            Ran::Hung => 3,
        };
        m.entry(toks[1].to_owned()).or_default()[k] += 1;
    }
    println!("{}", serde_json::to_string(&m).unwrap());
}

fn main() {
    let a: Vec<String> = std::env::args().collect();
    if a.get(2).map(String::as_str) == Some("stats") {
        let args = h_util::parse_args();
        h_util::quiet_panics();
        stats(args.seed, args.n);
        return;
    }
    h_lib::std_main(None, &gen, &run);
}
