//! Hand-written scanners that have a Lean model (`lean/RumaModel/Model/Scan*.lean`): the real code is
//! run on the request and its canonical answer is compared with the model's (T2).
//!
//!   `c17.mp h<boundary> h<body> <t|f> <file|loc|bad>`
//!        federation media `multipart/mixed` splitter
//!        (`get_content::v1::Response::try_from_http_response`); the two trailing tokens are the
//!        verdicts of the external stages on this input (serde_json on the metadata part, httparse +
//!        header loop on the content part's headers), recorded by the generator from the real run:
//!        the model takes external code as a parameter.
//!        → `ok file h<file>` | `ok loc` | `err parts0|parts1|sep|json|hdr` | `panic`
//!   `c17.cmsk h<utf-8>`   `CallMemberStateKey::from_str` → `ok uud|ud|u h<user> h<device>|-` | `err`
//!   `c17.lang h<utf-8>`   `ElementData::to_matrix` of `<code class=VALUE>` → `ok none|h<language> t|f`
//!   `c17.tag h<utf-8>`    `TagName::from(s).display_name()` → `ok h<name>`
//!   `c17.word e|d h<text> h<pattern>`  the literal branch of `matches_word_impl`, reached through
//!        `PushCondition::EventMatch` on `content.body` (`e`; pattern without `*`/`?`) or
//!        `PushCondition::ContainsDisplayName` (`d`); both strings are lower-case already → `ok t|f`
//!   `c17.plain h<utf-8>`  `remove_plain_reply_fallback(s)` → `ok h<text>`
use h_lib::{h_util, Outcome, Req, Rng};

fn hx(b: &[u8]) -> String {
    format!("h{}", h_util::hex(b))
}

fn unh(t: &str) -> Option<Vec<u8>> {
    h_util::unhex(t.strip_prefix('h')?)
}

// ---------------------------------------------------------------------------------------------
// multipart/mixed

fn boundary_ok(b: &[u8]) -> bool {
    !b.is_empty() && b.iter().all(|c| c.is_ascii_alphanumeric() || matches!(c, b'-' | b'_' | b'.'))
}

/// The real splitter on (boundary, body): canonical answer, and the verdicts of the external stages.
fn mp_real(boundary: &[u8], body: &[u8]) -> Option<(String, &'static str, &'static str)> {
    use ruma_common::api::{
        error::{DeserializationError, FromHttpResponseError, MultipartMixedDeserializationError as M},
        IncomingResponse,
    };
    use ruma_federation_api::authenticated_media::{get_content::v1::Response, FileOrLocation};
    if !boundary_ok(boundary) {
        return None;
    }
    let ct = format!("multipart/mixed; boundary=\"{}\"", std::str::from_utf8(boundary).ok()?);
    let resp = http::Response::builder().status(200).header("content-type", ct).body(body.to_vec()).ok()?;
    Some(match Response::try_from_http_response(resp) {
        Ok(r) => match r.content {
            FileOrLocation::File(c) => (format!("ok file {}", hx(&c.file)), "t", "file"),
            FileOrLocation::Location(_) => ("ok loc".to_owned(), "t", "loc"),
            #[allow(unreachable_patterns)]
            _ => return None,
        },
        Err(FromHttpResponseError::Deserialization(DeserializationError::MultipartMixed(e))) => match e {
            M::MissingBodyParts { found: 0, .. } => ("err parts0".to_owned(), "t", "file"),
            M::MissingBodyParts { found: 1, .. } => ("err parts1".to_owned(), "t", "file"),
            M::MissingBodyPartInnerSeparator => ("err sep".to_owned(), "t", "file"),
            M::InvalidHeader(_) | M::MissingHeaderSeparator => ("err hdr".to_owned(), "t", "bad"),
            _ => return None,
        },
        Err(FromHttpResponseError::Deserialization(DeserializationError::Json(_))) => {
            ("err json".to_owned(), "f", "file")
        }
        // a Content-Type header problem would be a bug of this harness
        Err(_) => return None,
    })
}

type Job = Box<dyn FnOnce() + Send + 'static>;

/// `f` on the watchdog worker thread: `Some(Ok(v))`, `Some(Err(()))` = it panicked, `None` = no result
/// within 5 s. One long-lived worker serves all calls (a thread per call doubled the run time); a
/// worker that hangs is abandoned and replaced.
pub fn with_deadline<T: Send + 'static>(f: impl FnOnce() -> T + Send + 'static) -> Option<Result<T, ()>> {
    with_deadline_secs(5, f)
}

/// The same with the deadline given in seconds.
pub fn with_deadline_secs<T: Send + 'static>(
    secs: u64,
    f: impl FnOnce() -> T + Send + 'static,
) -> Option<Result<T, ()>> {
    use std::sync::{mpsc, Mutex};
    static WORKER: Mutex<Option<mpsc::Sender<Job>>> = Mutex::new(None);
    let (rtx, rrx) = mpsc::channel();
    let job: Job = Box::new(move || {
        let _ = rtx.send(h_util::guarded(f));
    });
    let mut w = WORKER.lock().unwrap();
    if w.is_none() {
        let (tx, rx) = mpsc::channel::<Job>();
        std::thread::Builder::new()
            .stack_size(16 << 20)
            .spawn(move || {
                for job in rx {
                    job();
                }
            })
            .expect("spawn");
        *w = Some(tx);
    }
    w.as_ref().unwrap().send(job).expect("worker alive");
    match rrx.recv_timeout(std::time::Duration::from_secs(secs)) {
        Ok(r) => Some(r),
        Err(_) => {
            *w = None;
            None
        }
    }
}

fn mp_req(boundary: &[u8], body: &[u8], cls: &str) -> Option<Req> {
    // the external verdicts are recorded from the real run (a panic or a hang leaves them at their
    // defaults; the request is generated all the same and fails when it is run)
    let (b2, body2) = (boundary.to_vec(), body.to_vec());
    let (j, e) = match with_deadline(move || mp_real(&b2, &body2)) {
        Some(Ok(Some((_, j, e)))) => (j, e),
        Some(Ok(None)) => return None,
        Some(Err(())) | None => ("t", "file"),
    };
    Some(Req::new(format!("c17.mp {} {} {j} {e}", hx(boundary), hx(body)), cls))
}

fn cmsk_real(s: &str) -> Outcome {
    use std::str::FromStr;

    use ruma_events::call::member::CallMemberStateKey;
    match CallMemberStateKey::from_str(s) {
        Err(_) => Outcome::new("err"),
        Ok(k) => {
            let u = k.user_id().to_owned();
            let d = k.device_id().map(|d| d.to_owned());
            let mut t3 = Vec::new();
            // which variant it is: equal to the key the constructor builds with / without underscore
            // (equality compares the variant and the formatted text, which must be the input)
            let with = CallMemberStateKey::new(u.clone(), d.clone(), true);
            let without = CallMemberStateKey::new(u.clone(), d.clone(), false);
            let var = match (&d, k == with, k == without) {
                (None, _, true) => "u",
                (Some(_), true, false) => "uud",
                (Some(_), false, true) => "ud",
                _ => {
                    t3.push(format!("parsed key {k:?} equals neither constructor result"));
                    "?"
                }
            };
            if k.as_ref() != s {
                t3.push("raw text of the parsed key differs from the input".to_owned());
            }
            let dev = d.as_ref().map(|d| hx(d.as_bytes())).unwrap_or_else(|| "-".to_owned());
            Outcome { imp: format!("ok {var} {} {dev}", hx(u.as_bytes())), t3 }
        }
    }
}

fn lang_real(value: &str) -> Outcome {
    use ruma_html::{
        matrix::MatrixElement, Attribute, ElementData, LocalName, Namespace, QualName, StrTendril,
    };
    let html = Namespace::from("http://www.w3.org/1999/xhtml");
    let attr = Attribute {
        name: QualName::new(None, Namespace::from(""), LocalName::from("class")),
        value: StrTendril::from(value),
    };
    let el = ElementData {
        name: QualName::new(None, html, LocalName::from("code")),
        attrs: std::cell::RefCell::new([attr].into_iter().collect()),
    };
    let m = el.to_matrix();
    let MatrixElement::Code(code) = &m.element else { return Outcome::bad() };
    let lang = match &code.language {
        Some(l) => hx(l.as_bytes()),
        None => "none".to_owned(),
    };
    Outcome::new(format!("ok {lang} {}", if m.attrs.is_empty() { "f" } else { "t" }))
}

fn word_real(mode: &str, text: &str, pat: &str) -> Outcome {
    use ruma_common::{
        push::{FlattenedJson, PushCondition, PushConditionRoomCtx},
        serde::Raw,
    };
    if text.to_lowercase() != text || pat.to_lowercase() != pat {
        return Outcome::bad();
    }
    let ev = serde_json::json!({ "sender": "@a:h", "content": { "body": text } }).to_string();
    let raw: Raw<serde_json::Value> = Raw::from_json_string(ev).unwrap();
    let flat = FlattenedJson::from_raw(&raw);
    let mut ctx = PushConditionRoomCtx {
        room_id: ruma_common::owned_room_id!("!r:h"),
        member_count: js_int::uint!(3),
        user_id: ruma_common::owned_user_id!("@me:h"),
        user_display_name: String::new(),
        power_levels: None,
    };
    let cond = match mode {
        "e" if !pat.contains(['*', '?']) => {
            PushCondition::EventMatch { key: "content.body".to_owned(), pattern: pat.to_owned() }
        }
        "d" => {
            ctx.user_display_name = pat.to_owned();
            PushCondition::ContainsDisplayName
        }
        _ => return Outcome::bad(),
    };
    Outcome::new(if cond.applies(&flat, &ctx) { "ok t" } else { "ok f" })
}

fn str_op(h: &str, f: impl FnOnce(&str) -> Outcome) -> Outcome {
    match unh(h).and_then(|b| String::from_utf8(b).ok()) {
        Some(s) => f(&s),
        None => Outcome::bad(),
    }
}

pub fn is_scan_op(op: &str) -> bool {
    matches!(op, "c17.mp" | "c17.cmsk" | "c17.lang" | "c17.tag" | "c17.word" | "c17.plain")
}

pub fn run(toks: &[&str]) -> Option<Outcome> {
    match toks {
        ["c17.cmsk", h] => Some(str_op(h, cmsk_real)),
        ["c17.lang", h] => Some(str_op(h, lang_real)),
        ["c17.tag", h] => Some(str_op(h, |s| {
            let t = ruma_events::tag::TagName::from(s);
            Outcome::new(format!("ok {}", hx(t.display_name().as_bytes())))
        })),
        ["c17.word", mode, hs, hp] => Some(str_op(hs, |s| str_op(hp, |p| word_real(mode, s, p)))),
        ["c17.plain", h] => Some(str_op(h, |s| {
            let r = ruma_events::room::message::sanitize::remove_plain_reply_fallback(s);
            Outcome::new(format!("ok {}", hx(r.as_bytes())))
        })),
        ["c17.mp", hb, h, j, e] => {
            if !matches!(*j, "t" | "f") || !matches!(*e, "file" | "loc" | "bad") {
                return Some(Outcome::bad());
            }
            let (Some(b), Some(body)) = (unh(hb), unh(h)) else { return Some(Outcome::bad()) };
            Some(match mp_real(&b, &body) {
                Some((ans, _, _)) => Outcome::new(ans),
                None => Outcome::bad(),
            })
        }
        _ => None,
    }
}

const MP_BOUNDARIES: &[&[u8]] = &[b"B", b"abc", b"Xy-9_.z", b"--", b"-", b"gc0pJq0M08jU534c0p"];

fn mp_structured(rng: &mut Rng, b: &[u8]) -> Vec<u8> {
    let mut v: Vec<u8> = Vec::new();
    let nl = |rng: &mut Rng, v: &mut Vec<u8>| match rng.below(8) {
        0 => v.extend_from_slice(b"\n"),
        1 => {}
        2 => v.extend_from_slice(b" \t\r\n"),
        3 => v.extend_from_slice(b"\r"),
        _ => v.extend_from_slice(b"\r\n"),
    };
    let boundary = |rng: &mut Rng, v: &mut Vec<u8>, first: bool| {
        match rng.below(if first { 4 } else { 12 }) {
            0 if first => {}
            1 if !first => v.extend_from_slice(b"\n"),
            2 if !first => return, // boundary left out altogether
            _ => v.extend_from_slice(b"\r\n"),
        }
        v.extend_from_slice(b"--");
        v.extend_from_slice(b);
    };
    // preamble
    match rng.below(6) {
        0 => v.extend_from_slice(b"preamble"),
        1 => v.extend_from_slice(b"\r\n"),
        2 => {
            v.extend_from_slice(b"--");
            v.extend_from_slice(&b[..rng.below(b.len() + 1)]);
        }
        _ => {}
    }
    boundary(rng, &mut v, true);
    nl(rng, &mut v);
    // metadata part
    if rng.chance(3, 4) {
        v.extend_from_slice(b"Content-Type: application/json");
        nl(rng, &mut v);
    }
    nl(rng, &mut v);
    v.extend_from_slice(*rng.pick(&[&b"{}"[..], b"{}", b"{}", b"{\"a\":[1]}", b"", b"[]", b"{", b"\n{}", b"{}\n"]));
    boundary(rng, &mut v, false);
    nl(rng, &mut v);
    // content part
    for _ in 0..rng.below(4) {
        v.extend_from_slice(*rng.pick(&[
            &b"Content-Type: text/plain"[..],
            b"Content-Disposition: attachment; filename=\"a b.txt\"",
            b"Content-Disposition: ;",
            b"Location: https://example.org/x",
            b"content-type: \xff",
            b"X-Other: 1",
            b"no colon here",
            b" folded",
        ]));
        nl(rng, &mut v);
    }
    nl(rng, &mut v);
    for _ in 0..rng.below(5) {
        v.extend_from_slice(*rng.pick(&[&b"some plain text"[..], b"\r\n", b"\n", b"\r\n--", b"--", b"\0\xff", b"\r\n\r\n"]));
        if rng.chance(1, 8) {
            v.extend_from_slice(b"\r\n--");
            v.extend_from_slice(&b[..rng.below(b.len() + 1)]);
        }
    }
    if rng.chance(5, 6) {
        boundary(rng, &mut v, false);
        if rng.chance(3, 4) {
            v.extend_from_slice(b"--");
        }
        if rng.chance(1, 3) {
            v.extend_from_slice(b"\r\nepilogue");
        }
    }
    v
}

const MP_SEED: &[u8] = b"\r\n--abc\r\nContent-Type: application/json\r\n\r\n{}\r\n--abc\r\nContent-Type: text/plain\r\nContent-Disposition: attachment; filename=my_file.txt\r\n\r\nsome plain text\r\n--abc--";
const MP_SEED_NOPRE: &[u8] = b"--abc\n\n{}\r\n--abc\nLocation: https://example.org/x\n\nx\r\n--abc--";

fn gen_mp(rng: &mut Rng, tier: &str, n: usize, v: &mut Vec<Req>) {
    // every sequence of at most `k` pieces over a small alphabet of boundary / newline / filler pieces
    const PIECES: &[&[u8]] = &[b"--B", b"\r\n--B", b"\n", b"\r\n", b"x", b" ", b"{}", b"\r\n\r\n", b"--"];
    let k = if tier == "thorough" { 5 } else { 4 };
    let mut idx = vec![0usize; 0];
    loop {
        let body: Vec<u8> = idx.iter().flat_map(|i| PIECES[*i].iter().copied()).collect();
        v.extend(mp_req(b"B", &body, "mp.pieces"));
        // next sequence (shorter sequences first within the odometer order)
        let mut i = 0;
        loop {
            if i == idx.len() {
                idx.push(0);
                break;
            }
            idx[i] += 1;
            if idx[i] < PIECES.len() {
                break;
            }
            idx[i] = 0;
            i += 1;
        }
        if idx.len() > k {
            break;
        }
    }
    // single-edit neighbourhood of two valid bodies
    for seed in [MP_SEED, MP_SEED_NOPRE] {
        v.extend(mp_req(b"abc", seed, "mp.seed"));
        for i in 0..=seed.len() {
            v.extend(mp_req(b"abc", &seed[..i], "mp.nbh"));
            if i < seed.len() {
                let mut d = seed.to_vec();
                d.remove(i);
                v.extend(mp_req(b"abc", &d, "mp.nbh"));
            }
            for ed in [&b"\r"[..], b"\n", b"-", b"\r\n--abc", b"--abc", b"c", b" "] {
                let mut ins = seed[..i].to_vec();
                ins.extend_from_slice(ed);
                ins.extend_from_slice(&seed[i..]);
                v.extend(mp_req(b"abc", &ins, "mp.nbh"));
            }
        }
    }
    for _ in 0..n {
        let b = *rng.pick(MP_BOUNDARIES);
        let mut body = mp_structured(rng, b);
        if rng.chance(1, 5) {
            body = crate::mutate_bytes(rng, body);
        }
        v.extend(mp_req(b, &body, "mp.rand"));
    }
}

/// Strings built from pieces that matter to one scanner, mutated at character level (always UTF-8).
fn piece_string(rng: &mut Rng, pieces: &[&str], max: usize) -> String {
    let mut s = String::new();
    for _ in 0..rng.below(max + 1) {
        let p: &&str = rng.pick(pieces);
        s.push_str(p);
    }
    if rng.chance(1, 4) {
        let mut cs: Vec<char> = s.chars().collect();
        for _ in 0..1 + rng.below(2) {
            let n = cs.len();
            match rng.below(4) {
                0 if n > 0 => {
                    cs.remove(rng.below(n));
                }
                1 if n > 0 => {
                    let i = rng.below(n);
                    cs.insert(i, cs[i]);
                }
                2 if n > 1 => {
                    let i = rng.below(n - 1);
                    cs.swap(i, i + 1);
                }
                _ => cs.insert(rng.below(n + 1), *rng.pick(&['_', ':', '.', ' ', '\n', '>', '<', '-', 'é', '€', '\u{10000}', '\0'])),
            }
        }
        s = cs.into_iter().collect();
    }
    s
}

/// Every string of at most `k` pieces (deterministic part of a stream).
fn all_piece_strings(pieces: &[&str], k: usize, mut f: impl FnMut(String)) {
    let mut idx: Vec<usize> = Vec::new();
    loop {
        f(idx.iter().map(|i| pieces[*i]).collect());
        let mut i = 0;
        loop {
            if i == idx.len() {
                idx.push(0);
                break;
            }
            idx[i] += 1;
            if idx[i] < pieces.len() {
                break;
            }
            idx[i] = 0;
            i += 1;
        }
        if idx.len() > k {
            break;
        }
    }
}

fn gen_strs(rng: &mut Rng, tier: &str, n: usize, v: &mut Vec<Req>) {
    let deep = tier == "thorough";
    let sreq = |op: &str, s: &str, cls: &str| Req::new(format!("c17.{op} {}", hx(s.as_bytes())), cls);
    // call member state keys
    const CM_SMALL: &[&str] = &["_", "@", "a", ":", "h", "é", "D"];
    all_piece_strings(CM_SMALL, if deep { 6 } else { 5 }, |s| v.push(sreq("cmsk", &s, "cmsk.pieces")));
    const CM: &[&str] = &[
        "_", "@", "@alice", ":", "example.org", "h", ":8448", "_DEVICE", "DEV_ICE", "[::1]", "1.2.3.4", "é", "€",
        "\u{10000}", "", "__", ":_", "_:", "@a:h", "@a:h_D", "_@a:h_D", " ", "\0", "A", "#",
    ];
    for _ in 0..n {
        v.push(sreq("cmsk", &piece_string(rng, CM, 6), "cmsk.rand"));
    }
    // class attribute values
    const LANG_SMALL: &[&str] = &["language-", " ", "x", "é", "\t", "language"];
    all_piece_strings(LANG_SMALL, if deep { 6 } else { 5 }, |s| v.push(sreq("lang", &s, "lang.pieces")));
    const LANG: &[&str] = &[
        "language-", "language-rust", "language", "-", " ", "  ", "\t", "\n", "\u{c}", "\r", "\u{a0}", "\u{2003}", "é",
        "€", "\u{10000}", "x", "hljs", "Language-", "language-é", "xlanguage-y", "language-language-",
    ];
    for _ in 0..n {
        v.push(sreq("lang", &piece_string(rng, LANG, 6), "lang.rand"));
    }
    // tag names
    const TAG_SMALL: &[&str] = &["m", "u", ".", "x", "é", "m.favourite", "m.lowpriority", "m.server_notice"];
    all_piece_strings(TAG_SMALL, if deep { 5 } else { 4 }, |s| v.push(sreq("tag", &s, "tag.pieces")));
    const TAG: &[&str] = &[
        "m.favourite", "m.lowpriority", "m.server_notice", "u.", "u", "m.", ".", "..", "work", "org.example", "é", "€",
        "\u{10000}", "", " ", "u.é", "m.custom", "a.b.c",
    ];
    for _ in 0..n / 2 {
        v.push(sreq("tag", &piece_string(rng, TAG, 4), "tag.rand"));
    }
    // plain-text reply fallbacks
    const PLAIN_SMALL: &[&str] = &["> ", "<", "* ", "\n", "x", ">", " "];
    all_piece_strings(PLAIN_SMALL, if deep { 6 } else { 5 }, |s| v.push(sreq("plain", &s, "plain.pieces")));
    const PLAIN: &[&str] = &[
        "> <@alice:example.org> ", "> * <@alice:example.org> ", "> ", ">", "> <", "\n", "\n\n", "\r\n", "quoted line",
        "This is my reply", "é", "€", "\u{10000}", " ", "<", "*", "",
    ];
    for _ in 0..n {
        v.push(sreq("plain", &piece_string(rng, PLAIN, 8), "plain.rand"));
    }
}

fn gen_word(rng: &mut Rng, tier: &str, n: usize, v: &mut Vec<Req>) {
    let wreq = |mode: &str, s: &str, p: &str, cls: &str| {
        Req::new(format!("c17.word {mode} {} {}", hx(s.as_bytes()), hx(p.as_bytes())), cls)
    };
    // every text of at most k characters against every pattern of one or two characters, over one-,
    // two-, three- and four-byte characters, a word character, `_` and a separator
    const ALPHA: &[&str] = &["a", "_", " ", "é", "\u{1f600}"];
    let mut pats: Vec<String> = Vec::new();
    all_piece_strings(ALPHA, 2, |p| pats.push(p));
    let k = if tier == "thorough" { 5 } else { 3 };
    let mut texts: Vec<String> = Vec::new();
    all_piece_strings(ALPHA, k, |t| texts.push(t));
    for t in &texts {
        for p in &pats {
            v.push(wreq("e", t, p, "word.exh"));
        }
    }
    const TEXT: &[&str] = &[
        "hello", "me", "myself", " ", "  ", ".", ",", "-", "_", "é", "€", "\u{1f600}", "\n", "me_", "_me", "1", "a", "b", "ab",
        "me myself", "x*y", "?", "*", "ß", "ǆ", "", "\u{301}", "éab", "éa", "€bb", "a€a",
    ];
    const PAT: &[&str] = &[
        "me", "myself", "a", "b", "ab", " ", "_", "é", "€", "\u{1f600}", ".", "me ", " me", "1", "ß", "", "-", "éa", "€b", "a€",
    ];
    for _ in 0..n {
        let t = piece_string(rng, TEXT, 7).to_lowercase();
        let p = piece_string(rng, PAT, 2).to_lowercase();
        // lower-casing is idempotent for everything the pieces and the mutations can produce
        if t.to_lowercase() != t || p.to_lowercase() != p {
            continue;
        }
        if rng.chance(1, 2) && !p.contains(['*', '?']) {
            v.push(wreq("e", &t, &p, "word.rand"));
        } else {
            let star = if rng.chance(1, 4) { rng.pick(&["*", "?", "a*", "?b"]).to_string() } else { String::new() };
            v.push(wreq("d", &t, &format!("{p}{star}"), "word.rand"));
        }
    }
}

/// All requests of the modelled scanners. `n` is the size of the random part of the run.
pub fn gen(rng: &mut Rng, n: usize, tier: &str, v: &mut Vec<Req>) {
    let m = (n / 8).clamp(200, 50_000);
    gen_mp(rng, tier, m, v);
    gen_strs(rng, tier, m, v);
    gen_word(rng, tier, m, v);
}
