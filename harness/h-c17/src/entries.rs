//! The untrusted-input entry points exercised by the mutation stream. Each returns
//! `Some(digest)` when the input was accepted and `None` when it was rejected; panics propagate to
//! the caller's catch_unwind.
use std::{
    collections::{BTreeMap, HashMap},
    sync::{Mutex, OnceLock},
};

use ruma_common::{
    api::{IncomingRequest, IncomingResponse},
    canonical_json::{redact, CanonicalJsonObject, CanonicalJsonValue},
    http_headers::ContentDisposition,
    push::{PushCondition, PushConditionRoomCtx, Ruleset},
    serde::{Base64, Raw},
    ClientSecret, DeviceKeyId, EventId, MatrixToUri, MatrixUri, MxcUri, RoomAliasId, RoomId,
    RoomOrAliasId, RoomVersionId, ServerName, ServerSigningKeyId, SessionId, TransactionId, UserId,
};
use ruma_events::{
    AnyEphemeralRoomEvent, AnyGlobalAccountDataEvent, AnyStateEvent, AnyStrippedStateEvent,
    AnySyncTimelineEvent, AnyTimelineEvent, AnyToDeviceEvent,
};

use crate::Ran;

pub struct Entry {
    pub name: &'static str,
    pub json: bool,
    pub html: bool,
    pub run: fn(&[u8]) -> Option<String>,
}

fn s(b: &[u8]) -> Option<&str> {
    std::str::from_utf8(b).ok()
}

macro_rules! id_entry {
    ($f:ident, $t:ty, |$x:ident| $acc:expr) => {
        fn $f(b: &[u8]) -> Option<String> {
            let text = s(b)?;
            let $x = <&$t>::try_from(text).ok()?;
            let owned = <$t>::parse(text).ok();
            let extra = $acc;
            Some(format!("{}|{}|{}", $x.as_str(), owned.is_some(), extra))
        }
    };
}

id_entry!(id_user, UserId, |x| format!("{}:{}", x.localpart(), x.server_name()));
id_entry!(id_room, RoomId, |x| format!("{:?}", x.server_name()));
id_entry!(id_alias, RoomAliasId, |x| format!("{}:{}", x.alias(), x.server_name()));
id_entry!(id_event, EventId, |x| format!("{:?}", x.server_name()));
id_entry!(id_server, ServerName, |x| format!("{}:{:?}:{}", x.host(), x.port(), x.is_ip_literal()));
id_entry!(id_room_or_alias, RoomOrAliasId, |x| format!(
    "{}{}",
    x.is_room_id(),
    x.is_room_alias_id()
));
id_entry!(id_device_key, DeviceKeyId, |x| format!("{}:{}", x.algorithm(), x.key_name()));
id_entry!(id_server_key, ServerSigningKeyId, |x| format!("{}:{}", x.algorithm(), x.key_name()));
id_entry!(id_client_secret, ClientSecret, |_x| "");
id_entry!(id_session, SessionId, |_x| "");

fn id_mxc(b: &[u8]) -> Option<String> {
    let text = s(b)?;
    let m = <&MxcUri>::from(text);
    let valid = m.is_valid();
    let parts = m.parts().ok().map(|(a, b)| format!("{a}/{b}"));
    let v = m.validate().is_ok();
    let sn = m.server_name().ok().map(|x| x.to_string());
    let mid = m.media_id().ok().map(|x| x.to_owned());
    if valid {
        Some(format!("{parts:?}{v}{sn:?}{mid:?}"))
    } else {
        None
    }
}

fn id_room_version(b: &[u8]) -> Option<String> {
    let text = s(b)?;
    let v = RoomVersionId::try_from(text).ok()?;
    Some(format!("{}|{}", v.as_str(), v.rules().is_some()))
}

fn id_txn(b: &[u8]) -> Option<String> {
    let text = s(b)?;
    let t = <&TransactionId>::from(text);
    Some(t.as_str().to_owned())
}

fn uri_matrixto(b: &[u8]) -> Option<String> {
    let u = MatrixToUri::parse(s(b)?).ok()?;
    let text = u.to_string();
    let again = MatrixToUri::parse(&text).ok();
    Some(format!("{text}|{}", again.is_some()))
}

fn uri_matrix(b: &[u8]) -> Option<String> {
    let u = MatrixUri::parse(s(b)?).ok()?;
    let text = u.to_string();
    let again = MatrixUri::parse(&text).ok();
    Some(format!("{text}|{}", again.is_some()))
}

fn hdr_cd(b: &[u8]) -> Option<String> {
    let cd = ContentDisposition::try_from(b).ok()?;
    Some(cd.to_string())
}

fn hdr_xmatrix(b: &[u8]) -> Option<String> {
    let x = ruma_federation_api::authentication::XMatrix::parse(s(b)?).ok()?;
    let text = x.to_string();
    let again = ruma_federation_api::authentication::XMatrix::parse(&text).is_ok();
    // the typed-header path
    if let Ok(hv) = http::HeaderValue::from_bytes(b) {
        let _ = ruma_federation_api::authentication::XMatrix::try_from(&hv);
    }
    Some(format!("{text}|{again}"))
}

fn json_canonical(b: &[u8]) -> Option<String> {
    let v: CanonicalJsonValue = serde_json::from_slice(b).ok()?;
    Some(v.to_string())
}

fn json_raw(b: &[u8]) -> Option<String> {
    let text = s(b)?.to_owned();
    let raw: Raw<AnyTimelineEvent> = Raw::from_json_string(text).ok()?;
    let ty = raw.get_field::<String>("type").ok().flatten();
    let sender = raw.get_field::<String>("sender").ok().flatten();
    let de = raw.deserialize().is_ok();
    Some(format!("{}|{ty:?}|{sender:?}|{de}", raw.json().get().len()))
}

macro_rules! ev_entry {
    ($f:ident, $t:ty) => {
        fn $f(b: &[u8]) -> Option<String> {
            let ev: $t = serde_json::from_slice(b).ok()?;
            Some(format!("{:?}", ev.event_type()))
        }
    };
}
ev_entry!(ev_timeline, AnyTimelineEvent);
ev_entry!(ev_sync_timeline, AnySyncTimelineEvent);
ev_entry!(ev_state, AnyStateEvent);
ev_entry!(ev_stripped, AnyStrippedStateEvent);
ev_entry!(ev_to_device, AnyToDeviceEvent);
ev_entry!(ev_ephemeral, AnyEphemeralRoomEvent);
ev_entry!(ev_account_data, AnyGlobalAccountDataEvent);

fn api_sync(b: &[u8]) -> Option<String> {
    let resp = http::Response::builder().status(200).body(b.to_vec()).unwrap();
    let r = ruma_client_api::sync::sync_events::v3::Response::try_from_http_response(resp).ok()?;
    // touch the timeline events so that lazily parsed Raw values are exercised
    let mut n = 0usize;
    for (_, room) in &r.rooms.join {
        for ev in &room.timeline.events {
            n += ev.deserialize().is_ok() as usize;
        }
        for ev in &room.state.events {
            n += ev.deserialize().is_ok() as usize;
        }
    }
    Some(format!("{}|{n}", r.next_batch))
}

fn api_error(b: &[u8]) -> Option<String> {
    use ruma_common::api::EndpointError;
    let resp = http::Response::builder().status(403).body(b.to_vec()).unwrap();
    let e = ruma_client_api::Error::from_http_response(resp);
    Some(format!("{e}"))
}

fn api_txn(b: &[u8]) -> Option<String> {
    use ruma_federation_api::transactions::send_transaction_message::v1::Request;
    let req = http::Request::builder()
        .method("PUT")
        .uri("https://h/_matrix/federation/v1/send/txn1")
        .body(b.to_vec())
        .unwrap();
    let r = Request::try_from_http_request(req, &["txn1"]).ok()?;
    Some(format!("{}|{}|{}", r.origin, r.pdus.len(), r.edus.len()))
}

fn push_ctx() -> PushConditionRoomCtx {
    serde_json::from_value::<CtxShim>(serde_json::json!({})).map(|_| ()).ok();
    PushConditionRoomCtx {
        room_id: ruma_common::owned_room_id!("!r:h"),
        member_count: js_int::uint!(3),
        user_id: ruma_common::owned_user_id!("@me:h"),
        user_display_name: "Me Myself".to_owned(),
        power_levels: None,
    }
}

#[derive(serde::Deserialize)]
struct CtxShim {}

const PUSH_EVENT: &str = r#"{"type":"m.room.message","sender":"@a:h","room_id":"!r:h","event_id":"$e","origin_server_ts":1,"content":{"msgtype":"m.text","body":"hello Me Myself, how are you? a.b*c\nnext line"}}"#;

fn push_ruleset(b: &[u8]) -> Option<String> {
    let rs: Ruleset = serde_json::from_slice(b).ok()?;
    let ev: Raw<serde_json::Value> = Raw::from_json_string(PUSH_EVENT.to_owned()).unwrap();
    let m = rs.get_match(&ev, &push_ctx()).map(|r| r.rule_id().to_owned());
    Some(format!("{m:?}"))
}

fn push_pattern(b: &[u8]) -> Option<String> {
    let pat = s(b)?.to_owned();
    let ev: Raw<serde_json::Value> = Raw::from_json_string(PUSH_EVENT.to_owned()).unwrap();
    let flat = ruma_common::push::FlattenedJson::from_raw(&ev);
    let c1 = PushCondition::EventMatch { key: "content.body".to_owned(), pattern: pat.clone() };
    let c2 = PushCondition::EventMatch { key: "sender".to_owned(), pattern: pat.clone() };
    let ctx = push_ctx();
    Some(format!("{}{}", c1.applies(&flat, &ctx), c2.applies(&flat, &ctx)))
}

fn push_event(b: &[u8]) -> Option<String> {
    let text = s(b)?.to_owned();
    let ev: Raw<serde_json::Value> = Raw::from_json_string(text).ok()?;
    let rs = Ruleset::server_default(&ruma_common::owned_user_id!("@me:h"));
    let m = rs.get_match(&ev, &push_ctx()).map(|r| r.rule_id().to_owned());
    Some(format!("{m:?}"))
}

fn obj(b: &[u8]) -> Option<CanonicalJsonObject> {
    match serde_json::from_slice::<CanonicalJsonValue>(b).ok()? {
        CanonicalJsonValue::Object(o) => Some(o),
        _ => None,
    }
}

fn key_map() -> ruma_signatures::PublicKeyMap {
    let mut set = BTreeMap::new();
    set.insert("ed25519:1".to_owned(), Base64::parse("XGX0JRS2Af3be3knz2fBiRbApjm2Dh61gXDJA8kcJNI").unwrap());
    let mut m = BTreeMap::new();
    m.insert("domain".to_owned(), set.clone());
    m.insert("h".to_owned(), set);
    m
}

fn sig_verify_json(b: &[u8]) -> Option<String> {
    let o = obj(b)?;
    ruma_signatures::verify_json(&key_map(), &o).ok()?;
    Some("ok".into())
}

fn sig_verify_event(b: &[u8]) -> Option<String> {
    let o = obj(b)?;
    let mut out = String::new();
    for v in [RoomVersionId::V1, RoomVersionId::V3, RoomVersionId::V6, RoomVersionId::V9, RoomVersionId::V11] {
        let r = ruma_signatures::verify_event(&key_map(), &o, &v.rules().unwrap());
        out.push_str(&format!("{:?};", r.map_err(|_| ())));
    }
    Some(out)
}

fn sig_hash(b: &[u8]) -> Option<String> {
    let o = obj(b)?;
    let c = ruma_signatures::content_hash(&o).map(|h| h.encode()).ok();
    let mut out = format!("{c:?}");
    for v in [RoomVersionId::V1, RoomVersionId::V4, RoomVersionId::V11] {
        let r = ruma_signatures::reference_hash(&o, &v.rules().unwrap()).ok();
        out.push_str(&format!("{r:?};"));
        let red = redact(o.clone(), &v.rules().unwrap().redaction, None).ok();
        out.push_str(&format!("{};", red.map(|x| x.len()).unwrap_or(0)));
    }
    Some(out)
}

fn sig_sign(b: &[u8]) -> Option<String> {
    static KP: OnceLock<ruma_signatures::Ed25519KeyPair> = OnceLock::new();
    let kp = KP.get_or_init(|| {
        let der = ruma_signatures::Ed25519KeyPair::generate().unwrap();
        ruma_signatures::Ed25519KeyPair::from_der(&der, "1".to_owned()).unwrap()
    });
    let mut o = obj(b)?;
    ruma_signatures::sign_json("domain", kp, &mut o).ok()?;
    let mut o2 = obj(b)?;
    let _ = ruma_signatures::hash_and_sign_event("domain", kp, &mut o2, &RoomVersionId::V11.rules().unwrap().redaction);
    Some(format!("{}", o.len()))
}

fn sig_der(b: &[u8]) -> Option<String> {
    let kp = ruma_signatures::Ed25519KeyPair::from_der(b, "1".to_owned()).ok()?;
    Some(format!("{}", kp.public_key().len()))
}

/// `Ed25519KeyPair::new` / `from_pkcs8_pki`: the private-key field of a PKCS#8 document as a remote
/// party (or a key file) supplies it — raw 32 bytes, or wrapped in an OCTET STRING (`04 20` + 32 bytes),
/// or anything else, which must be an error.
fn sig_keynew(b: &[u8]) -> Option<String> {
    use pkcs8::{AlgorithmIdentifierRef, ObjectIdentifier, PrivateKeyInfo};
    let oid = ObjectIdentifier::new_unwrap("1.3.101.112");
    let a = ruma_signatures::Ed25519KeyPair::new(oid, b, None, "1".to_owned()).ok().map(|k| k.public_key().len());
    let pki = PrivateKeyInfo::new(AlgorithmIdentifierRef { oid, parameters: None }, b);
    let c = ruma_signatures::Ed25519KeyPair::from_pkcs8_pki(pki.clone(), "1".to_owned()).ok().map(|k| k.public_key().len());
    let d = ruma_signatures::Ed25519KeyPair::from_pkcs8_oak(pki, "1".to_owned()).ok().map(|k| k.public_key().len());
    a?;
    Some(format!("{a:?}{c:?}{d:?}"))
}

/// A push-rule edit as a client sends it (`PUT /pushrules/…?before=…&after=…`), applied to a ruleset
/// that already holds the user's rules named in `pre`: a rejected edit must leave the ruleset exactly
/// as it was ("a rejected input has no effect on later calls"). Input: `{"kind", "id", "after",
/// "before", "pre": [ids], "default": bool}`.
fn push_edit(b: &[u8]) -> Option<String> {
    use ruma_common::push::{Action, ConditionalPushRule, NewConditionalPushRule, NewPatternedPushRule, NewPushRule, NewSimplePushRule, RuleKind};
    let v: serde_json::Value = serde_json::from_slice(b).ok()?;
    let kind = RuleKind::from(v.get("kind")?.as_str()?);
    let id = v.get("id")?.as_str()?.to_owned();
    let after = v.get("after").and_then(|x| x.as_str());
    let before = v.get("before").and_then(|x| x.as_str());
    let mk = |kind: &RuleKind, id: &str| -> Option<NewPushRule> {
        Some(match kind {
            RuleKind::Override => NewPushRule::Override(NewConditionalPushRule::new(id.to_owned(), vec![], vec![Action::Notify])),
            RuleKind::Underride => NewPushRule::Underride(NewConditionalPushRule::new(id.to_owned(), vec![], vec![Action::Notify])),
            RuleKind::Content => NewPushRule::Content(NewPatternedPushRule::new(id.to_owned(), "p".to_owned(), vec![Action::Notify])),
            RuleKind::Room => NewPushRule::Room(NewSimplePushRule::new(<&ruma_common::RoomId>::try_from(id).ok()?.to_owned(), vec![Action::Notify])),
            RuleKind::Sender => NewPushRule::Sender(NewSimplePushRule::new(<&ruma_common::UserId>::try_from(id).ok()?.to_owned(), vec![Action::Notify])),
            _ => return None,
        })
    };
    let _ = std::marker::PhantomData::<ConditionalPushRule>;
    let mut rs = if v.get("default").and_then(|d| d.as_bool()).unwrap_or(true) {
        Ruleset::server_default(&ruma_common::owned_user_id!("@me:h"))
    } else {
        Ruleset::new()
    };
    for p in v.get("pre").and_then(|p| p.as_array()).into_iter().flatten() {
        if let Some(r) = p.as_str().and_then(|p| mk(&kind, p)) {
            let _ = rs.insert(r, None, None);
        }
    }
    // rules already present may be of another kind than the one the edit names (`prekind`)
    if let Some(pk) = v.get("prekind").and_then(|k| k.as_str()) {
        let pk = RuleKind::from(pk);
        for p in v.get("pre").and_then(|p| p.as_array()).into_iter().flatten() {
            if let Some(r) = p.as_str().and_then(|p| mk(&pk, p)) {
                let _ = rs.insert(r, None, None);
            }
        }
    }
    let snapshot = serde_json::to_string(&rs).ok()?;
    // `remove`, `set_enabled`, `set_actions` take the kind as the client wrote it in the URL — any string
    match v.get("op").and_then(|o| o.as_str()).unwrap_or("insert") {
        "remove" => {
            let res = rs.remove(kind.clone(), &id);
            let now = serde_json::to_string(&rs).ok()?;
            if res.is_err() && now != snapshot {
                return Some(format!("VIOLATION: a rejected rule removal ({:?}) changed the ruleset", res.err()));
            }
            return Some(format!("remove {}", res.is_ok()));
        }
        "set_enabled" => {
            let res = rs.set_enabled(kind.clone(), &id, false);
            let now = serde_json::to_string(&rs).ok()?;
            if res.is_err() && now != snapshot {
                return Some("VIOLATION: a rejected set_enabled changed the ruleset".to_owned());
            }
            return Some(format!("set_enabled {}", res.is_ok()));
        }
        "set_actions" => {
            let res = rs.set_actions(kind.clone(), &id, vec![]);
            let now = serde_json::to_string(&rs).ok()?;
            if res.is_err() && now != snapshot {
                return Some("VIOLATION: a rejected set_actions changed the ruleset".to_owned());
            }
            return Some(format!("set_actions {}", res.is_ok()));
        }
        _ => {}
    }
    let res = rs.insert(mk(&kind, &id)?, after, before);
    let now = serde_json::to_string(&rs).ok()?;
    if res.is_err() && now != snapshot {
        return Some(format!("VIOLATION: a rejected rule edit ({:?}) changed the ruleset: {snapshot} -> {now}", res.err()));
    }
    Some(format!("{}", res.is_ok()))
}

fn sig_verify_bytes(b: &[u8]) -> Option<String> {
    // layout: first byte = key length, then key, then 64-byte-ish signature, rest message
    let (&kl, rest) = b.split_first()?;
    let kl = (kl as usize).min(rest.len());
    let (key, rest) = rest.split_at(kl);
    let sl = 64.min(rest.len());
    let (sig, msg) = rest.split_at(sl);
    ruma_signatures::verify_canonical_json_bytes(
        &ruma_common::SigningKeyAlgorithm::Ed25519,
        key,
        sig,
        msg,
    )
    .ok()?;
    Some("ok".into())
}

fn html_strict(b: &[u8]) -> Option<String> {
    let text = s(b)?;
    Some(ruma_html::sanitize_html(text, ruma_html::HtmlSanitizerMode::Strict, ruma_html::RemoveReplyFallback::Yes))
}

fn html_compat(b: &[u8]) -> Option<String> {
    let text = s(b)?;
    Some(ruma_html::sanitize_html(text, ruma_html::HtmlSanitizerMode::Compat, ruma_html::RemoveReplyFallback::No))
}

fn html_parse(b: &[u8]) -> Option<String> {
    let text = s(b)?;
    let h = ruma_html::Html::parse(text);
    let out = h.to_string();
    Some(ruma_html::remove_html_reply_fallback(&out))
}

macro_rules! e {
    ($n:literal, $f:ident) => {
        Entry { name: $n, json: false, html: false, run: $f }
    };
    ($n:literal, $f:ident, json) => {
        Entry { name: $n, json: true, html: false, run: $f }
    };
    ($n:literal, $f:ident, html) => {
        Entry { name: $n, json: false, html: true, run: $f }
    };
}

pub static ENTRIES: &[Entry] = &[
    e!("id.user", id_user),
    e!("id.room", id_room),
    e!("id.alias", id_alias),
    e!("id.event", id_event),
    e!("id.server", id_server),
    e!("id.room_or_alias", id_room_or_alias),
    e!("id.device_key", id_device_key),
    e!("id.server_key", id_server_key),
    e!("id.client_secret", id_client_secret),
    e!("id.session", id_session),
    e!("id.mxc", id_mxc),
    e!("id.room_version", id_room_version),
    e!("id.txn", id_txn),
    e!("uri.matrixto", uri_matrixto),
    e!("uri.matrix", uri_matrix),
    e!("hdr.cd", hdr_cd),
    e!("hdr.xmatrix", hdr_xmatrix),
    e!("json.canonical", json_canonical, json),
    e!("json.raw", json_raw, json),
    e!("ev.timeline", ev_timeline, json),
    e!("ev.sync_timeline", ev_sync_timeline, json),
    e!("ev.state", ev_state, json),
    e!("ev.stripped", ev_stripped, json),
    e!("ev.to_device", ev_to_device, json),
    e!("ev.ephemeral", ev_ephemeral, json),
    e!("ev.account_data", ev_account_data, json),
    e!("api.sync", api_sync, json),
    e!("api.error", api_error, json),
    e!("api.txn", api_txn, json),
    e!("push.ruleset", push_ruleset, json),
    e!("push.pattern", push_pattern),
    e!("push.event", push_event, json),
    e!("sig.verify_json", sig_verify_json, json),
    e!("sig.verify_event", sig_verify_event, json),
    e!("sig.hash", sig_hash, json),
    e!("sig.sign", sig_sign, json),
    e!("sig.der", sig_der),
    e!("sig.verify_bytes", sig_verify_bytes),
    e!("sig.keynew", sig_keynew),
    e!("push.edit", push_edit, json),
    e!("html.strict", html_strict, html),
    e!("html.compat", html_compat, html),
    e!("html.parse", html_parse, html),
];

/// The answer of the entry's fixed valid probe, computed once per process before anything else ran
/// through that entry.
pub fn probe_answer(entry: &'static Entry) -> Ran {
    static CACHE: OnceLock<Mutex<HashMap<&'static str, Ran>>> = OnceLock::new();
    let m = CACHE.get_or_init(|| {
        let mut m = HashMap::new();
        for e in ENTRIES {
            let p = crate::seeds::probe(e.name);
            let r = match h_lib::h_util::guarded(|| (e.run)(p)) {
                Ok(Some(d)) => Ran::Accepted(d),
                Ok(None) => Ran::Rejected,
                Err(()) => Ran::Panicked,
            };
            m.insert(e.name, r);
        }
        Mutex::new(m)
    });
    m.lock().unwrap().get(entry.name).cloned().unwrap()
}
