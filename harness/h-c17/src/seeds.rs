//! Valid seed inputs per entry point. The first seed of each entry is its probe.

const EV_MESSAGE: &[u8] = br#"{"type":"m.room.message","event_id":"$143273582443PhrSn:example.org","room_id":"!jEsUZKDJdhlrceRyVU:example.org","sender":"@example:example.org","origin_server_ts":1432735824653,"unsigned":{"age":1234},"content":{"msgtype":"m.text","body":"This is an example text message","format":"org.matrix.custom.html","formatted_body":"<b>This is an example text message</b>","m.relates_to":{"m.in_reply_to":{"event_id":"$a"}}}}"#;
const EV_MEMBER: &[u8] = br#"{"type":"m.room.member","event_id":"$e:example.org","room_id":"!r:example.org","sender":"@a:example.org","state_key":"@b:example.org","origin_server_ts":1,"unsigned":{"prev_content":{"membership":"invite"}},"content":{"membership":"join","displayname":"B","avatar_url":"mxc://example.org/abc","third_party_invite":{"display_name":"x","signed":{"mxid":"@b:example.org","token":"t","signatures":{"example.org":{"ed25519:0":"sig"}}}}}}"#;
const EV_POWER: &[u8] = br#"{"type":"m.room.power_levels","event_id":"$p:example.org","room_id":"!r:example.org","sender":"@a:example.org","state_key":"","origin_server_ts":2,"content":{"ban":50,"events":{"m.room.name":100},"events_default":0,"invite":50,"kick":50,"redact":50,"state_default":50,"users":{"@a:example.org":100},"users_default":0,"notifications":{"room":20}}}"#;
const EV_REDACTED: &[u8] = br#"{"type":"m.room.message","event_id":"$r:example.org","room_id":"!r:example.org","sender":"@a:example.org","origin_server_ts":3,"content":{},"unsigned":{"redacted_because":{"type":"m.room.redaction","event_id":"$x:example.org","room_id":"!r:example.org","sender":"@a:example.org","origin_server_ts":4,"redacts":"$r:example.org","content":{}}}}"#;
const EV_ENCRYPTED: &[u8] = br#"{"type":"m.room.encrypted","event_id":"$c:example.org","room_id":"!r:example.org","sender":"@a:example.org","origin_server_ts":5,"content":{"algorithm":"m.megolm.v1.aes-sha2","ciphertext":"AwgAEn","device_id":"D","sender_key":"k","session_id":"s"}}"#;
const EV_SYNC_MESSAGE: &[u8] = br#"{"type":"m.room.message","event_id":"$s:example.org","sender":"@example:example.org","origin_server_ts":1432735824653,"content":{"msgtype":"m.image","body":"i.png","url":"mxc://example.org/JWEIFJgwEIhweiWJE","info":{"h":1,"w":2,"mimetype":"image/png","size":3}}}"#;
const EV_STRIPPED: &[u8] = br#"{"type":"m.room.name","sender":"@a:example.org","state_key":"","content":{"name":"Room"}}"#;
const EV_TO_DEVICE: &[u8] = br#"{"type":"m.room_key_request","sender":"@a:example.org","content":{"action":"request_cancellation","request_id":"1","requesting_device_id":"D"}}"#;
const EV_TYPING: &[u8] = br#"{"type":"m.typing","room_id":"!r:example.org","content":{"user_ids":["@a:example.org"]}}"#;
const EV_RECEIPT: &[u8] = br#"{"type":"m.receipt","room_id":"!r:example.org","content":{"$e:example.org":{"m.read":{"@a:example.org":{"ts":1}}}}}"#;
const EV_DIRECT: &[u8] = br#"{"type":"m.direct","content":{"@bob:example.com":["!abcdefgh:example.com"]}}"#;
const EV_PUSH_RULES: &[u8] = br#"{"type":"m.push_rules","content":{"global":{"override":[{"rule_id":".m.rule.master","default":true,"enabled":false,"conditions":[],"actions":[]}],"content":[{"rule_id":"x","default":false,"enabled":true,"pattern":"al*ce","actions":["notify",{"set_tweak":"sound","value":"default"}]}],"room":[],"sender":[],"underride":[]}}}"#;

const SYNC: &[u8] = br#"{"next_batch":"s72595_4483_1934","rooms":{"join":{"!726s6s6q:example.com":{"timeline":{"events":[{"type":"m.room.message","event_id":"$143273582443PhrSn:example.org","sender":"@example:example.org","origin_server_ts":1432735824653,"content":{"msgtype":"m.text","body":"hi"}}],"limited":true,"prev_batch":"t34"},"state":{"events":[{"type":"m.room.member","event_id":"$e:example.org","sender":"@a:example.org","state_key":"@a:example.org","origin_server_ts":1,"content":{"membership":"join"}}]},"ephemeral":{"events":[{"type":"m.typing","content":{"user_ids":["@alice:matrix.org"]}}]},"account_data":{"events":[{"type":"m.tag","content":{"tags":{"u.work":{"order":0.9}}}}]},"unread_notifications":{"highlight_count":1,"notification_count":5}}},"invite":{"!696r7674:example.com":{"invite_state":{"events":[{"type":"m.room.name","sender":"@alice:example.com","state_key":"","content":{"name":"My Room Name"}}]}}},"leave":{}},"presence":{"events":[{"type":"m.presence","sender":"@example:localhost","content":{"presence":"online","last_active_ago":2478593}}]},"to_device":{"events":[]},"device_one_time_keys_count":{"signed_curve25519":10},"device_lists":{"changed":["@a:example.org"]}}"#;
const ERROR: &[u8] = br#"{"errcode":"M_LIMIT_EXCEEDED","error":"Too many requests","retry_after_ms":2000}"#;
const ERROR2: &[u8] = br#"{"errcode":"M_FORBIDDEN","error":"nope"}"#;
const ERROR3: &[u8] = br#"{"errcode":"M_INCOMPATIBLE_ROOM_VERSION","error":"x","room_version":"9"}"#;
const TXN: &[u8] = br#"{"origin":"example.org","origin_server_ts":1404835423000,"pdus":[{"type":"m.room.message","room_id":"!r:example.org","sender":"@a:example.org","origin_server_ts":1,"depth":3,"auth_events":["$a"],"prev_events":["$b"],"hashes":{"sha256":"thishashcoversallfieldsincasethisisredacted"},"signatures":{"example.org":{"ed25519:key":"sig"}},"content":{"body":"x","msgtype":"m.text"}}],"edus":[{"edu_type":"m.typing","content":{"room_id":"!r:example.org","user_id":"@a:example.org","typing":true}},{"edu_type":"m.presence","content":{"push":[{"user_id":"@a:example.org","presence":"online","last_active_ago":5}]}},{"edu_type":"m.receipt","content":{"!r:example.org":{"m.read":{"@a:example.org":{"data":{"ts":1},"event_ids":["$e"]}}}}}]}"#;

const RULESET: &[u8] = br#"{"override":[{"rule_id":".m.rule.master","default":true,"enabled":false,"conditions":[],"actions":[]},{"rule_id":"o1","default":false,"enabled":true,"conditions":[{"kind":"event_match","key":"content.body","pattern":"hel*o"},{"kind":"room_member_count","is":">=2"},{"kind":"contains_display_name"},{"kind":"sender_notification_permission","key":"room"},{"kind":"event_property_is","key":"content.msgtype","value":"m.text"},{"kind":"event_property_contains","key":"content.list","value":1}],"actions":["notify",{"set_tweak":"highlight","value":true}]}],"content":[{"rule_id":"c1","default":false,"enabled":true,"pattern":"m?self","actions":["notify"]}],"room":[{"rule_id":"!r:h","default":false,"enabled":true,"actions":["dont_notify"]}],"sender":[{"rule_id":"@a:h","default":false,"enabled":true,"actions":["notify"]}],"underride":[{"rule_id":"u1","default":false,"enabled":true,"conditions":[{"kind":"event_match","key":"type","pattern":"m.room.message"}],"actions":["notify"]}]}"#;

const SIGNED: &[u8] = br#"{"one":1,"two":"Two","signatures":{"domain":{"ed25519:1":"t6Ehmh6XTDz7qNWI0QI5tNPSliWLPQP/+Fzz3LpdCS7q1k2G2/5b5Embs2j4uG3ZeivejrzqSVoBcdocRpa+AQ"}},"unsigned":{"age":1}}"#;
const SIGNED_EVENT: &[u8] = br#"{"auth_events":[],"content":{"membership":"join","join_authorised_via_users_server":"@x:h"},"depth":3,"event_id":"$e:domain","hashes":{"sha256":"5jM4wQpv6lnBo7CLIghJuHdW+s2CMBJPUOGOC89ncos"},"origin":"domain","origin_server_ts":1000000,"prev_events":[],"room_id":"!x:domain","sender":"@a:domain","signatures":{"domain":{"ed25519:1":"KxwGjPSDEtvnFgU00fwFz+l6d2pJM6XBIaMEn81SXPTRl16AqLAYqfIReFGZlHi5KLjAWbOoMszkwsQma+lYAg"}},"state_key":"@a:domain","type":"m.room.member","unsigned":{"age_ts":1000000}}"#;

const JSON_UNI: &[u8] = "{\"a\":[1,{\"b\":null}],\"é\":\"😀\",\"z\":-9007199254740991}".as_bytes();

// PKCS#8 v1 (RFC 8410 example) and a ring-style v2 document (ring's template with a public key)
const DER_V1: &[u8] = &[
    0x30, 0x2e, 0x02, 0x01, 0x00, 0x30, 0x05, 0x06, 0x03, 0x2b, 0x65, 0x70, 0x04, 0x22, 0x04, 0x20, 0xD4, 0xEE,
    0x72, 0xDB, 0xF9, 0x13, 0x58, 0x4A, 0xD5, 0xB6, 0xD8, 0xF1, 0xF7, 0x69, 0xF8, 0xAD, 0x3A, 0xFE, 0x7C, 0x28,
    0xCB, 0xF1, 0xD4, 0xFB, 0xE0, 0x97, 0xA8, 0x8F, 0x44, 0x75, 0x58, 0x42,
];
const DER_RING: &[u8] = &[
    0x30, 0x53, 0x02, 0x01, 0x01, 0x30, 0x05, 0x06, 0x03, 0x2b, 0x65, 0x70, 0x04, 0x22, 0x04, 0x20, 0xD4, 0xEE,
    0x72, 0xDB, 0xF9, 0x13, 0x58, 0x4A, 0xD5, 0xB6, 0xD8, 0xF1, 0xF7, 0x69, 0xF8, 0xAD, 0x3A, 0xFE, 0x7C, 0x28,
    0xCB, 0xF1, 0xD4, 0xFB, 0xE0, 0x97, 0xA8, 0x8F, 0x44, 0x75, 0x58, 0x42, 0xA1, 0x23, 0x03, 0x21, 0x00, 0x19,
    0xBF, 0x44, 0x09, 0x69, 0x84, 0xCD, 0xFE, 0x85, 0x41, 0xBA, 0xC1, 0x67, 0xDC, 0x3B, 0x96, 0xC8, 0x50, 0x86,
    0xAA, 0x30, 0xB6, 0xB6, 0xCB, 0x0C, 0x5C, 0x38, 0xAD, 0x70, 0x31, 0x66, 0xE1,
];

const HTML1: &[u8] = br#"<mx-reply><blockquote><a href="https://matrix.to/#/!n8f893n9:example.com/$1598361704261elfgc:localhost">In reply to</a> <a href="https://matrix.to/#/@alice:example.com">@alice:example.com</a><br>Previous message</blockquote></mx-reply>This has no tag<p>But this is inside a tag</p>"#;
const HTML2: &[u8] = br##"<h1 title="x">T</h1><font color="#ff0000" data-mx-bg-color="#00ff00">c</font><a href="javascript:alert(1)" class="x" target="_blank">l</a><img src="mxc://h/m" alt="a" width="1"><img alt="b" src="http://x/y"><code class="language-rust other">c</code><ol start="2"><li>i</li></ol><table><tr><td>x</td></tr></table><!-- c --><script>s</script><span data-mx-spoiler="r" style="x">s</span><strike>k</strike><details><summary>s</summary>d</details><div data-mx-maths="x">m</div>"##;
const HTML3: &[u8] = b"<p>unclosed <b>bold <i>italic</p></b> &amp; &#58; &colon; <table><b>foster</b><tr><td>c</table><svg><a xlink:href='x'>s</a></svg><math><mi>x</mi></math>";

pub fn seeds(name: &str) -> &'static [&'static [u8]] {
    match name {
        "id.user" => &[b"@alice:example.org", b"@a:1.2.3.4:80", b"@a:[::1]:8448", b"@:h", b"@A_b=/.-:h.org"],
        "id.room" => &[b"!abc:example.org", b"!opaque", b"!a:[2001:db8::1]"],
        "id.alias" => &[b"#room:example.org", b"#r:h:1", b"#a#b:h"],
        "id.event" => &[b"$143273582443PhrSn:example.org", b"$Rqnc-F-dvnEYJTyHq_iKxU2bZ1CI92-kuZq3a5lr5Zg", b"$acR1l0raoZnm60CBwAVgqbZqoO/mYU81xysh1u7XcJk"],
        "id.server" => &[b"example.org", b"example.org:8448", b"1.2.3.4", b"[::1]:80", b"a-b.c"],
        "id.room_or_alias" => &[b"!abc:example.org", b"#room:example.org"],
        "id.device_key" => &[b"ed25519:JLAFKJWSCS", b"curve25519:D", b"signed_curve25519:AAAAHg"],
        "id.server_key" => &[b"ed25519:abc123", b"ed25519:a_b"],
        "id.client_secret" => &[b"monkeys_are_AWESOME", b"a.b=c-d"],
        "id.session" => &[b"sessionid", b"a-b_c"],
        "id.mxc" => &[b"mxc://example.org/SEsfnsuifSDFSSEF", b"mxc://h:80/m", b"mxc://[::1]/m-_"],
        "id.room_version" => &[b"11", b"1", b"org.custom.v"],
        "id.txn" => &[b"txn1"],
        "uri.matrixto" => &[
            b"https://matrix.to/#/%21abc%3Aexample.org/%24ev%3Aexample.org?via=example.org&via=h%3A80",
            b"https://matrix.to/#/@alice:example.org",
            b"https://matrix.to/#/%23room%3Aexample.org?via=a.b",
            b"https://matrix.to/#/!r:h/$e",
        ],
        "uri.matrix" => &[
            b"matrix:roomid/abc:example.org/e/ev:example.org?via=example.org&action=join",
            b"matrix:u/alice:example.org?action=chat",
            b"matrix:r/room:example.org",
            b"matrix:roomid/r:h?via=a&via=b&action=custom%26x",
        ],
        "hdr.cd" => &[
            b"attachment; filename=\"my file.txt\"",
            b"inline",
            b"attachment; filename*=utf-8''%e2%82%ac%20rates; filename=\"EURO rates\"",
            b"form-data; name=x; filename=a\\\"b",
        ],
        "hdr.xmatrix" => &[
            b"X-Matrix origin=\"origin.hs.example.com\",destination=\"destination.hs.example.com\",key=\"ed25519:key1\",sig=\"dGVzdA\"",
            b"X-Matrix origin=a.b,destination=c.d:80,key=\"ed25519:k\",sig=\"dGVzdA==\"",
            b"X-Matrix origin=\"a\\\"b\", key=ed25519:1, sig=x, extra=1",
        ],
        "json.canonical" => &[SIGNED, EV_MEMBER, JSON_UNI],
        "json.raw" => &[EV_MESSAGE, EV_MEMBER, EV_REDACTED],
        "ev.timeline" => &[EV_MESSAGE, EV_MEMBER, EV_POWER, EV_REDACTED, EV_ENCRYPTED],
        "ev.sync_timeline" => &[EV_SYNC_MESSAGE, EV_MESSAGE, EV_MEMBER, EV_REDACTED],
        "ev.state" => &[EV_MEMBER, EV_POWER],
        "ev.stripped" => &[EV_STRIPPED, EV_MEMBER],
        "ev.to_device" => &[EV_TO_DEVICE],
        "ev.ephemeral" => &[EV_TYPING, EV_RECEIPT],
        "ev.account_data" => &[EV_DIRECT, EV_PUSH_RULES],
        "api.sync" => &[SYNC],
        "api.error" => &[ERROR, ERROR2, ERROR3],
        "api.txn" => &[TXN],
        "push.ruleset" => &[RULESET],
        "push.pattern" => &[b"hel*o", b"m?self", b"a.b\\*c", b"*", b"h*l*o m? *", b"[a-z]+(x)|\\d{2,}$^"],
        "push.event" => &[EV_MESSAGE, EV_MEMBER, br#"{"type":"m.room.message","sender":"@b:h","content":{"body":"Me Myself @room","m.mentions":{"user_ids":["@me:h"],"room":true},"a.b":{"c\\d":1}}}"#],
        "sig.verify_json" => &[SIGNED],
        "sig.verify_event" => &[
            SIGNED_EVENT,
            EV_MEMBER,
            // event IDs without a server part (the v3/v4 formats, or a bare `$a`) under room version 1/2 rules
            br#"{"auth_events":[],"content":{"membership":"join"},"depth":3,"event_id":"$a","hashes":{"sha256":"5jM4wQpv6lnBo7CLIghJuHdW+s2CMBJPUOGOC89ncos"},"origin_server_ts":1,"prev_events":[],"room_id":"!x:domain","sender":"@a:domain","signatures":{"domain":{"ed25519:1":"KxwGjPSDEtvnFgU00fwFz+l6d2pJM6XBIaMEn81SXPTRl16AqLAYqfIReFGZlHi5KLjAWbOoMszkwsQma+lYAg"}},"state_key":"@a:domain","type":"m.room.member"}"#,
            br#"{"content":{},"event_id":"$Rqnc-F-dvnEYJTyHq_iKxU2bZ1CI92-kuZq3a5lr5Zg","hashes":{"sha256":"x"},"room_id":"!x:domain","sender":"@a:domain","signatures":{"domain":{"ed25519:1":"c2ln"}},"type":"m.room.message"}"#,
            br#"{"content":{},"event_id":"$","room_id":"!x:domain","sender":"@a:domain","signatures":{},"type":"m.room.message"}"#,
        ],
        "sig.hash" => &[SIGNED_EVENT, EV_MEMBER, EV_POWER],
        "sig.sign" => &[SIGNED, SIGNED_EVENT, br#"{"a":1,"signatures":{"other":{"ed25519:9":"x"}},"unsigned":{}}"#],
        "sig.der" => &[DER_V1, DER_RING],
        "sig.verify_bytes" => &[b"\x20aaaaaaaaaaaaaaaaaaaaaaaaaaaaaaaabbbbbbbbbbbbbbbbbbbbbbbbbbbbbbbbbbbbbbbbbbbbbbbbbbbbbbbbbbbbbbbb{}"],
        "sig.keynew" => &[
            b"aaaaaaaaaaaaaaaaaaaaaaaaaaaaaaaa",
            b"\x04\x20aaaaaaaaaaaaaaaaaaaaaaaaaaaaaaaa",
            b"\x04\x20aaaaaaaaaaaaaaaaaaaaaaaaaaaaaaa",
            b"\x04\x20aaaaaaaaaaaaaaaaaaaaaaaaaaaaaaaab",
            b"\x04\x20aaaaaaaaaaaaaaaaaaaaaaaaaaaaaaaaaaaaaaaaaaaaaaaaaaaaaaaaaaaaaaaaaa",
            b"\x04\x20",
            b"",
        ],
        "push.edit" => &[
            br#"{"kind":"override","id":"b","after":"a","before":null,"pre":["a","b","c"],"default":true}"#,
            br#"{"kind":"override","id":"a","after":"zz","before":null,"pre":["a","b"],"default":true}"#,
            br#"{"kind":"underride","id":"a","after":null,"before":"zz","pre":["a","b","c"],"default":false}"#,
            br#"{"kind":"content","id":"b","after":"b","before":null,"pre":["a","b"],"default":true}"#,
            br#"{"kind":"override","id":"c","after":"b","before":"a","pre":["a","b","c"],"default":false}"#,
            br#"{"kind":"override","id":"a","after":".m.rule.master","before":null,"pre":["a"],"default":true}"#,
            br#"{"kind":"room","id":"!r:h","after":"!q:h","before":null,"pre":["!r:h"],"default":true}"#,
            br#"{"kind":"sender","id":"@a:h","after":null,"before":"@zz:h","pre":["@a:h","@b:h"],"default":false}"#,
            br#"{"kind":"underride","id":"new","after":"a","before":"c","pre":["a","b","c","d"],"default":true}"#,
            br#"{"op":"remove","kind":"override","id":"a","pre":["a","b"],"default":true}"#,
            br#"{"op":"remove","kind":"my_kind","id":"a","pre":["a","b"],"prekind":"override","default":true}"#,
            br#"{"op":"remove","kind":"Override","id":"a","pre":["a"],"prekind":"override","default":false}"#,
            br#"{"op":"remove","kind":"","id":".m.rule.master","pre":[],"default":true}"#,
            br#"{"op":"remove","kind":"content","id":"zz","pre":["a"],"default":true}"#,
            br#"{"op":"set_enabled","kind":"my_kind","id":"a","pre":["a"],"prekind":"underride","default":true}"#,
            br#"{"op":"set_actions","kind":"room","id":"!r:h","pre":["!r:h"],"default":false}"#,
            br#"{"op":"set_actions","kind":"x.y","id":"!r:h","pre":["!r:h"],"prekind":"room","default":false}"#,
        ],
        "html.strict" | "html.compat" | "html.parse" => &[HTML1, HTML2, HTML3],
        other => panic!("no seeds for {other}"),
    }
}

pub fn probe(name: &str) -> &'static [u8] {
    seeds(name)[0]
}
