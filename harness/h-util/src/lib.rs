//! Shared harness utilities: deterministic PRNG, token codec of the line protocol, case writer.
use std::{
    fmt::Write as _,
    io::Write as _,
    panic::{catch_unwind, AssertUnwindSafe},
};

use serde_json::Value;

/// SplitMix64: every random choice of a run derives from one state seeded by VERIF_SEED.
#[derive(Clone)]
pub struct Rng(pub u64);

impl Rng {
    /// The state is the seed passed once through the output mixer: with the plain SplitMix64
    /// initialisation `seed * G + c` the stream of `seed + 1` is the stream of `seed` shifted by one
    /// position, so neighbouring seeds (VERIF_SEED=0/1, per-call sub-streams `seed ^ i`) were not
    /// independent.
    pub fn new(seed: u64) -> Self {
        let mut r = Rng(seed.wrapping_mul(0x9E37_79B9_7F4A_7C15).wrapping_add(0x1234_5678_9ABC_DEF1));
        let s = r.next();
        Rng(s)
    }
    pub fn next(&mut self) -> u64 {
        self.0 = self.0.wrapping_add(0x9E37_79B9_7F4A_7C15);
        let mut z = self.0;
        z = (z ^ (z >> 30)).wrapping_mul(0xBF58_476D_1CE4_E5B9);
        z = (z ^ (z >> 27)).wrapping_mul(0x94D0_49BB_1331_11EB);
        z ^ (z >> 31)
    }
    /// Uniform in 0..n (n > 0).
    pub fn below(&mut self, n: usize) -> usize {
        (self.next() % (n as u64)) as usize
    }
    pub fn range(&mut self, lo: i64, hi: i64) -> i64 {
        lo + (self.next() % ((hi - lo + 1) as u64)) as i64
    }
    pub fn chance(&mut self, num: u32, den: u32) -> bool {
        (self.next() % den as u64) < num as u64
    }
    pub fn pick<'a, T>(&mut self, xs: &'a [T]) -> &'a T {
        &xs[self.below(xs.len())]
    }
    pub fn shuffle<T>(&mut self, xs: &mut [T]) {
        for i in (1..xs.len()).rev() {
            let j = self.below(i + 1);
            xs.swap(i, j);
        }
    }
    pub fn fork(&mut self) -> Rng {
        Rng(self.next())
    }
}

pub fn hex(bytes: &[u8]) -> String {
    let mut s = String::with_capacity(bytes.len() * 2);
    for b in bytes {
        write!(s, "{b:02x}").unwrap();
    }
    s
}

/// `s<hex>` token.
pub fn stok(s: &str) -> String {
    format!("s{}", hex(s.as_bytes()))
}

/// Token-encode a serde_json value. Objects are written in the map's iteration order.
/// Numbers: integers that fit i64/u64 are `i<decimal>`, everything else is `x`.
pub fn jtok(v: &Value, out: &mut String) {
    match v {
        Value::Null => out.push_str("n"),
        Value::Bool(true) => out.push_str("t"),
        Value::Bool(false) => out.push_str("f"),
        Value::Number(n) => {
            if let Some(i) = n.as_i64() {
                write!(out, "i{i}").unwrap();
            } else if let Some(u) = n.as_u64() {
                write!(out, "i{u}").unwrap();
            } else {
                out.push_str("x");
            }
        }
        Value::String(s) => out.push_str(&stok(s)),
        Value::Array(a) => {
            write!(out, "a{}", a.len()).unwrap();
            for x in a {
                out.push(' ');
                jtok(x, out);
            }
        }
        Value::Object(o) => {
            write!(out, "o{}", o.len()).unwrap();
            for (k, x) in o {
                out.push(' ');
                out.push_str(&stok(k));
                out.push(' ');
                jtok(x, out);
            }
        }
    }
}

pub fn jtoks(v: &Value) -> String {
    let mut s = String::new();
    jtok(v, &mut s);
    s
}

/// One correspondence case: the request line for the Lean driver, the implementation's canonical
/// answer, the class label for the input distribution, and direct-oracle (T3) failures.
pub struct Case {
    pub req: String,
    pub imp: String,
    pub cls: String,
    pub t3: Vec<String>,
}

pub struct CaseWriter {
    out: std::io::BufWriter<std::fs::File>,
    pub n: usize,
}

impl CaseWriter {
    pub fn create(path: &str) -> Self {
        let f = std::fs::File::create(path).expect("create case file");
        CaseWriter { out: std::io::BufWriter::new(f), n: 0 }
    }
    pub fn push(&mut self, c: Case) {
        let v = serde_json::json!({"req": c.req, "impl": c.imp, "cls": c.cls, "t3": c.t3});
        writeln!(self.out, "{v}").unwrap();
        self.n += 1;
    }
    pub fn finish(mut self) {
        self.out.flush().unwrap();
    }
}

/// Run `f` under `catch_unwind`; `Err(())` means the implementation panicked.
pub fn guarded<T>(f: impl FnOnce() -> T) -> Result<T, ()> {
    catch_unwind(AssertUnwindSafe(f)).map_err(|_| ())
}

/// Silence the default panic hook (panics are an observable outcome here, not noise).
pub fn quiet_panics() {
    // VERIF_LOUD_PANICS=1 keeps the default hook (development aid: find a panic of the harness itself)
    if std::env::var_os("VERIF_LOUD_PANICS").is_none() {
        std::panic::set_hook(Box::new(|_| {}));
    }
}

/// Common CLI: `<bin> <prop> <mode> [--seed S] [--n N] [--out PATH] [--tier quick|thorough] [--replay REQ]`.
pub struct Args {
    pub prop: String,
    pub mode: String,
    pub seed: u64,
    pub n: usize,
    pub out: String,
    pub tier: String,
    pub replay: Option<String>,
}

pub fn parse_args() -> Args {
    let a: Vec<String> = std::env::args().collect();
    let mut r = Args {
        prop: a.get(1).cloned().unwrap_or_default(),
        mode: a.get(2).cloned().unwrap_or_default(),
        seed: 0,
        n: 1000,
        out: String::from("/dev/stdout"),
        tier: String::from("quick"),
        replay: None,
    };
    let mut i = 3;
    while i < a.len() {
        let v = a.get(i + 1).cloned().unwrap_or_default();
        match a[i].as_str() {
            "--seed" => r.seed = v.parse().expect("seed"),
            "--n" => r.n = v.parse().expect("n"),
            "--out" => r.out = v,
            "--tier" => r.tier = v,
            "--replay" => r.replay = Some(v),
            other => panic!("unknown argument {other}"),
        }
        i += 2;
    }
    r
}

/// Decode a token stream back to a serde_json value (used by `--replay`).
pub fn parse_tokens(toks: &mut std::slice::Iter<'_, &str>) -> Option<Value> {
    let t = *toks.next()?;
    let (head, rest) = t.split_at(1);
    Some(match head {
        "n" => Value::Null,
        "t" => Value::Bool(true),
        "f" => Value::Bool(false),
        "x" => serde_json::json!(0.5),
        "i" => {
            if let Ok(i) = rest.parse::<i64>() {
                Value::from(i)
            } else {
                Value::from(rest.parse::<u64>().ok()?)
            }
        }
        "s" => Value::String(unhex_str(rest)?),
        "a" => {
            let n: usize = rest.parse().ok()?;
            let mut v = Vec::new();
            for _ in 0..n {
                v.push(parse_tokens(toks)?);
            }
            Value::Array(v)
        }
        "o" => {
            let n: usize = rest.parse().ok()?;
            let mut m = serde_json::Map::new();
            for _ in 0..n {
                let k = *toks.next()?;
                let k = unhex_str(k.strip_prefix('s')?)?;
                m.insert(k, parse_tokens(toks)?);
            }
            Value::Object(m)
        }
        _ => return None,
    })
}

pub fn unhex(s: &str) -> Option<Vec<u8>> {
    if s.len() % 2 != 0 {
        return None;
    }
    (0..s.len()).step_by(2).map(|i| u8::from_str_radix(s.get(i..i + 2)?, 16).ok()).collect()
}

pub fn unhex_str(s: &str) -> Option<String> {
    String::from_utf8(unhex(s)?).ok()
}
