//! C11 — Matrix URIs round-trip through text and parsing them never panics.
//!
//! Requests (`<s>` = `s<hex of UTF-8>`):
//!   `c11.to.fmt   <ID> <VIAS>`              → `ok <s text>`            Display of MatrixToUri
//!   `c11.uri.fmt  <ID> <VIAS> <ACT>`        → `ok <s text>`            Display of MatrixUri
//!   `c11.to.rt    <ID> <VIAS>`              → `ok <ID> <VIAS>`         parse(format(v)); SPEC op
//!   `c11.uri.rt   <ID> <VIAS> <ACT>`        → `ok <ID> <VIAS> <ACT>`   parse(format(v)); SPEC op
//!   `c11.to.parse  <s text> <ORACLE>`       → `ok <ID> <VIAS>` | `err`
//!   `c11.uri.parse <s text> <URL> <ORACLE>` → `ok <ID> <VIAS> <ACT>` | `err`
//!   `c11.url <s text>`                      → `ok <s scheme> <s path> (n|<s query>)` | `err`
//! with `ID := u <s> | r <s> | a <s> | e <s> <s>`, `VIAS := v<n> <s>*`, `ACT := n | <s>`,
//! `URL := x | p <s scheme> <s path> (n|<s query>)` (what the real `Url::parse` returns on the
//! text) and `ORACLE := q<n> (<s> <mask>)*` (decisions of the real identifier parsers on every
//! string the parse can ask about: 1 user, 2 room id, 4 alias, 8 event, 16 server name).
//! `run` re-derives URL and re-checks every ORACLE entry against the real parsers and answers
//! `bad-op` if the request carries outdated ones (a stale corpus line must not turn into a false
//! alarm).
use std::collections::BTreeSet;

use h_lib::{
    h_util::{self, unhex_str},
    stok, Outcome, Req, Rng,
};
use ruma_common::{
    matrix_uri::MatrixId,
    EventId, MatrixToUri, MatrixUri, OwnedServerName, RoomAliasId, RoomId, RoomOrAliasId,
    ServerName, UserId,
};

const TO_BASE: &str = "https://matrix.to/#/";

// ---------------------------------------------------------------------------------------------
// values

#[derive(Clone, Debug, PartialEq, Eq)]
enum Id {
    User(String),
    Room(String),
    Alias(String),
    Event(String, String),
}

#[derive(Clone, Debug)]
struct Val {
    id: Id,
    via: Vec<String>,
    action: Option<String>,
}

fn id_toks(id: &Id) -> String {
    match id {
        Id::User(s) => format!("u {}", stok(s)),
        Id::Room(s) => format!("r {}", stok(s)),
        Id::Alias(s) => format!("a {}", stok(s)),
        Id::Event(r, e) => format!("e {} {}", stok(r), stok(e)),
    }
}

fn via_toks<S: AsRef<str>>(via: &[S]) -> String {
    let mut s = format!("v{}", via.len());
    for v in via {
        s.push(' ');
        s.push_str(&stok(v.as_ref()));
    }
    s
}

fn act_tok(a: Option<&str>) -> String {
    match a {
        None => "n".into(),
        Some(a) => stok(a),
    }
}

fn real_id_toks(id: &MatrixId) -> String {
    match id {
        MatrixId::Room(r) => format!("r {}", stok(r.as_str())),
        MatrixId::RoomAlias(a) => format!("a {}", stok(a.as_str())),
        MatrixId::User(u) => format!("u {}", stok(u.as_str())),
        MatrixId::Event(r, e) => format!("e {} {}", stok(r.as_str()), stok(e.as_str())),
        _ => "unknown-variant".into(),
    }
}

fn render_to(r: &Result<MatrixToUri, ruma_common::IdParseError>) -> String {
    match r {
        Ok(u) => format!("ok {} {}", real_id_toks(u.id()), via_toks(u.via())),
        Err(_) => "err".into(),
    }
}

fn render_uri(r: &Result<MatrixUri, ruma_common::IdParseError>) -> String {
    match r {
        Ok(u) => format!(
            "ok {} {} {}",
            real_id_toks(u.id()),
            via_toks(u.via()),
            act_tok(u.action().map(|a| a.as_str()))
        ),
        Err(_) => "err".into(),
    }
}

/// Every byte as `%XX`: the most conservative spelling of a segment.
fn escape_all(s: &str) -> String {
    s.bytes().map(|b| format!("%{b:02X}")).collect()
}

fn type_of(id: &str) -> &'static str {
    match id.as_bytes().first() {
        Some(b'@') => "u",
        Some(b'!') => "roomid",
        Some(b'#') => "r",
        _ => "e",
    }
}

/// The identifiers of the value must be ones the real parsers accept (the request generator only
/// emits such values); returns `None` otherwise.
fn ids_valid(v: &Val) -> bool {
    (match &v.id {
        Id::User(s) => <&UserId>::try_from(s.as_str()).is_ok(),
        Id::Room(s) => <&RoomId>::try_from(s.as_str()).is_ok(),
        Id::Alias(s) => <&RoomAliasId>::try_from(s.as_str()).is_ok(),
        Id::Event(r, e) => {
            <&RoomOrAliasId>::try_from(r.as_str()).is_ok() && <&EventId>::try_from(e.as_str()).is_ok()
        }
    }) && v.via.iter().all(|s| ServerName::parse(s).is_ok())
}

/// Build the `MatrixToUri` value. The crate's constructors cover only some shapes (no `via` for
/// users and aliases), so the general constructor is the parser applied to the fully escaped text;
/// where a public constructor exists its result must be the same value (reported as T3).
fn build_to(v: &Val, t3: &mut Vec<String>) -> Option<MatrixToUri> {
    let mut text = String::from(TO_BASE);
    match &v.id {
        Id::User(s) | Id::Room(s) | Id::Alias(s) => text.push_str(&escape_all(s)),
        Id::Event(r, e) => {
            text.push_str(&escape_all(r));
            text.push('/');
            text.push_str(&escape_all(e));
        }
    }
    for (i, s) in v.via.iter().enumerate() {
        text.push_str(if i == 0 { "?via=" } else { "&via=" });
        text.push_str(&escape_all(s));
    }
    let parsed = MatrixToUri::parse(&text).ok();
    let via: Vec<OwnedServerName> = v.via.iter().map(|s| ServerName::parse(s).unwrap()).collect();
    #[allow(deprecated)]
    let built: Option<MatrixToUri> = match &v.id {
        Id::User(s) if via.is_empty() => Some(<&UserId>::try_from(s.as_str()).unwrap().matrix_to_uri()),
        Id::Alias(s) if via.is_empty() => {
            Some(<&RoomAliasId>::try_from(s.as_str()).unwrap().matrix_to_uri())
        }
        Id::Room(s) => Some(<&RoomId>::try_from(s.as_str()).unwrap().matrix_to_uri_via(via.clone())),
        Id::Event(r, e) if r.starts_with('!') => Some(
            <&RoomId>::try_from(r.as_str())
                .unwrap()
                .matrix_to_event_uri_via(<&EventId>::try_from(e.as_str()).unwrap(), via.clone()),
        ),
        Id::Event(r, e) if via.is_empty() => Some(
            <&RoomAliasId>::try_from(r.as_str())
                .unwrap()
                .matrix_to_event_uri(<&EventId>::try_from(e.as_str()).unwrap()),
        ),
        _ => None,
    };
    match (built, parsed) {
        (Some(b), Some(p)) => {
            if b != p {
                t3.push(format!("constructor value differs from the value parsed from {text:?}"));
            }
            Some(b)
        }
        (Some(b), None) => {
            t3.push(format!("fully escaped text {text:?} of a constructible value does not parse"));
            Some(b)
        }
        (None, p) => p,
    }
}

fn build_uri(v: &Val, t3: &mut Vec<String>) -> Option<MatrixUri> {
    let mut text = String::from("matrix:");
    match &v.id {
        Id::User(s) | Id::Room(s) | Id::Alias(s) => {
            text.push_str(type_of(s));
            text.push('/');
            text.push_str(&escape_all(&s[1..]));
        }
        Id::Event(r, e) => {
            text.push_str(type_of(r));
            text.push('/');
            text.push_str(&escape_all(&r[1..]));
            text.push_str("/e/");
            text.push_str(&escape_all(&e[1..]));
        }
    }
    let mut first = true;
    for s in &v.via {
        text.push_str(if first { "?via=" } else { "&via=" });
        text.push_str(&escape_all(s));
        first = false;
    }
    if let Some(a) = &v.action {
        text.push_str(if first { "?action=" } else { "&action=" });
        text.push_str(&escape_all(a));
    }
    let parsed = MatrixUri::parse(&text).ok();
    let via: Vec<OwnedServerName> = v.via.iter().map(|s| ServerName::parse(s).unwrap()).collect();
    let act = v.action.as_deref();
    let built: Option<MatrixUri> = match &v.id {
        Id::User(s) if via.is_empty() && matches!(act, None | Some("chat")) => {
            Some(<&UserId>::try_from(s.as_str()).unwrap().matrix_uri(act.is_some()))
        }
        Id::Alias(s) if via.is_empty() && matches!(act, None | Some("join")) => {
            Some(<&RoomAliasId>::try_from(s.as_str()).unwrap().matrix_uri(act.is_some()))
        }
        Id::Room(s) if matches!(act, None | Some("join")) => {
            Some(<&RoomId>::try_from(s.as_str()).unwrap().matrix_uri_via(via.clone(), act.is_some()))
        }
        Id::Event(r, e) if r.starts_with('!') && act.is_none() => Some(
            <&RoomId>::try_from(r.as_str())
                .unwrap()
                .matrix_event_uri_via(<&EventId>::try_from(e.as_str()).unwrap(), via.clone()),
        ),
        #[allow(deprecated)]
        Id::Event(r, e) if via.is_empty() && act.is_none() => Some(
            <&RoomAliasId>::try_from(r.as_str())
                .unwrap()
                .matrix_event_uri(<&EventId>::try_from(e.as_str()).unwrap()),
        ),
        _ => None,
    };
    match (built, parsed) {
        (Some(b), Some(p)) => {
            if b != p {
                t3.push(format!("constructor value differs from the value parsed from {text:?}"));
            }
            Some(b)
        }
        (Some(b), None) => {
            t3.push(format!("fully escaped text {text:?} of a constructible value does not parse"));
            Some(b)
        }
        (None, p) => p,
    }
}

// ---------------------------------------------------------------------------------------------
// oracles carried in parse requests

fn mask(s: &str) -> u32 {
    (<&UserId>::try_from(s).is_ok() as u32)
        | (<&RoomId>::try_from(s).is_ok() as u32) << 1
        | (<&RoomAliasId>::try_from(s).is_ok() as u32) << 2
        | (<&EventId>::try_from(s).is_ok() as u32) << 3
        | (ServerName::parse(s).is_ok() as u32) << 4
}

fn strict_decode(piece: &str) -> Option<String> {
    percent_encoding::percent_decode_str(piece).decode_utf8().ok().map(|c| c.into_owned())
}

fn form_decode(piece: &str) -> String {
    let replaced: Vec<u8> = piece.bytes().map(|b| if b == b'+' { b' ' } else { b }).collect();
    String::from_utf8_lossy(&percent_encoding::percent_decode(&replaced).collect::<Vec<u8>>())
        .into_owned()
}

/// Every string the parsers can be asked about for this text: a superset (each piece between
/// delimiters, decoded both ways, bare and behind each sigil).
fn candidates(body: &str) -> BTreeSet<String> {
    let mut out = BTreeSet::new();
    out.insert(String::new());
    let mut pieces: Vec<&str> = body.split(['/', '?']).collect();
    pieces.extend(body.split(['/', '?', '&', '=']));
    for item in body.split(['?', '&']).chain(body.split('&')) {
        pieces.push(item);
        if let Some((k, v)) = item.split_once('=') {
            pieces.push(k);
            pieces.push(v);
        }
    }
    for piece in pieces {
        let mut forms = vec![form_decode(piece)];
        if let Some(d) = strict_decode(piece) {
            forms.push(d);
        }
        for f in forms {
            for sigil in ["@", "!", "#", "$"] {
                out.insert(format!("{sigil}{f}"));
            }
            out.insert(f);
        }
    }
    out
}

fn oracle_toks(cands: &BTreeSet<String>) -> String {
    let mut s = format!("q{}", cands.len());
    for c in cands {
        s.push_str(&format!(" {} {}", stok(c), mask(c)));
    }
    s
}

fn to_oracle(text: &str) -> String {
    match text.strip_prefix(TO_BASE) {
        Some(body) => {
            // the parser drops one trailing '/' before it splits
            let mut c = candidates(body);
            c.extend(candidates(body.strip_suffix('/').unwrap_or(body)));
            oracle_toks(&c)
        }
        None => "q0".into(),
    }
}

fn url_toks(text: &str) -> (String, Option<url::Url>) {
    match url::Url::parse(text) {
        Ok(u) => (
            format!("p {} {} {}", stok(u.scheme()), stok(u.path()), act_tok(u.query())),
            Some(u),
        ),
        Err(_) => ("x".into(), None),
    }
}

fn uri_oracle(u: &Option<url::Url>) -> String {
    match u {
        Some(u) if u.scheme() == "matrix" => {
            let mut c = candidates(u.path());
            c.extend(candidates(u.query().unwrap_or("")));
            oracle_toks(&c)
        }
        _ => "q0".into(),
    }
}

/// `q<n> (<s> <mask>)*` exactly, and every mask is what the real parsers answer now. (Generated
/// requests carry a superset of the strings the parse can ask about; corpus lines may carry fewer —
/// the driver refuses a request whose oracle lacks a string that matters.)
fn oracle_is_current(toks: &[&str]) -> bool {
    let Some(n) = toks.first().and_then(|t| t.strip_prefix('q')).and_then(|t| t.parse::<usize>().ok())
    else {
        return false;
    };
    if toks.len() != 1 + 2 * n {
        return false;
    }
    toks[1..].chunks(2).all(|c| {
        match (c[0].strip_prefix('s').and_then(unhex_str), c[1].parse::<u32>()) {
            (Some(s), Ok(m)) => mask(&s) == m,
            _ => false,
        }
    })
}

fn to_parse_req(text: &str) -> String {
    format!("c11.to.parse {} {}", stok(text), to_oracle(text))
}

fn uri_parse_req(text: &str) -> String {
    let (ut, u) = url_toks(text);
    format!("c11.uri.parse {} {} {}", stok(text), ut, uri_oracle(&u))
}

/// The class of texts on which the Lean reference of `Url::parse` is defined.
fn in_url_domain(text: &str) -> bool {
    match text.strip_prefix("matrix:") {
        Some(rest) => {
            !rest.starts_with('/')
                && rest.bytes().all(|b| (0x21..=0x7e).contains(&b) && !matches!(b, b'"' | b'<' | b'>'))
        }
        None => false,
    }
}

// ---------------------------------------------------------------------------------------------
// run

fn parse_id_toks(toks: &mut std::slice::Iter<'_, &str>) -> Option<Id> {
    let kind = *toks.next()?;
    let mut s = || -> Option<String> { unhex_str(toks.next()?.strip_prefix('s')?) };
    Some(match kind {
        "u" => Id::User(s()?),
        "r" => Id::Room(s()?),
        "a" => Id::Alias(s()?),
        "e" => {
            let r = s()?;
            Id::Event(r, s()?)
        }
        _ => return None,
    })
}

fn parse_via_toks(toks: &mut std::slice::Iter<'_, &str>) -> Option<Vec<String>> {
    let n: usize = toks.next()?.strip_prefix('v')?.parse().ok()?;
    (0..n).map(|_| unhex_str(toks.next()?.strip_prefix('s')?)).collect()
}

fn parse_act_tok(toks: &mut std::slice::Iter<'_, &str>) -> Option<Option<String>> {
    let t = *toks.next()?;
    if t == "n" {
        Some(None)
    } else {
        Some(Some(unhex_str(t.strip_prefix('s')?)?))
    }
}

fn parse_val(toks: &[&str], with_action: bool) -> Option<Val> {
    let mut it = toks.iter();
    let id = parse_id_toks(&mut it)?;
    let via = parse_via_toks(&mut it)?;
    let action = if with_action { parse_act_tok(&mut it)? } else { None };
    if it.next().is_some() {
        return None;
    }
    let v = Val { id, via, action };
    ids_valid(&v).then_some(v)
}

pub fn run(req: &str) -> Outcome {
    let toks: Vec<&str> = req.split(' ').collect();
    let bad = Outcome::bad;
    let mut t3 = Vec::new();
    match toks[0] {
        "c11.to.fmt" | "c11.to.rt" => {
            let Some(v) = parse_val(&toks[1..], false) else { return bad() };
            let Some(u) = build_to(&v, &mut t3) else {
                return Outcome { imp: "no-value".into(), t3 };
            };
            let text = u.to_string();
            let back = MatrixToUri::parse(&text);
            if back.as_ref().ok() != Some(&u) {
                t3.push(format!("format→parse does not give the value back: {text:?} → {back:?}"));
            }
            if toks[0] == "c11.to.fmt" {
                Outcome { imp: format!("ok {}", stok(&text)), t3 }
            } else {
                Outcome { imp: render_to(&back), t3 }
            }
        }
        "c11.uri.fmt" | "c11.uri.rt" => {
            let Some(v) = parse_val(&toks[1..], true) else { return bad() };
            let Some(u) = build_uri(&v, &mut t3) else {
                return Outcome { imp: "no-value".into(), t3 };
            };
            let text = u.to_string();
            let back = MatrixUri::parse(&text);
            if back.as_ref().ok() != Some(&u) {
                t3.push(format!("format→parse does not give the value back: {text:?} → {back:?}"));
            }
            if toks[0] == "c11.uri.fmt" {
                Outcome { imp: format!("ok {}", stok(&text)), t3 }
            } else {
                Outcome { imp: render_uri(&back), t3 }
            }
        }
        "c11.to.parse" => {
            let Some(text) = toks.get(1).and_then(|t| unhex_str(t.strip_prefix('s')?)) else {
                return bad();
            };
            if !oracle_is_current(&toks[2..]) {
                return bad();
            }
            let r = MatrixToUri::parse(&text);
            if let Ok(u) = &r {
                let again = u.to_string();
                let back = MatrixToUri::parse(&again);
                if back.as_ref().ok() != Some(u) {
                    t3.push(format!("parse→format→parse changes the value: {again:?} → {back:?}"));
                }
            }
            Outcome { imp: render_to(&r), t3 }
        }
        "c11.uri.parse" => {
            let Some(text) = toks.get(1).and_then(|t| unhex_str(t.strip_prefix('s')?)) else {
                return bad();
            };
            // the request must carry what the real `Url::parse` returns today and only current
            // decisions of the identifier parsers
            let (ut, _) = url_toks(&text);
            let n_url = ut.split(' ').count();
            if toks.len() < 2 + n_url || toks[2..2 + n_url].join(" ") != ut {
                return bad();
            }
            if !oracle_is_current(&toks[2 + n_url..]) {
                return bad();
            }
            let r = MatrixUri::parse(&text);
            if let Ok(u) = &r {
                let again = u.to_string();
                let back = MatrixUri::parse(&again);
                if back.as_ref().ok() != Some(u) {
                    t3.push(format!("parse→format→parse changes the value: {again:?} → {back:?}"));
                }
            }
            Outcome { imp: render_uri(&r), t3 }
        }
        "c11.url" => {
            let Some(text) = toks.get(1).and_then(|t| unhex_str(t.strip_prefix('s')?)) else {
                return bad();
            };
            if toks.len() != 2 || !in_url_domain(&text) {
                return bad();
            }
            let imp = match url::Url::parse(&text) {
                Ok(u) => {
                    format!("ok {} {} {}", stok(u.scheme()), stok(u.path()), act_tok(u.query()))
                }
                Err(_) => "err".into(),
            };
            Outcome { imp, t3 }
        }
        _ => bad(),
    }
}

// ---------------------------------------------------------------------------------------------
// generators

/// Pieces for localparts / opaque ids: every reserved, percent and non-ASCII shape.
const PIECES: &[&str] = &[
    "a", "b", "Z", "0", "9", "room", "user", "e", "r", "u", "roomid", "event", "via", "action", "%",
    "%%", "%4", "%41", "%2F", "%2f", "%3F", "%23", "%25", "%zz", "%FF", "%C3%A9", "%00", "/", "//",
    "?", "#", "&", "=", "+", " ", "\"", "<", ">", "`", "{", "}", "|", "\\", "^", "[", "]", "'", "(",
    ")", "*", ",", ";", "@", "!", "$", "~", "_", "-", ".", "..", "\t", "\n", "\r", "\u{1}",
    "\u{1f}", "\u{7f}", "\u{80}", "é", "ß", "日本", "😀", "\u{fffd}", "\u{ffff}", "\u{10ffff}",
    "e\u{301}", "join", "chat",
];

const SERVERS: &[&str] = &[
    "h", "x", "example.org", "notareal.hs", "a-b.c", "A.B", "matrix.org:8448", "h:0", "h:65535",
    "1.2.3.4", "1.2.3.4:80", "127.0.0.1:8008", "[::1]", "[::1]:8448", "[2001:db8::1]",
    "[2001:DB8::a:1]:443", "[::ffff:1.2.3.4]", "[::ffff:1.2.3.4]:1", "0", "-", "a.-.b",
];

const ACTIONS: &[&str] = &[
    "join", "chat", "", "a", "Join", "CHAT", "join ", " chat", "a&b", "a#b", "a%26b", "a%23b", "a%b",
    "%", "%4", "a+b", "+", "a b", "a=b", "=", "&", "&&", "?", "a?b", "a/b", "/", "é", "日本",
    "😀", "\u{fffd}", "a\u{1}b", "\u{7f}", "\"q\"", "<x>", "'", "a;b", "via", "action",
    "action=join", "via=h", "join&action=chat", "a\\b", "a|b", "^", "`", "{}", "[]", "~", "\t",
];

fn gen_piece(rng: &mut Rng, forbid: &[char]) -> String {
    loop {
        let mut s = String::new();
        let n = 1 + rng.below(4);
        for _ in 0..n {
            if rng.chance(1, 6) {
                // any single ASCII byte except NUL
                s.push((1 + rng.below(127)) as u8 as char);
            } else {
                s.push_str(*rng.pick(PIECES));
            }
        }
        if !s.contains(forbid) && !s.contains('\0') {
            return s;
        }
    }
}

fn gen_server(rng: &mut Rng) -> String {
    (*rng.pick(SERVERS)).to_owned()
}

fn gen_user(rng: &mut Rng) -> String {
    loop {
        let s = format!("@{}:{}", gen_piece(rng, &[':']), gen_server(rng));
        if <&UserId>::try_from(s.as_str()).is_ok() {
            return s;
        }
    }
}

fn gen_alias(rng: &mut Rng) -> String {
    loop {
        let s = format!("#{}:{}", gen_piece(rng, &[':']), gen_server(rng));
        if <&RoomAliasId>::try_from(s.as_str()).is_ok() {
            return s;
        }
    }
}

fn gen_room(rng: &mut Rng) -> String {
    if rng.chance(1, 40) {
        return "!".to_owned();
    }
    loop {
        let s = match rng.below(3) {
            0 => format!("!{}", gen_piece(rng, &[])),
            1 => format!("!{}:{}", gen_piece(rng, &[]), gen_piece(rng, &[])),
            _ => format!("!{}:{}", gen_piece(rng, &[':']), gen_server(rng)),
        };
        if <&RoomId>::try_from(s.as_str()).is_ok() {
            return s;
        }
    }
}

fn gen_event(rng: &mut Rng) -> String {
    if rng.chance(1, 40) {
        return "$".to_owned();
    }
    loop {
        let s = if rng.chance(2, 3) {
            format!("${}", gen_piece(rng, &[':']))
        } else {
            format!("${}:{}", gen_piece(rng, &[':']), gen_server(rng))
        };
        if <&EventId>::try_from(s.as_str()).is_ok() {
            return s;
        }
    }
}

fn gen_val(rng: &mut Rng) -> Val {
    let id = match rng.below(5) {
        0 => Id::User(gen_user(rng)),
        1 => Id::Room(gen_room(rng)),
        2 => Id::Alias(gen_alias(rng)),
        3 => Id::Event(gen_room(rng), gen_event(rng)),
        _ => Id::Event(gen_alias(rng), gen_event(rng)),
    };
    let via = (0..rng.below(5)).map(|_| gen_server(rng)).filter(|s| ServerName::parse(s).is_ok()).collect();
    let action = match rng.below(4) {
        0 => None,
        1 => Some("join".to_owned()),
        2 => Some("chat".to_owned()),
        _ => Some(if rng.chance(1, 4) { gen_piece(rng, &[]) } else { (*rng.pick(ACTIONS)).to_owned() }),
    };
    Val { id, via, action }
}

fn push_uri_text(reqs: &mut Vec<Req>, text: &str, cls: &str) {
    reqs.push(Req::new(uri_parse_req(text), format!("uri.parse.{cls}")));
    if in_url_domain(text) {
        reqs.push(Req::new(format!("c11.url {}", stok(text)), format!("url.{cls}")));
    }
}

fn value_requests(rng: &mut Rng, reqs: &mut Vec<Req>) -> (Option<String>, Option<String>) {
    let v = gen_val(rng);
    let idt = id_toks(&v.id);
    let viat = via_toks(&v.via);
    let actt = act_tok(v.action.as_deref());
    reqs.push(Req::new(format!("c11.to.fmt {idt} {viat}"), "to.fmt"));
    reqs.push(Req::new(format!("c11.to.rt {idt} {viat}"), "to.rt"));
    reqs.push(Req::new(format!("c11.uri.fmt {idt} {viat} {actt}"), "uri.fmt"));
    reqs.push(Req::new(format!("c11.uri.rt {idt} {viat} {actt}"), "uri.rt"));
    // parse the formatted texts back on both sides (model parse of model-checked text)
    let mut sink = Vec::new();
    let to_text = h_util::guarded(|| build_to(&v, &mut Vec::new()).map(|u| u.to_string())).ok().flatten();
    let uri_text = h_util::guarded(|| build_uri(&v, &mut sink).map(|u| u.to_string())).ok().flatten();
    if let Some(t) = &to_text {
        reqs.push(Req::new(to_parse_req(t), "to.parse.formatted"));
    }
    if let Some(t) = &uri_text {
        push_uri_text(reqs, t, "formatted");
    }
    (to_text, uri_text)
}

/// Hand-spelled valid texts: partial encoding, legacy type names, swapped event order, slashes.
fn spelled_texts(rng: &mut Rng) -> (String, String) {
    let soft = |s: &str, rng: &mut Rng| -> String {
        // encode only what must be encoded, in random hex case; sometimes encode more
        let mut out = String::new();
        for b in s.bytes() {
            let must = matches!(b, b'/' | b'?' | b'#' | b'%' | b'&' | b'+' | b'=') || b >= 0x80 || b <= 0x20;
            if must || rng.chance(1, 8) {
                if rng.chance(1, 2) {
                    out.push_str(&format!("%{b:02X}"));
                } else {
                    out.push_str(&format!("%{b:02x}"));
                }
            } else {
                out.push(b as char);
            }
        }
        out
    };
    let v = gen_val(rng);
    let mut to = String::from(TO_BASE);
    let mut uri = String::from(if rng.chance(1, 10) { "MATRIX:" } else { "matrix:" });
    if rng.chance(1, 6) {
        to.push('/');
        uri.push('/');
    }
    let ty = |id: &str, rng: &mut Rng| -> &'static str {
        let long = rng.chance(1, 3);
        match id.as_bytes()[0] {
            b'@' => if long { "user" } else { "u" },
            b'#' => if long { "room" } else { "r" },
            b'!' => "roomid",
            _ => if long { "event" } else { "e" },
        }
    };
    match &v.id {
        Id::User(s) | Id::Room(s) | Id::Alias(s) => {
            // matrix.to accepts an unencoded leading '#'
            if s.starts_with('#') && rng.chance(1, 2) {
                to.push('#');
                to.push_str(&soft(&s[1..], rng));
            } else {
                to.push_str(&soft(s, rng));
            }
            uri.push_str(&format!("{}/{}", ty(s, rng), soft(&s[1..], rng)));
        }
        Id::Event(r, e) => {
            let rs = if r.starts_with('#') && rng.chance(1, 2) {
                format!("#{}", soft(&r[1..], rng))
            } else {
                soft(r, rng)
            };
            if rng.chance(1, 3) {
                to.push_str(&format!("{}/{}", soft(e, rng), rs));
                uri.push_str(&format!("{}/{}/{}/{}", ty(e, rng), soft(&e[1..], rng), ty(r, rng), soft(&r[1..], rng)));
            } else {
                to.push_str(&format!("{}/{}", rs, soft(e, rng)));
                uri.push_str(&format!("{}/{}/{}/{}", ty(r, rng), soft(&r[1..], rng), ty(e, rng), soft(&e[1..], rng)));
            }
        }
    }
    if rng.chance(1, 6) {
        to.push('/');
        uri.push('/');
    }
    let mut items: Vec<String> = v.via.iter().map(|s| format!("via={}", soft(s, rng))).collect();
    let mut to_q = items.join("&");
    if let Some(a) = &v.action {
        let item = format!("action={}", soft(a, rng).replace("%20", if rng.chance(1, 2) { "+" } else { "%20" }));
        let at = rng.below(items.len() + 1);
        items.insert(at, item);
    }
    if rng.chance(1, 8) {
        items.push(String::new());
        to_q.push('&');
    }
    if !to_q.is_empty() || rng.chance(1, 10) {
        to.push('?');
        to.push_str(&to_q);
    }
    if !items.is_empty() || rng.chance(1, 10) {
        uri.push('?');
        uri.push_str(&items.join("&"));
    }
    if rng.chance(1, 10) {
        to.push('/');
    }
    (to, uri)
}

const INSERTS: &[&str] = &[
    "/", "//", "?", "#", "%", "%4", "%zz", "%FF", "%C3", "%00", "%2F", "%3F", "%26", "&", "=", "+",
    ":", " ", "é", "\t", "\n", "$", "!", "@", "e/", "u/", "r/", "roomid/", "/e/", "?via=", "&via=h",
    "&action=join", "?action=", "action=a&action=b", "&x=y", "..", "/./", "/../",
];

fn mutate(rng: &mut Rng, text: &str) -> String {
    let mut s: Vec<char> = text.chars().collect();
    for _ in 0..1 + rng.below(3) {
        let at = rng.below(s.len() + 1);
        match rng.below(6) {
            0 | 1 => {
                let ins: Vec<char> = (*rng.pick(INSERTS)).chars().collect();
                s.splice(at..at, ins);
            }
            2 => {
                if at < s.len() {
                    s.remove(at);
                }
            }
            3 => s.truncate(at),
            4 => {
                // empty an identifier segment: delete up to the next delimiter
                let end = (at..s.len()).find(|&i| matches!(s[i], '/' | '?' | '&')).unwrap_or(s.len());
                s.drain(at..end);
            }
            _ => {
                if at < s.len() {
                    let c = s[at];
                    s.insert(at, c);
                }
            }
        }
    }
    s.into_iter().collect()
}

/// Fixed texts: the witnesses of F7/F9 and boundary shapes.
const FIXED_TO: &[&str] = &[
    "",
    "https://matrix.to/#/",
    "https://matrix.to/#//",
    "https://matrix.to/#///",
    "https://matrix.to/#///$e",
    "https://matrix.to/#/!r:x///",
    "https://matrix.to/#/!r:x//",
    "https://matrix.to/#//$e/",
    "https://matrix.to/#/$e//",
    "https://matrix.to/#/%/$e",
    "https://matrix.to/#/!r:x/$e",
    "https://matrix.to/#/$e/!r:x",
    "https://matrix.to/#/$e/#a:x",
    "https://matrix.to/#/$e/$f",
    "https://matrix.to/#/!r:x/!s:x",
    "https://matrix.to/#/$e",
    "https://matrix.to/#/@u:h",
    "https://matrix.to/#/@u:h/",
    "https://matrix.to/#//@u:h/",
    "https://matrix.to/#/@u:h?via=h",
    "https://matrix.to/#/@u:h?via=h?via=x",
    "https://matrix.to/#/@u:h?",
    "https://matrix.to/#/@u:h??",
    "https://matrix.to/#/@u:h?&&via=h&",
    "https://matrix.to/#/@u:h?via",
    "https://matrix.to/#/@u:h?via=",
    "https://matrix.to/#/@u:h?action=join",
    "https://matrix.to/#/@u:h?via=h/",
    "https://matrix.to/#/%40u%3Ah",
    "https://matrix.to/#/%40u%3ah?via=%68",
    "https://matrix.to/#/%FF",
    "https://matrix.to/#/@%FF:h",
    "https://matrix.to/#/!a%2541:x",
    "https://matrix.to/#/!a%41:x",
    "https://matrix.to/#/#a:h",
    "https://matrix.to/#/%23a:h",
    "https://matrix.to/#/#a:h/$e",
    "https://matrix.to/#/!r/$e?via=[::1]:80&via=1.2.3.4",
    "https://matrix.to/#/!r?via=a%3A%2B80",
    "https://matrix.to/#/!r?via=a:+80",
    "http://matrix.to/#/@u:h",
    "https://matrix.to/#@u:h",
    "HTTPS://matrix.to/#/@u:h",
    "matrix:u/u:h",
];

const FIXED_URI: &[&str] = &[
    "",
    "matrix:",
    "matrix:/",
    "matrix://",
    "matrix:u",
    "matrix:u/",
    "matrix:u//",
    "matrix:/u/a:h",
    "matrix://u/a:h",
    "matrix://host/u/a:h",
    "matrix:u/a:h",
    "matrix:u/a:h/",
    "matrix:u/a:h//",
    "matrix:user/a:h",
    "matrix:r/a:h",
    "matrix:room/a:h",
    "matrix:roomid/a:h",
    "matrix:e/a",
    "matrix:x/a:h",
    "matrix:u/a:h/e/x",
    "matrix:r/a:h/e/x",
    "matrix:roomid/a:h/e/x",
    "matrix:roomid/a:h/event/x",
    "matrix:e/x/roomid/a:h",
    "matrix:e/x/e/y",
    "matrix:r/a:h/e/",
    "matrix:r/a:h/e//",
    "matrix:r//e/x",
    "matrix:r/a:h/e",
    "matrix:r/a:h/e/x/y",
    "matrix:u/a:h?action=chat",
    "matrix:u/a:h?action=a%26b",
    "matrix:u/a:h?action=a%23b",
    "matrix:u/a:h?action=a%25b",
    "matrix:u/a:h?action=a%2526b",
    "matrix:u/a:h?action=a+b",
    "matrix:u/a:h?action=a%2Bb",
    "matrix:u/a:h?action=%FF",
    "matrix:u/a:h?action=%C3%A9",
    "matrix:u/a:h?action=é",
    "matrix:u/a:h?action=",
    "matrix:u/a:h?action",
    "matrix:u/a:h?action=join&action=join",
    "matrix:u/a:h?action=join&via=h&via=x",
    "matrix:u/a:h?via=h&action=join&via=x",
    "matrix:u/a:h?via=h&x=y",
    "matrix:u/a:h?",
    "matrix:u/a:h?&&",
    "matrix:u/a:h#frag",
    "matrix:u/a:h?action=join#frag",
    "matrix:u/a:h?via=a:%2B80",
    "matrix:u/a:h?via=a:+80",
    "matrix:u/a:h?via=%5B::1%5D:80",
    "matrix:u/a%3Ah",
    "matrix:u/%61%3a%68",
    "matrix:u/a:h%",
    "matrix:u/a:h%4",
    "matrix:u/%FF:h",
    "matrix:u/é:h",
    "matrix:roomid/a%2541:x",
    "matrix:roomid/a%41:x",
    "matrix:roomid/a%2Fb:x",
    "matrix:roomid/%2F",
    "matrix:roomid/",
    "MATRIX:u/a:h",
    "Matrix:U/a:h",
    " matrix:u/a:h ",
    "ma\ttrix:u/a:\nh",
    "matrix:u/a :h",
    "matrix:u/a:h?action=a b",
    "matrix:u/a:h?action=a\"b<c>d",
    "matrix:./u/a:h",
    "matrix:u/../u/a:h",
    "matrix:/u/../u/a:h",
    "matrix:/./u/a:h",
    "matrix:/%2e/u/a:h",
    "mxc://h/m",
    "https://matrix.to/#/@u:h",
    "matrix",
    ":u/a:h",
    "matrix:u/a:h\u{0}",
    "matrix:u/a\\b:h",
];

fn gen(rng: &mut Rng, n: usize, _tier: &str) -> Vec<Req> {
    let mut reqs = Vec::new();
    for t in FIXED_TO {
        reqs.push(Req::new(to_parse_req(t), "to.parse.fixed"));
    }
    for t in FIXED_URI {
        push_uri_text(&mut reqs, t, "fixed");
    }
    // one value per ASCII byte in a room id (every byte of the encode set boundary), and in a
    // custom action
    for b in 1u8..=0x7f {
        let idt = format!("r {}", stok(&format!("!a{}b:x", b as char)));
        reqs.push(Req::new(format!("c11.to.fmt {idt} v0"), "to.fmt.byte"));
        reqs.push(Req::new(format!("c11.to.rt {idt} v0"), "to.rt.byte"));
        reqs.push(Req::new(format!("c11.uri.fmt {idt} v0 n"), "uri.fmt.byte"));
        let act = stok(&format!("a{}b", b as char));
        reqs.push(Req::new(format!("c11.uri.fmt u {} v1 {} {act}", stok("@u:h"), stok("h")), "uri.fmt.byte"));
        reqs.push(Req::new(format!("c11.uri.rt u {} v1 {} {act}", stok("@u:h"), stok("h")), "uri.rt.byte"));
    }
    while reqs.len() < n + FIXED_TO.len() + FIXED_URI.len() + 5 * 127 {
        match rng.below(10) {
            0..=3 => {
                let (to, uri) = value_requests(rng, &mut reqs);
                // mutants of formatted texts
                if let Some(t) = to {
                    reqs.push(Req::new(to_parse_req(&mutate(rng, &t)), "to.parse.mutant"));
                }
                if let Some(t) = uri {
                    push_uri_text(&mut reqs, &mutate(rng, &t), "mutant");
                }
            }
            4..=6 => {
                let (to, uri) = spelled_texts(rng);
                reqs.push(Req::new(to_parse_req(&to), "to.parse.spelled"));
                push_uri_text(&mut reqs, &uri, "spelled");
            }
            _ => {
                let (to, uri) = spelled_texts(rng);
                reqs.push(Req::new(to_parse_req(&mutate(rng, &to)), "to.parse.mutant"));
                push_uri_text(&mut reqs, &mutate(rng, &uri), "mutant");
            }
        }
    }
    reqs
}

fn main() {
    h_lib::std_main(None, &gen, &run);
}
