//! Synthetic endpoints defined with the real `#[request]` / `#[response]` macros, covering every
//! field-attribute kind: path, query, query_all, header (mandatory / optional), body fields,
//! newtype body, raw body; optional and multi-valued fields; all six authentication schemes;
//! histories with several stable paths, deprecation, removal, and unstable-only.
#![allow(clippy::exhaustive_structs)]
use std::collections::BTreeMap;

use js_int::UInt;
use ruma_common::api::{MatrixVersion, OutgoingRequest, SendAccessToken};
use serde_json::{Map, Value};

use crate::registry::{check_request_arrival, check_response_value, ep, into_http_error_class, req_msg, Ep, Msg, Rt, BASE_URL};

pub mod s_path {
    use http::header::{ETAG, IF_MATCH};
    use ruma_common::{
        api::{request, response, Metadata},
        metadata,
    };
    use std::collections::BTreeMap;

    const METADATA: Metadata = metadata! {
        method: GET,
        rate_limited: false,
        authentication: None,
        history: {
            unstable => "/_synthetic/unstable/org.example/p/:a/x/:b",
            1.1 => "/_synthetic/v1/p/:a/x/:b",
            1.5 => "/_synthetic/v2/p/:a/x/:b",
        }
    };

    #[request]
    pub struct Request {
        #[ruma_api(path)]
        pub a: String,
        #[ruma_api(path)]
        pub b: String,
        #[ruma_api(query)]
        pub q: String,
        #[ruma_api(query)]
        #[serde(skip_serializing_if = "Option::is_none")]
        pub oq: Option<String>,
        #[ruma_api(query)]
        #[serde(default, skip_serializing_if = "Vec::is_empty")]
        pub mq: Vec<String>,
        #[ruma_api(query)]
        #[serde(skip_serializing_if = "Option::is_none")]
        pub n: Option<js_int::UInt>,
        #[ruma_api(header = IF_MATCH)]
        pub h: Option<String>,
    }

    #[response]
    pub struct Response {
        pub s: String,
        #[serde(skip_serializing_if = "Option::is_none")]
        pub o: Option<String>,
        pub list: Vec<String>,
        pub map: BTreeMap<String, String>,
        #[ruma_api(header = ETAG)]
        pub etag: Option<String>,
    }
}

pub mod s_body {
    use http::header::{CONTENT_LANGUAGE, LOCATION};
    use ruma_common::{
        api::{request, response, Metadata},
        metadata,
    };
    use std::collections::BTreeMap;

    const METADATA: Metadata = metadata! {
        method: PUT,
        rate_limited: false,
        authentication: AccessToken,
        history: {
            1.0 => "/_synthetic/r0/b/:id",
            1.1 => "/_synthetic/v3/b/:id",
            1.3 => deprecated,
            1.6 => removed,
        }
    };

    #[request]
    pub struct Request {
        #[ruma_api(path)]
        pub id: String,
        pub s: String,
        #[serde(skip_serializing_if = "Option::is_none")]
        pub o: Option<String>,
        #[serde(default, skip_serializing_if = "Vec::is_empty")]
        pub v: Vec<String>,
        pub m: BTreeMap<String, String>,
        pub n: js_int::UInt,
        #[ruma_api(header = CONTENT_LANGUAGE)]
        pub lang: String,
    }

    #[derive(Clone, Debug, serde::Serialize, serde::Deserialize)]
    pub struct Data {
        pub x: String,
        pub ys: Vec<String>,
    }

    #[response]
    pub struct Response {
        #[ruma_api(body)]
        pub data: Data,
        #[ruma_api(header = LOCATION)]
        pub location: String,
    }
}

pub mod s_raw {
    use http::header::{CONTENT_DISPOSITION, CONTENT_ENCODING, CONTENT_TYPE};
    use ruma_common::{
        api::{request, response, Metadata},
        metadata,
    };
    use std::collections::BTreeMap;

    const METADATA: Metadata = metadata! {
        method: POST,
        rate_limited: false,
        authentication: AccessTokenOptional,
        history: {
            unstable => "/_synthetic/unstable/raw/:name/upload",
        }
    };

    #[request]
    pub struct Request {
        #[ruma_api(path)]
        pub name: String,
        #[ruma_api(query_all)]
        pub params: BTreeMap<String, String>,
        /// mandatory here: with a raw body the macros write `Content-Type: application/json`
        /// themselves when the field is absent (see finding F16 for the optional variant)
        #[ruma_api(header = CONTENT_TYPE)]
        pub content_type: String,
        #[ruma_api(header = CONTENT_ENCODING)]
        pub encoding: Option<String>,
        #[ruma_api(raw_body)]
        pub file: Vec<u8>,
    }

    #[response]
    pub struct Response {
        #[ruma_api(raw_body)]
        pub file: Vec<u8>,
        #[ruma_api(header = CONTENT_TYPE)]
        pub content_type: String,
        #[ruma_api(header = CONTENT_ENCODING)]
        pub encoding: Option<String>,
        #[ruma_api(header = CONTENT_DISPOSITION)]
        pub disposition: String,
    }
}

pub mod s_new {
    use ruma_common::{
        api::{request, response, Metadata},
        metadata,
    };

    const METADATA: Metadata = metadata! {
        method: PUT,
        rate_limited: false,
        authentication: AppserviceToken,
        history: {
            unstable => "/_synthetic/unstable/first/n/:n/:tail",
            unstable => "/_synthetic/unstable/second/n/:n/:tail",
            1.2 => "/_synthetic/v1/n/:n/:tail",
            1.4 => "/_synthetic/v2/n/:n/:tail",
            1.9 => "/_synthetic/v3/n/:n/:tail",
            1.12 => deprecated,
        }
    };

    #[derive(Clone, Debug, serde::Serialize, serde::Deserialize)]
    pub struct Data {
        pub x: String,
        #[serde(default, skip_serializing_if = "Vec::is_empty")]
        pub ys: Vec<String>,
    }

    #[request]
    pub struct Request {
        #[ruma_api(path)]
        pub n: ruma_common::OwnedUserId,
        #[ruma_api(path)]
        pub tail: String,
        #[ruma_api(body)]
        pub data: Data,
    }

    #[response]
    #[derive(Default)]
    pub struct Response {}
}

pub mod s_sig {
    use ruma_common::{
        api::{request, response, Metadata},
        metadata,
    };

    const METADATA: Metadata = metadata! {
        method: GET,
        rate_limited: false,
        authentication: ServerSignatures,
        history: {
            1.0 => "/_synthetic/federation/v1/thing",
        }
    };

    #[request]
    pub struct Request {
        #[ruma_api(query)]
        #[serde(skip_serializing_if = "Option::is_none")]
        pub since: Option<String>,
        #[ruma_api(query)]
        #[serde(default, skip_serializing_if = "Vec::is_empty")]
        pub tag: Vec<String>,
    }

    // a 3xx success status, as `sso_login` has: the receiving side treats every status below 400 as
    // success (`response.status().as_u16() < 400`), not only 2xx
    #[response(status = FOUND)]
    pub struct Response {
        pub s: String,
    }
}

pub mod s_aso {
    use ruma_common::{
        api::{request, response, Metadata},
        metadata,
    };

    const METADATA: Metadata = metadata! {
        method: DELETE,
        rate_limited: false,
        authentication: AppserviceTokenOptional,
        history: {
            unstable => "/_synthetic/unstable/d/:a/:b/:c",
            1.7 => "/_synthetic/v1/d/:a/:b/:c",
        }
    };

    #[request]
    pub struct Request {
        #[ruma_api(path)]
        pub a: String,
        #[ruma_api(path)]
        pub b: String,
        #[ruma_api(path)]
        pub c: String,
        #[serde(skip_serializing_if = "Option::is_none")]
        pub reason: Option<String>,
    }

    #[response]
    pub struct Response {
        #[serde(skip_serializing_if = "Option::is_none")]
        pub o: Option<String>,
    }
}

pub fn push_all(eps: &mut Vec<Ep>) {
    eps.push(ep::<s_path::Request, s_path::Response>("synthetic::s_path", true));
    eps.push(ep::<s_body::Request, s_body::Response>("synthetic::s_body", true));
    eps.push(ep::<s_raw::Request, s_raw::Response>("synthetic::s_raw", true));
    eps.push(ep::<s_new::Request, s_new::Response>("synthetic::s_new", true));
    eps.push(ep::<s_sig::Request, s_sig::Response>("synthetic::s_sig", true));
    eps.push(ep::<s_aso::Request, s_aso::Response>("synthetic::s_aso", true));
}

/// Field kinds of the synthetic value objects (generator side).
#[derive(Clone, Copy, PartialEq, Eq)]
pub enum K {
    /// arbitrary Unicode string
    Str,
    OptStr,
    VecStr,
    MapStr,
    UInt,
    OptUInt,
    /// visible-ASCII string (HTTP header value the `http` crate can read back with `to_str`)
    Hdr,
    OptHdr,
    /// raw bytes, carried as a hex string
    Bytes,
    /// a user ID
    User,
}

pub struct SynSpec {
    pub name: &'static str,
    /// path argument field names in path order
    pub path: &'static [&'static str],
    pub req: &'static [(&'static str, K)],
    pub resp: &'static [(&'static str, K)],
}

pub const SPECS: &[SynSpec] = &[
    SynSpec {
        name: "synthetic::s_path",
        path: &["a", "b"],
        req: &[("a", K::Str), ("b", K::Str), ("q", K::Str), ("oq", K::OptStr), ("mq", K::VecStr), ("n", K::OptUInt), ("h", K::OptHdr)],
        resp: &[("s", K::Str), ("o", K::OptStr), ("list", K::VecStr), ("map", K::MapStr), ("etag", K::OptHdr)],
    },
    SynSpec {
        name: "synthetic::s_body",
        path: &["id"],
        req: &[("id", K::Str), ("s", K::Str), ("o", K::OptStr), ("v", K::VecStr), ("m", K::MapStr), ("n", K::UInt), ("lang", K::Hdr)],
        resp: &[("x", K::Str), ("ys", K::VecStr), ("location", K::Hdr)],
    },
    SynSpec {
        name: "synthetic::s_raw",
        path: &["name"],
        req: &[("name", K::Str), ("params", K::MapStr), ("content_type", K::Hdr), ("encoding", K::OptHdr), ("file", K::Bytes)],
        resp: &[("file", K::Bytes), ("content_type", K::Hdr), ("encoding", K::OptHdr), ("disposition", K::Hdr)],
    },
    SynSpec {
        name: "synthetic::s_new",
        path: &["n", "tail"],
        req: &[("n", K::User), ("tail", K::Str), ("x", K::Str), ("ys", K::VecStr)],
        resp: &[],
    },
    SynSpec { name: "synthetic::s_sig", path: &[], req: &[("since", K::OptStr), ("tag", K::VecStr)], resp: &[("s", K::Str)] },
    SynSpec {
        name: "synthetic::s_aso",
        path: &["a", "b", "c"],
        req: &[("a", K::Str), ("b", K::Str), ("c", K::Str), ("reason", K::OptStr)],
        resp: &[("o", K::OptStr)],
    },
];

// ---- reading a value object ----

fn s(o: &Map<String, Value>, k: &str) -> Option<String> {
    o.get(k)?.as_str().map(str::to_owned)
}
fn os(o: &Map<String, Value>, k: &str) -> Option<Option<String>> {
    match o.get(k) {
        None | Some(Value::Null) => Some(None),
        Some(Value::String(x)) => Some(Some(x.clone())),
        _ => None,
    }
}
fn vs(o: &Map<String, Value>, k: &str) -> Option<Vec<String>> {
    o.get(k)?.as_array()?.iter().map(|x| x.as_str().map(str::to_owned)).collect()
}
fn ms(o: &Map<String, Value>, k: &str) -> Option<BTreeMap<String, String>> {
    o.get(k)?.as_object()?.iter().map(|(k, v)| Some((k.clone(), v.as_str()?.to_owned()))).collect()
}
fn ui(o: &Map<String, Value>, k: &str) -> Option<UInt> {
    UInt::new(o.get(k)?.as_u64()?)
}
fn oui(o: &Map<String, Value>, k: &str) -> Option<Option<UInt>> {
    match o.get(k) {
        None | Some(Value::Null) => Some(None),
        Some(v) => Some(Some(UInt::new(v.as_u64()?)?)),
    }
}
fn by(o: &Map<String, Value>, k: &str) -> Option<Vec<u8>> {
    h_lib::h_util::unhex(o.get(k)?.as_str()?)
}

/// The outcome of encoding a synthetic request built from `o`, plus arrival checks.
pub struct SynOut {
    pub first: Result<Msg, String>,
    pub t3: Vec<String>,
}

fn go_req<R>(r: R, args: Vec<String>, versions: &[MatrixVersion], sat: SendAccessToken<'_>) -> SynOut
where
    R: OutgoingRequest + ruma_common::api::IncomingRequest + std::fmt::Debug,
{
    let mut t3 = Vec::new();
    let debug1 = format!("{r:?}");
    match r.try_into_http_request::<Vec<u8>>(BASE_URL, sat, versions) {
        Err(e) => SynOut { first: Err(into_http_error_class(&e)), t3 },
        Ok(h1) => {
            check_request_arrival::<R>(&debug1, &h1, Some(&args), versions, sat, &mut t3);
            SynOut { first: Ok(req_msg(&h1)), t3 }
        }
    }
}

/// Build the synthetic request `name` from the value object and send it over the wire.
pub fn run_req(name: &str, o: &Map<String, Value>, versions: &[MatrixVersion], sat: SendAccessToken<'_>) -> Option<SynOut> {
    Some(match name {
        "synthetic::s_path" => {
            let r = s_path::Request { a: s(o, "a")?, b: s(o, "b")?, q: s(o, "q")?, oq: os(o, "oq")?, mq: vs(o, "mq")?, n: oui(o, "n")?, h: os(o, "h")? };
            let args = vec![r.a.clone(), r.b.clone()];
            go_req(r, args, versions, sat)
        }
        "synthetic::s_body" => {
            let r = s_body::Request { id: s(o, "id")?, s: s(o, "s")?, o: os(o, "o")?, v: vs(o, "v")?, m: ms(o, "m")?, n: ui(o, "n")?, lang: s(o, "lang")? };
            let args = vec![r.id.clone()];
            go_req(r, args, versions, sat)
        }
        "synthetic::s_raw" => {
            let r = s_raw::Request { name: s(o, "name")?, params: ms(o, "params")?, content_type: s(o, "content_type")?, encoding: os(o, "encoding")?, file: by(o, "file")? };
            let args = vec![r.name.clone()];
            go_req(r, args, versions, sat)
        }
        "synthetic::s_new" => {
            let r = s_new::Request { n: s(o, "n")?.try_into().ok()?, tail: s(o, "tail")?, data: s_new::Data { x: s(o, "x")?, ys: vs(o, "ys")? } };
            let args = vec![r.n.to_string(), r.tail.clone()];
            go_req(r, args, versions, sat)
        }
        "synthetic::s_sig" => {
            let r = s_sig::Request { since: os(o, "since")?, tag: vs(o, "tag")? };
            go_req(r, vec![], versions, sat)
        }
        "synthetic::s_aso" => {
            let r = s_aso::Request { a: s(o, "a")?, b: s(o, "b")?, c: s(o, "c")?, reason: os(o, "reason")? };
            let args = vec![r.a.clone(), r.b.clone(), r.c.clone()];
            go_req(r, args, versions, sat)
        }
        _ => return None,
    })
}

fn go_resp<P>(p: P) -> Rt
where
    P: ruma_common::api::IncomingResponse + ruma_common::api::OutgoingResponse + std::fmt::Debug,
{
    let mut out = Rt { accepted: true, ..Default::default() };
    let d = format!("{p:?}");
    check_response_value(p, &d, &mut out);
    out
}

pub fn run_resp(name: &str, o: &Map<String, Value>) -> Option<Rt> {
    Some(match name {
        "synthetic::s_path" => go_resp(s_path::Response { s: s(o, "s")?, o: os(o, "o")?, list: vs(o, "list")?, map: ms(o, "map")?, etag: os(o, "etag")? }),
        "synthetic::s_body" => go_resp(s_body::Response { data: s_body::Data { x: s(o, "x")?, ys: vs(o, "ys")? }, location: s(o, "location")? }),
        "synthetic::s_raw" => go_resp(s_raw::Response { file: by(o, "file")?, content_type: s(o, "content_type")?, encoding: os(o, "encoding")?, disposition: s(o, "disposition")? }),
        "synthetic::s_new" => go_resp(s_new::Response {}),
        "synthetic::s_sig" => go_resp(s_sig::Response { s: s(o, "s")? }),
        "synthetic::s_aso" => go_resp(s_aso::Response { o: os(o, "o")? }),
        _ => return None,
    })
}
