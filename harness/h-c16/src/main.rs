//! C16 — endpoint requests and responses survive the HTTP wire format unchanged; path selection
//! follows the version history.
//!
//! Request lines (V = `vm<mask>` bit i = version 1.i, or `vl<n> i<v>…` an explicit list;
//! H = `a<n> s<unstable>… a<m> (i<v> s<path>)… <n|i<deprecated>> <n|i<removed>>`):
//!
//!   c16.spec.sweep <hidx> <start> <stride> <count>   → `ok <one char per mask>`      (SPEC side)
//!   c16.spec.select H V                              → `ok s<path>` | `err removed|nopath` (SPEC)
//!   c16.spec.auth <scheme 0-5> <kind 0-3>            → `bearer|none|needsauth`       (SPEC side)
//!   c16.new H                                        → `valid|invalid`
//!   c16.select H V                                   → `ok s<path>` | `err …`
//!   c16.url H V s<base> s<query> a<n> s<arg>…        → `ok s<url> <a<n> s<routed>…|noroute>` | `err …`
//!   c16.ep.url <eidx> V a<n> s<arg>…                 → same, for the endpoint's METADATA
//!   c16.auth <scheme> <kind> s<token>                → `none` | `ok s<value>` | `err needsauth|header`
//!   c16.xm.fmt s<origin> <n|s<dest>> s<key> s<sig>   → `ok s<text>`
//!   c16.xm.parse s<text>                             → `ok s<origin> <n|s<dest>> s<key> s<sig>` | `err`
//!   c16.rt.req <eidx> V <kind> s<token> a<n> s<arg>… s<query> a<k> (s<name> s<value>)… s<body>
//!                                                    → `ok s<uri before ?> <n|s<authorization>>` | `err …`
//!   c16.rt.syn <eidx> V <kind> s<token> <object>     → same
//!   c16.rt.resp <eidx> i<status> a<k> (s<name> s<value>)… s<body>   → `ok`   (oracle only)
//!   c16.rt.synresp <eidx> <object>                                  → `ok`   (oracle only)
//!   c16.rt.err i<status> a<k> (s<name> s<value>)… s<body>           → `ok`   (oracle only)
//!   c16.glue.*  — see `glue.rs`;  c16.real.req / c16.real.resp — see `real.rs`
mod endpoints;
mod glue;
mod registry;
mod seeds;
mod srcdesc;
mod synthetic;

use std::sync::OnceLock;

use h_lib::{h_util, stok, Outcome, Req, Rng};
use registry::{distinct_histories, endpoints, hist_of, Ep, Hist, ReqSeed, RespSeed, ALL_VERSIONS};
use ruma_common::api::{
    error::IntoHttpError, AuthScheme, MatrixVersion, Metadata, SendAccessToken, VersionHistory,
};

pub struct World {
    pub eps: Vec<Ep>,
    pub hists: Vec<Hist>,
    pub ep_hist: Vec<usize>,
}

pub fn world() -> &'static World {
    static W: OnceLock<World> = OnceLock::new();
    W.get_or_init(|| {
        let eps = endpoints();
        let (hists, ep_hist) = distinct_histories(&eps);
        World { eps, hists, ep_hist }
    })
}

// ---------------------------------------------------------------- token helpers

fn btok(b: &[u8]) -> String {
    format!("s{}", h_util::hex(b))
}

struct Toks<'a> {
    t: Vec<&'a str>,
    i: usize,
}

impl<'a> Toks<'a> {
    fn next(&mut self) -> Option<&'a str> {
        let x = self.t.get(self.i).copied();
        self.i += 1;
        x
    }
    fn bytes(&mut self) -> Option<Vec<u8>> {
        h_util::unhex(self.next()?.strip_prefix('s')?)
    }
    fn string(&mut self) -> Option<String> {
        String::from_utf8(self.bytes()?).ok()
    }
    fn opt_string(&mut self) -> Option<Option<String>> {
        let t = self.next()?;
        if t == "n" {
            Some(None)
        } else {
            Some(Some(String::from_utf8(h_util::unhex(t.strip_prefix('s')?)?).ok()?))
        }
    }
    fn count(&mut self, p: char) -> Option<usize> {
        self.next()?.strip_prefix(p)?.parse().ok()
    }
    fn int(&mut self) -> Option<usize> {
        self.next()?.strip_prefix('i')?.parse().ok()
    }
    fn opt_int(&mut self) -> Option<Option<usize>> {
        let t = self.next()?;
        if t == "n" {
            Some(None)
        } else {
            Some(Some(t.strip_prefix('i')?.parse().ok()?))
        }
    }
    fn strings(&mut self) -> Option<Vec<String>> {
        let n = self.count('a')?;
        (0..n).map(|_| self.string()).collect()
    }
    fn pairs(&mut self) -> Option<Vec<(String, String)>> {
        let n = self.count('a')?;
        (0..n).map(|_| Some((self.string()?, self.string()?))).collect()
    }
    fn versions(&mut self) -> Option<Vec<MatrixVersion>> {
        let t = self.next()?;
        if let Some(m) = t.strip_prefix("vm") {
            let m: u32 = m.parse().ok()?;
            if m >= 1 << 15 {
                return None;
            }
            Some(mask_versions(m))
        } else {
            let n: usize = t.strip_prefix("vl")?.parse().ok()?;
            (0..n).map(|_| ALL_VERSIONS.get(self.int()?).copied()).collect()
        }
    }
    fn hist(&mut self) -> Option<Hist> {
        let unstable = self.strings()?;
        let m = self.count('a')?;
        let mut stable = Vec::new();
        for _ in 0..m {
            stable.push((self.int()?, self.string()?));
        }
        Some(Hist { unstable, stable, deprecated: self.opt_int()?, removed: self.opt_int()? })
    }
    fn done(&self) -> bool {
        self.i == self.t.len()
    }
}

/// The versions a `V` token sequence (`vm<mask>` or `vl<n> i<v>…`) denotes.
pub fn versions_of(toks: &str) -> Option<Vec<MatrixVersion>> {
    let mut t = Toks { t: toks.split(' ').collect(), i: 0 };
    let v = t.versions()?;
    t.done().then_some(v)
}

fn mask_versions(m: u32) -> Vec<MatrixVersion> {
    (0..15).filter(|i| m & (1 << i) != 0).map(|i| ALL_VERSIONS[i]).collect()
}

pub fn hist_toks(h: &Hist) -> String {
    let mut s = format!("a{}", h.unstable.len());
    for p in &h.unstable {
        s.push(' ');
        s.push_str(&stok(p));
    }
    s.push_str(&format!(" a{}", h.stable.len()));
    for (v, p) in &h.stable {
        s.push_str(&format!(" i{v} {}", stok(p)));
    }
    for o in [h.deprecated, h.removed] {
        match o {
            Some(v) => s.push_str(&format!(" i{v}")),
            None => s.push_str(" n"),
        }
    }
    s
}

pub fn strs_toks(v: &[String]) -> String {
    let mut s = format!("a{}", v.len());
    for x in v {
        s.push(' ');
        s.push_str(&stok(x));
    }
    s
}

pub fn pairs_toks(v: &[(String, String)]) -> String {
    let mut s = format!("a{}", v.len());
    for (k, x) in v {
        s.push_str(&format!(" {} {}", stok(k), stok(x)));
    }
    s
}

// ---------------------------------------------------------------- the implementation, op by op

fn leak(s: &str) -> &'static str {
    Box::leak(s.to_owned().into_boxed_str())
}

/// `VersionHistory::new` on run-time data (it is a `const fn`, but an ordinary function too).
/// `None` when it panics (an invariant is violated).
fn build_history(h: &Hist) -> Option<VersionHistory> {
    for v in h.stable.iter().map(|x| x.0).chain(h.deprecated).chain(h.removed) {
        if v >= 15 {
            return None;
        }
    }
    let unstable: &'static [&'static str] = Box::leak(h.unstable.iter().map(|s| leak(s)).collect::<Vec<_>>().into_boxed_slice());
    let stable: &'static [(MatrixVersion, &'static str)] =
        Box::leak(h.stable.iter().map(|(v, s)| (ALL_VERSIONS[*v], leak(s))).collect::<Vec<_>>().into_boxed_slice());
    let dep = h.deprecated.map(|v| ALL_VERSIONS[v]);
    let rem = h.removed.map(|v| ALL_VERSIONS[v]);
    h_util::guarded(|| VersionHistory::new(unstable, stable, dep, rem)).ok()
}

fn metadata_with(history: VersionHistory, authentication: AuthScheme) -> Metadata {
    Metadata { method: http::Method::GET, rate_limited: false, authentication, history }
}

pub fn placeholders(h: &Hist) -> Vec<String> {
    let p = h.unstable.first().or_else(|| h.stable.first().map(|x| &x.1));
    p.map(|p| p.split('/').filter(|s| s.starts_with(':')).map(str::to_owned).collect()).unwrap_or_default()
}

/// The template the implementation selects: `make_endpoint_url` with every placeholder passed as
/// its own argument (`:name` needs no escaping) returns the selected path itself.
fn select_real(meta: &Metadata, h: &Hist, versions: &[MatrixVersion]) -> Result<String, IntoHttpError> {
    let ph = placeholders(h);
    let args: Vec<&dyn std::fmt::Display> = ph.iter().map(|s| s as &dyn std::fmt::Display).collect();
    meta.make_endpoint_url(versions, "", &args, "")
}

fn sel_answer(r: Result<String, IntoHttpError>) -> String {
    match r {
        Ok(p) => format!("ok {}", stok(&p)),
        Err(IntoHttpError::EndpointRemoved(_)) => "err removed".into(),
        Err(IntoHttpError::NoUnstablePath) => "err nopath".into(),
        Err(_) => "err other".into(),
    }
}

/// Independent statement of the rule in Rust, used only to point at the failing subset inside a
/// sweep (T3): newest stable path some supported version offers, else last unstable, error if all
/// supported versions are at or past `removed`.
fn rule(h: &Hist, vs: &[usize]) -> Result<String, &'static str> {
    if let Some(r) = h.removed {
        if vs.iter().all(|v| *v >= r) {
            return Err("removed");
        }
    }
    let best = h.stable.iter().filter(|(a, _)| vs.iter().any(|v| v >= a)).max_by_key(|(a, _)| *a);
    match best {
        Some((_, p)) => Ok(p.clone()),
        None => h.unstable.last().cloned().ok_or("nopath"),
    }
}

fn all_paths(h: &Hist) -> Vec<&String> {
    let mut v: Vec<&String> = Vec::new();
    for p in h.unstable.iter().chain(h.stable.iter().map(|x| &x.1)) {
        if !v.contains(&p) {
            v.push(p);
        }
    }
    v
}

fn run_sweep(hidx: usize, start: u32, stride: u32, count: u32) -> Outcome {
    let w = world();
    let Some(h) = w.hists.get(hidx) else { return Outcome::bad() };
    let ep = &w.eps[w.ep_hist.iter().position(|i| *i == hidx).unwrap()];
    let paths = all_paths(h);
    let mut s = String::with_capacity(count as usize);
    let mut t3 = Vec::new();
    for i in 0..count {
        let m = (start.wrapping_add(i.wrapping_mul(stride))) % (1 << 15);
        let vs = mask_versions(m);
        let got = match select_real(&ep.meta, h, &vs) {
            Ok(p) => Ok(p),
            Err(IntoHttpError::EndpointRemoved(_)) => Err("removed"),
            Err(IntoHttpError::NoUnstablePath) => Err("nopath"),
            Err(_) => Err("other"),
        };
        let idx: Vec<usize> = (0..15).filter(|i| m & (1 << i) != 0).collect();
        let want = rule(h, &idx);
        if got != want.clone().map_err(|e| e) && t3.len() < 3 {
            t3.push(format!("{}: supported versions mask {m} ({idx:?}): implementation selects {got:?}, the rule requires {want:?}", ep.name));
        }
        s.push(match &got {
            Ok(p) => match paths.iter().position(|x| *x == p) {
                Some(k) => (b'a' + k as u8) as char,
                None => '?',
            },
            Err("removed") => 'R',
            Err("nopath") => 'N',
            Err(_) => '!',
        });
    }
    Outcome { imp: format!("ok {s}"), t3 }
}

fn url_answer(meta: &Metadata, h: &Hist, vs: &[MatrixVersion], base: &str, query: &str, args: &[String]) -> Outcome {
    let dargs: Vec<&dyn std::fmt::Display> = args.iter().map(|s| s as &dyn std::fmt::Display).collect();
    let mut t3 = Vec::new();
    let imp = match meta.make_endpoint_url(vs, base, &dargs, query) {
        Err(e) => sel_answer(Err(e)),
        Ok(url) => {
            // the receiving side: cut the base and the query off, route the path
            let b = base.strip_suffix('/').unwrap_or(base);
            let rest = url.strip_prefix(b).unwrap_or(&url);
            let path = if query.is_empty() { rest } else { rest.strip_suffix(query).and_then(|r| r.strip_suffix('?')).unwrap_or(rest) };
            let tmpl = select_real(meta, h, vs).unwrap_or_default();
            let n = placeholders(h).len();
            let routed = registry::route_template(&tmpl, path);
            let r = match &routed {
                Some(a) => strs_toks(a),
                None => "noroute".into(),
            };
            if args.len() >= n && routed.as_deref() != Some(&args[..n]) {
                t3.push(format!("path arguments changed on the wire: sent {:?}, url {url:?}, received {routed:?}", &args[..n]));
            }
            if url.parse::<http::Uri>().is_err() && base.parse::<http::Uri>().is_ok() && query.bytes().all(|b| b.is_ascii_alphanumeric() || b == b'=' || b == b'&') {
                t3.push(format!("produced URL is not a valid URI: {url:?}"));
            }
            format!("ok {} {r}", stok(&url))
        }
    };
    Outcome { imp, t3 }
}

fn scheme_of(i: usize) -> Option<AuthScheme> {
    Some(match i {
        0 => AuthScheme::None,
        1 => AuthScheme::AccessToken,
        2 => AuthScheme::AccessTokenOptional,
        3 => AuthScheme::AppserviceToken,
        4 => AuthScheme::AppserviceTokenOptional,
        5 => AuthScheme::ServerSignatures,
        _ => return None,
    })
}

fn scheme_index(a: AuthScheme) -> usize {
    match a {
        AuthScheme::None => 0,
        AuthScheme::AccessToken => 1,
        AuthScheme::AccessTokenOptional => 2,
        AuthScheme::AppserviceToken => 3,
        AuthScheme::AppserviceTokenOptional => 4,
        AuthScheme::ServerSignatures => 5,
    }
}

fn sat_of(kind: usize, token: &str) -> Option<SendAccessToken<'_>> {
    Some(match kind {
        0 => SendAccessToken::IfRequired(token),
        1 => SendAccessToken::Always(token),
        2 => SendAccessToken::Appservice(token),
        3 => SendAccessToken::None,
        _ => return None,
    })
}

pub fn sat_of_pub(kind: usize, token: &str) -> Option<SendAccessToken<'_>> {
    sat_of(kind, token)
}

fn dummy_history() -> VersionHistory {
    VersionHistory::new(&["/x"], &[], None, None)
}

fn run_auth(scheme: usize, kind: usize, token: &str) -> Option<String> {
    let meta = metadata_with(dummy_history(), scheme_of(scheme)?);
    Some(match meta.authorization_header(sat_of(kind, token)?) {
        Ok(None) => "none".into(),
        Ok(Some((name, value))) => {
            if name != http::header::AUTHORIZATION {
                "err wrong-header-name".into()
            } else {
                format!("ok {}", btok(value.as_bytes()))
            }
        }
        Err(IntoHttpError::NeedsAuthentication) => "err needsauth".into(),
        Err(IntoHttpError::Header(_)) => "err header".into(),
        Err(_) => "err other".into(),
    })
}

mod xm {
    use ruma_common::{serde::Base64, OwnedServerName, OwnedServerSigningKeyId};
    use ruma_federation_api::authentication::XMatrix;

    pub fn build(origin: &str, dest: Option<&str>, key: &str, sig: &str) -> Option<XMatrix> {
        let o = OwnedServerName::try_from(origin).ok()?;
        let k = OwnedServerSigningKeyId::try_from(key).ok()?;
        let s = Base64::parse(sig).ok()?;
        let mut x = XMatrix::new(o.clone(), o, k, s);
        x.destination = match dest {
            Some(d) => Some(OwnedServerName::try_from(d).ok()?),
            None => None,
        };
        Some(x)
    }

    pub fn fields(x: &XMatrix) -> (String, Option<String>, String, String) {
        (x.origin.as_str().to_owned(), x.destination.as_ref().map(|d| d.as_str().to_owned()), x.key.as_str().to_owned(), x.sig.encode())
    }

    pub fn parse(s: &str) -> Option<XMatrix> {
        XMatrix::parse(s).ok()
    }
}

fn opt_tok(o: &Option<String>) -> String {
    match o {
        Some(s) => stok(s),
        None => "n".into(),
    }
}

fn first_answer(first: &Result<registry::Msg, String>) -> String {
    match first {
        Err(c) => format!("err {c}"),
        Ok(m) => {
            let before_q = m.uri.split('?').next().unwrap_or("");
            let auth = m.headers.iter().find(|(k, _)| k == "authorization").map(|(_, v)| btok(v)).unwrap_or_else(|| "n".into());
            format!("ok {} {auth}", stok(before_q))
        }
    }
}

fn run_error_rt(seed: &RespSeed) -> Outcome {
    use ruma_client_api::Error;
    use ruma_common::api::{EndpointError, OutgoingResponse};
    let mut t3 = Vec::new();
    let mut b = http::Response::builder().status(seed.status);
    for (k, v) in &seed.headers {
        b = b.header(k.as_str(), v.as_str());
    }
    let Ok(r0) = b.body(seed.body.clone()) else { return Outcome::bad() };
    let e1 = Error::from_http_response(r0);
    let d1 = format!("{e1:?}");
    // the seed's errcode must be the one the value reports (nothing collapses into a catch-all)
    if let Ok(serde_json::Value::Object(o)) = serde_json::from_slice::<serde_json::Value>(&seed.body) {
        if let (Some(code), Some(kind)) = (o.get("errcode").and_then(|c| c.as_str()), e1.error_kind()) {
            if kind.errcode().as_ref() != code {
                t3.push(format!("errcode {code:?} read back as {:?}", kind.errcode().as_ref()));
            }
        }
    }
    match e1.try_into_http_response::<Vec<u8>>() {
        Err(_) => {} // a value the encoder does not accept: nothing claimed
        Ok(h1) => {
            let m1 = registry::resp_msg(&h1);
            if h1.status().as_u16() != seed.status {
                t3.push(format!("status code {} became {}", seed.status, h1.status()));
            }
            let e2 = Error::from_http_response(h1);
            let d2 = format!("{e2:?}");
            if d1 != d2 {
                t3.push(format!("error value changed over the wire: {d1} became {d2}"));
            }
            match e2.try_into_http_response::<Vec<u8>>() {
                Ok(h2) => {
                    let m2 = registry::resp_msg(&h2);
                    if m1 != m2 {
                        t3.push(format!("re-encoded error response differs: {:?} vs {:?}", String::from_utf8_lossy(&m1.body), String::from_utf8_lossy(&m2.body)));
                    }
                }
                Err(e) => t3.push(format!("re-encoding the received error failed: {e}")),
            }
        }
    }
    Outcome { imp: "ok".into(), t3 }
}

pub fn run(req: &str) -> Outcome {
    let mut t = Toks { t: req.split(' ').collect(), i: 1 };
    let op = t.t[0];
    let w = world();
    macro_rules! get {
        ($e:expr) => {
            match $e {
                Some(x) => x,
                None => return Outcome::bad(),
            }
        };
    }
    match op {
        "c16.spec.sweep" => {
            let hidx: usize = get!(t.next().and_then(|x| x.parse().ok()));
            let start: u32 = get!(t.next().and_then(|x| x.parse().ok()));
            let stride: u32 = get!(t.next().and_then(|x| x.parse().ok()));
            let count: u32 = get!(t.next().and_then(|x| x.parse().ok()));
            if !t.done() || count > 1 << 15 {
                return Outcome::bad();
            }
            run_sweep(hidx, start, stride, count)
        }
        "c16.spec.select" | "c16.select" => {
            let h = get!(t.hist());
            let vs = get!(t.versions());
            if !t.done() {
                return Outcome::bad();
            }
            let Some(hist) = build_history(&h) else { return Outcome::new("invalid") };
            Outcome::new(sel_answer(select_real(&metadata_with(hist, AuthScheme::None), &h, &vs)))
        }
        "c16.spec.auth" => {
            let scheme: usize = get!(t.next().and_then(|x| x.parse().ok()));
            let kind: usize = get!(t.next().and_then(|x| x.parse().ok()));
            let a = get!(run_auth(scheme, kind, "tok"));
            Outcome::new(if a == "none" {
                "none"
            } else if a.starts_with("ok ") {
                "bearer"
            } else if a == "err needsauth" {
                "needsauth"
            } else {
                "other"
            })
        }
        "c16.new" => {
            let h = get!(t.hist());
            if !t.done() {
                return Outcome::bad();
            }
            Outcome::new(if build_history(&h).is_some() { "valid" } else { "invalid" })
        }
        "c16.url" => {
            let h = get!(t.hist());
            let vs = get!(t.versions());
            let base = get!(t.string());
            let query = get!(t.string());
            let args = get!(t.strings());
            if !t.done() {
                return Outcome::bad();
            }
            let Some(hist) = build_history(&h) else { return Outcome::new("invalid") };
            url_answer(&metadata_with(hist, AuthScheme::None), &h, &vs, &base, &query, &args)
        }
        "c16.ep.url" => {
            let e: usize = get!(t.next().and_then(|x| x.parse().ok()));
            let vs = get!(t.versions());
            let args = get!(t.strings());
            let ep = get!(w.eps.get(e));
            if !t.done() {
                return Outcome::bad();
            }
            url_answer(&ep.meta, &hist_of(&ep.meta), &vs, registry::BASE_URL, "", &args)
        }
        "c16.auth" => {
            let scheme: usize = get!(t.next().and_then(|x| x.parse().ok()));
            let kind: usize = get!(t.next().and_then(|x| x.parse().ok()));
            let token = get!(t.string());
            Outcome::new(get!(run_auth(scheme, kind, &token)))
        }
        "c16.xm.fmt" => {
            let origin = get!(t.string());
            let dest = get!(t.opt_string());
            let key = get!(t.string());
            let sig = get!(t.string());
            let x = get!(xm::build(&origin, dest.as_deref(), &key, &sig));
            let text = x.to_string();
            let mut t3 = Vec::new();
            match xm::parse(&text) {
                None => t3.push(format!("the formatted X-Matrix header does not parse: {text:?}")),
                Some(y) => {
                    if xm::fields(&x) != xm::fields(&y) {
                        t3.push(format!("X-Matrix fields changed: {:?} became {:?} via {text:?}", xm::fields(&x), xm::fields(&y)));
                    }
                }
            }
            if xm::fields(&x) != (origin.clone(), dest.clone(), key.clone(), sig.clone()) {
                // the request line did not carry canonical field strings: a generator bug
                return Outcome::bad();
            }
            Outcome { imp: format!("ok {}", stok(&text)), t3 }
        }
        "c16.xm.parse" => {
            let text = get!(t.string());
            Outcome::new(match xm::parse(&text) {
                None => "err".to_owned(),
                Some(x) => {
                    let (o, d, k, s) = xm::fields(&x);
                    format!("ok {} {} {} {}", stok(&o), opt_tok(&d), stok(&k), stok(&s))
                }
            })
        }
        "c16.rt.req" => {
            let e: usize = get!(t.next().and_then(|x| x.parse().ok()));
            let vs = get!(t.versions());
            let kind: usize = get!(t.next().and_then(|x| x.parse().ok()));
            let token = get!(t.string());
            let seed = ReqSeed { path_args: get!(t.strings()), query: get!(t.string()), headers: get!(t.pairs()), body: get!(t.bytes()) };
            let ep = get!(w.eps.get(e));
            let sat = get!(sat_of(kind, &token));
            let rt = (ep.req)(&seed, &vs, sat);
            match (&rt.accepted, &rt.first) {
                (true, Some(f)) => Outcome { imp: first_answer(f), t3: rt.t3 },
                _ => Outcome::new("seed-rejected"),
            }
        }
        "c16.rt.syn" => {
            let e: usize = get!(t.next().and_then(|x| x.parse().ok()));
            let vs = get!(t.versions());
            let kind: usize = get!(t.next().and_then(|x| x.parse().ok()));
            let token = get!(t.string());
            let rest: Vec<&str> = t.t[t.i..].to_vec();
            let v = get!(h_util::parse_tokens(&mut rest.iter()));
            let o = get!(v.as_object());
            let ep = get!(w.eps.get(e));
            let sat = get!(sat_of(kind, &token));
            let out = get!(synthetic::run_req(ep.name, o, &vs, sat));
            Outcome { imp: first_answer(&out.first), t3: out.t3 }
        }
        "c16.rt.resp" => {
            let e: usize = get!(t.next().and_then(|x| x.parse().ok()));
            let seed = RespSeed { status: get!(t.int()) as u16, headers: get!(t.pairs()), body: get!(t.bytes()) };
            let ep = get!(w.eps.get(e));
            let rt = (ep.resp)(&seed);
            Outcome { imp: "ok".into(), t3: rt.t3 }
        }
        "c16.rt.synresp" => {
            let e: usize = get!(t.next().and_then(|x| x.parse().ok()));
            let rest: Vec<&str> = t.t[t.i..].to_vec();
            let v = get!(h_util::parse_tokens(&mut rest.iter()));
            let o = get!(v.as_object());
            let ep = get!(w.eps.get(e));
            let rt = get!(synthetic::run_resp(ep.name, o));
            Outcome { imp: "ok".into(), t3: rt.t3 }
        }
        "c16.glue.req" => {
            let gid: usize = get!(t.next().and_then(|x| x.parse().ok()));
            let vs = get!(t.versions());
            let kind: usize = get!(t.next().and_then(|x| x.parse().ok()));
            let token = get!(t.string());
            let mut rest = t.t[t.i..].iter().copied();
            let v = get!(glue::GVal::parse(&mut rest));
            if rest.next().is_some() {
                return Outcome::bad();
            }
            let g = get!(glue::glue_eps().get(gid));
            let sat = get!(sat_of(kind, &token));
            get!(glue::run_req(g, &v, &vs, sat))
        }
        "c16.glue.resp" => {
            let gid: usize = get!(t.next().and_then(|x| x.parse().ok()));
            let mut rest = t.t[t.i..].iter().copied();
            let v = get!(glue::GVal::parse(&mut rest));
            if rest.next().is_some() {
                return Outcome::bad();
            }
            let g = get!(glue::glue_eps().get(gid));
            get!(glue::run_resp(g, &v))
        }
        "c16.glue.in" => {
            let gid: usize = get!(t.next().and_then(|x| x.parse().ok()));
            let g = get!(glue::glue_eps().get(gid));
            let mut rest = t.t[t.i..].iter().copied();
            get!(glue::run_in(g, &mut rest))
        }
        "c16.glue.rin" => {
            let gid: usize = get!(t.next().and_then(|x| x.parse().ok()));
            let g = get!(glue::glue_eps().get(gid));
            let mut rest = t.t[t.i..].iter().copied();
            get!(glue::run_rin(g, &mut rest))
        }
        "c16.real.req" => {
            let e: usize = get!(t.next().and_then(|x| x.parse().ok()));
            let vs = get!(t.versions());
            let kind: usize = get!(t.next().and_then(|x| x.parse().ok()));
            let token = get!(t.string());
            let args = get!(t.strings());
            let query = get!(t.string());
            let headers = get!(t.pairs());
            let sat = get!(sat_of(kind, &token));
            let mut rest = t.t[t.i..].iter().copied();
            get!(real::parse_run_req(e, &vs, sat, args, query, headers, &mut rest))
        }
        "c16.real.resp" => {
            let e: usize = get!(t.next().and_then(|x| x.parse().ok()));
            let status = get!(t.int()) as u16;
            let headers = get!(t.pairs());
            let mut rest = t.t[t.i..].iter().copied();
            get!(real::parse_run_resp(e, status, headers, &mut rest))
        }
        "c16.rt.err" => {
            let seed = RespSeed { status: get!(t.int()) as u16, headers: get!(t.pairs()), body: get!(t.bytes()) };
            run_error_rt(&seed)
        }
        _ => Outcome::bad(),
    }
}

// ---------------------------------------------------------------- T1 extraction

/// A path as a Lean byte-list literal (numeric, so that `decide` does not have to unfold
/// `String.toList` in the kernel); the readable form goes into a comment next to it.
fn lean_str(s: &str) -> String {
    let b: Vec<String> = s.bytes().map(|b| b.to_string()).collect();
    format!("[{}]", b.join(","))
}

fn lean_opt(o: Option<usize>) -> String {
    match o {
        Some(v) => format!("some {v}"),
        None => "none".into(),
    }
}

fn extract() -> String {
    let w = world();
    let mut s = String::new();
    s.push_str("-- GENERATED by `h-c16 c16 extract` from the running implementation (every endpoint's\n");
    s.push_str("-- `METADATA` constant read through the public accessors). Do not edit.\n");
    s.push_str("import RumaModel.Model.EndpointGlue\nnamespace Ruma.Generated.C16\nopen Ruma Ruma.Endpoint Ruma.Spec.Endpoint Ruma.Glue\n\n");
    for (i, h) in w.hists.iter().enumerate() {
        let un: Vec<String> = h.unstable.iter().map(|p| lean_str(p)).collect();
        let st: Vec<String> = h.stable.iter().map(|(v, p)| format!("({v}, {})", lean_str(p))).collect();
        let readable: Vec<String> =
            h.unstable.iter().map(|p| format!("unstable {p}")).chain(h.stable.iter().map(|(v, p)| format!("1.{v} {p}"))).collect();
        s.push_str(&format!("/-- {} -/\n", readable.join(" | ")));
        s.push_str(&format!(
            "def h{i} : VersionHistory := ⟨[{}], [{}], {}, {}⟩\n",
            un.join(", "),
            st.join(", "),
            lean_opt(h.deprecated),
            lean_opt(h.removed),
        ));
    }
    s.push_str("\n/-- The distinct version histories, in order of first occurrence. -/\n");
    s.push_str("def histories : List VersionHistory := [\n");
    for chunk in (0..w.hists.len()).collect::<Vec<_>>().chunks(16) {
        let names: Vec<String> = chunk.iter().map(|i| format!("h{i}")).collect();
        s.push_str(&format!("  {}{}\n", names.join(", "), if chunk.last() == Some(&(w.hists.len() - 1)) { "" } else { "," }));
    }
    s.push_str("]\n\n/-- (module, HTTP method, authentication scheme, index into `histories`). -/\n");
    s.push_str("def endpoints : List (String × String × AuthScheme × Nat) := [\n");
    for (i, e) in w.eps.iter().enumerate() {
        let a = match e.meta.authentication {
            AuthScheme::None => ".none",
            AuthScheme::AccessToken => ".accessToken",
            AuthScheme::AccessTokenOptional => ".accessTokenOptional",
            AuthScheme::AppserviceToken => ".appserviceToken",
            AuthScheme::AppserviceTokenOptional => ".appserviceTokenOptional",
            AuthScheme::ServerSignatures => ".serverSignatures",
        };
        s.push_str(&format!(
            "  (\"{}\", \"{}\", {a}, {}){}\n",
            e.name,
            e.meta.method,
            w.ep_hist[i],
            if i + 1 == w.eps.len() { "" } else { "," }
        ));
    }
    s.push_str("]\n");
    s.push_str(&glue::extract(
        &|name| w.ep_hist[w.eps.iter().position(|e| e.name == name).expect("glue endpoint is registered")],
        &|m| lean_scheme(m.authentication),
    ));
    s.push_str(&real::extract(&|i| w.ep_hist[i], &|i| lean_scheme(w.eps[i].meta.authentication)));
    s.push_str("\nend Ruma.Generated.C16\n");
    s
}

fn lean_scheme(a: AuthScheme) -> &'static str {
    match a {
        AuthScheme::None => ".none",
        AuthScheme::AccessToken => ".accessToken",
        AuthScheme::AccessTokenOptional => ".accessTokenOptional",
        AuthScheme::AppserviceToken => ".appserviceToken",
        AuthScheme::AppserviceTokenOptional => ".appserviceTokenOptional",
        AuthScheme::ServerSignatures => ".serverSignatures",
    }
}

// ---------------------------------------------------------------- generators

mod gen;
mod real;

fn main() {
    if std::env::args().nth(2).as_deref() == Some("probe") {
        gen::probe();
        return;
    }
    if std::env::args().nth(2).as_deref() == Some("probe-desc") {
        real::probe();
        return;
    }
    h_lib::std_main(Some(&extract), &gen::gen, &run);
}

#[allow(dead_code)]
fn _unused(_: Req, _: &mut Rng) {
    let _ = scheme_index(AuthScheme::None);
}
