//! The real endpoints under the glue model: descriptors from the source text (`srcdesc`), their
//! Lean form (`Generated/C16.lean`: `realReq`, `realResp`, `realReqG17`, `realRespG17`,
//! `realFlatten`, `realOutside`), and the ops `c16.real.req` / `c16.real.resp`, which compare the
//! real re-encoding of a message with what the glue model computes from the descriptor.
//!
//!   c16.real.req <eidx> V <kind> s<token> a<n> s<arg>… s<query> a<k> (s<name> s<value>)… <body>
//!       → `ok s<method> s<uri> a<k> (s<name> s<value>)… s<body>` | `okp …` (no body: the descriptor
//!         has a flattened body field) | `err <class>` | `rejected`
//!   c16.real.resp <eidx> i<status> a<k> (s<name> s<value>)… <body>
//!       → `ok i<status> a<k> (s<name> s<value>)… s<body>` | `okp …` | `err <class>` | `rejected`
//!   <body> = `e` (no bytes) | `j <json tokens, members in text order>` (the compact text of that
//!            value) | `g s<hex>` (the bytes of a raw body)
//!
//! The generator only emits messages the real conversions themselves produced and read back
//! unchanged (fixpoints of decode-then-encode): on those every field codec is the identity, so the
//! model with the identity codecs (`Ty.str`, `Ty.anyQ`, `Ty.anyB`, ..) predicts the whole message —
//! method, URI with query string, every header, body bytes — from the descriptor alone.
use std::sync::OnceLock;

use h_lib::{h_util, stok, Outcome, Req};
use ruma_common::api::{MatrixVersion, SendAccessToken};

use crate::glue::JT;
use crate::registry::{route, Msg, ReqSeed, RespSeed};
use crate::srcdesc::{describe, SDesc, SField, SKind, SStruct};
use crate::world;

/// One entry per registered endpoint, in registry order; synthetic endpoints have none.
pub fn descs() -> &'static Vec<Result<SDesc, String>> {
    static D: OnceLock<Vec<Result<SDesc, String>>> = OnceLock::new();
    D.get_or_init(|| {
        world().eps.iter().map(|e| if e.synthetic { Err("synthetic endpoint of the harness".to_owned()) } else { describe(e.name) }).collect()
    })
}

pub fn probe() {
    let w = world();
    let mut n = 0;
    for (e, d) in w.eps.iter().zip(descs()) {
        if e.synthetic {
            continue;
        }
        match d {
            Ok(d) => {
                n += 1;
                let show = |s: &SStruct| s.fields.iter().map(|f| format!("{}:{:?}{}", f.name, f.kind, if f.optional { "?" } else { "" })).collect::<Vec<_>>().join(", ");
                println!("{} REQ [{}] RESP {}{} [{}]", e.name, show(&d.req), d.resp.status, if d.resp.manual { " manual" } else { "" }, show(&d.resp));
            }
            Err(r) => println!("{} OUTSIDE: {r}", e.name),
        }
    }
    println!("{n} descriptors");
}

// ---------------------------------------------------------------- ordered JSON

struct JTVisitor;

impl<'de> serde::de::Visitor<'de> for JTVisitor {
    type Value = JT;
    fn expecting(&self, f: &mut std::fmt::Formatter<'_>) -> std::fmt::Result {
        f.write_str("JSON")
    }
    fn visit_unit<E>(self) -> Result<JT, E> {
        Ok(JT::Null)
    }
    fn visit_bool<E>(self, b: bool) -> Result<JT, E> {
        Ok(JT::Bool(b))
    }
    fn visit_u64<E>(self, n: u64) -> Result<JT, E> {
        Ok(JT::Int(n as i128))
    }
    fn visit_i64<E>(self, n: i64) -> Result<JT, E> {
        Ok(JT::Int(n as i128))
    }
    fn visit_f64<E>(self, _: f64) -> Result<JT, E> {
        Ok(JT::Float)
    }
    fn visit_str<E>(self, s: &str) -> Result<JT, E> {
        Ok(JT::Str(s.to_owned()))
    }
    fn visit_seq<A: serde::de::SeqAccess<'de>>(self, mut a: A) -> Result<JT, A::Error> {
        let mut v = Vec::new();
        while let Some(x) = a.next_element_seed(JTSeed)? {
            v.push(x);
        }
        Ok(JT::Arr(v))
    }
    fn visit_map<A: serde::de::MapAccess<'de>>(self, mut a: A) -> Result<JT, A::Error> {
        let mut v = Vec::new();
        while let Some(k) = a.next_key::<String>()? {
            v.push((k, a.next_value_seed(JTSeed)?));
        }
        Ok(JT::Obj(v))
    }
}

struct JTSeed;
impl<'de> serde::de::DeserializeSeed<'de> for JTSeed {
    type Value = JT;
    fn deserialize<D: serde::Deserializer<'de>>(self, d: D) -> Result<JT, D::Error> {
        d.deserialize_any(JTVisitor)
    }
}

/// The JSON value a text denotes, members in text order — only if the compact text of that value
/// is exactly the given bytes (no floats, no insignificant whitespace, serde_json's escapes).
fn exact_json(bytes: &[u8]) -> Option<JT> {
    use serde::de::DeserializeSeed;
    let mut de = serde_json::Deserializer::from_slice(bytes);
    let j = JTSeed.deserialize(&mut de).ok()?;
    de.end().ok()?;
    let mut s = String::new();
    j.text(&mut s);
    (s.as_bytes() == bytes).then_some(j)
}

// ---------------------------------------------------------------- the ops

fn body_tok(s: &SStruct, body: &[u8]) -> Option<String> {
    if s.has_raw() {
        return Some(format!("g s{}", h_util::hex(body)));
    }
    if body.is_empty() {
        return Some("e".to_owned());
    }
    let j = exact_json(body)?;
    let mut out = "j ".to_owned();
    j.toks(&mut out);
    Some(out)
}

fn parse_body<'a>(t: &mut impl Iterator<Item = &'a str>) -> Option<Vec<u8>> {
    Some(match t.next()? {
        "e" => vec![],
        "j" => {
            let mut s = String::new();
            JT::parse(t)?.text(&mut s);
            s.into_bytes()
        }
        "g" => h_util::unhex(t.next()?.strip_prefix('s')?)?,
        _ => return None,
    })
}

fn answer(first: &Result<Msg, String>, request: bool, partial: bool) -> String {
    match first {
        Err(c) => format!("err {c}"),
        Ok(m) => {
            let mut s = String::from(if partial { "okp" } else { "ok" });
            if request {
                s.push_str(&format!(" {} {}", stok(&m.line), stok(&m.uri)));
            } else {
                s.push_str(&format!(" i{}", m.line));
            }
            s.push_str(&format!(" a{}", m.headers.len()));
            for (k, v) in &m.headers {
                s.push_str(&format!(" {} s{}", stok(k), h_util::hex(v)));
            }
            if !partial {
                s.push_str(&format!(" s{}", h_util::hex(&m.body)));
            }
            s
        }
    }
}

pub fn run_req<'a>(e: usize, vs: &[MatrixVersion], sat: SendAccessToken<'_>, seed: &ReqSeed) -> Option<Outcome> {
    let ep = world().eps.get(e)?;
    let d = descs().get(e)?.as_ref().ok()?;
    let rt = (ep.req)(seed, vs, sat);
    Some(Outcome::new(match (rt.accepted, &rt.first) {
        (true, Some(f)) => answer(f, true, d.req.has_flatten()),
        _ => "rejected".to_owned(),
    }))
}

pub fn run_resp(e: usize, seed: &RespSeed) -> Option<Outcome> {
    let ep = world().eps.get(e)?;
    let d = descs().get(e)?.as_ref().ok()?;
    let rt = (ep.resp)(seed);
    Some(Outcome::new(match (rt.accepted, &rt.first) {
        (true, Some(f)) => answer(f, false, d.resp.has_flatten()),
        _ => "rejected".to_owned(),
    }))
}

pub fn parse_run_req<'a>(e: usize, vs: &[MatrixVersion], sat: SendAccessToken<'_>, path_args: Vec<String>, query: String, headers: Vec<(String, String)>, t: &mut impl Iterator<Item = &'a str>) -> Option<Outcome> {
    let body = parse_body(t)?;
    t.next().is_none().then_some(())?;
    run_req(e, vs, sat, &ReqSeed { path_args, query, headers, body })
}

pub fn parse_run_resp<'a>(e: usize, status: u16, headers: Vec<(String, String)>, t: &mut impl Iterator<Item = &'a str>) -> Option<Outcome> {
    let body = parse_body(t)?;
    t.next().is_none().then_some(())?;
    run_resp(e, &RespSeed { status, headers, body })
}

// ---------------------------------------------------------------- generator side

fn string_headers(m: &Msg) -> Option<Vec<(String, String)>> {
    m.headers.iter().map(|(k, v)| Some((k.clone(), String::from_utf8(v.clone()).ok()?))).collect()
}

/// Why a seed did not become a `c16.real.*` case.
#[derive(Default, Debug)]
pub struct Skips {
    pub no_descriptor: usize,
    pub not_ok: usize,
    pub not_exact_json: usize,
    pub not_fixpoint: usize,
}

/// From a seed the receiving side accepts: the message the real sender writes for the decoded
/// value, fed back as an arriving message — if the real code reads and re-writes it unchanged.
pub fn req_case(e: usize, seed: &ReqSeed, vtok: &str, vs: &[MatrixVersion], kind: usize, token: &str, sat: SendAccessToken<'_>, skips: &mut Skips) -> Option<Req> {
    let ep = &world().eps[e];
    let Ok(d) = &descs()[e] else {
        skips.no_descriptor += 1;
        return None;
    };
    let rt = (ep.req)(seed, vs, sat);
    let Some(Ok(m1)) = &rt.first else {
        skips.not_ok += 1;
        return None;
    };
    let uri: http::Uri = m1.uri.parse().ok()?;
    let args = route(&ep.meta, uri.path())?;
    let Some(body) = body_tok(&d.req, &m1.body) else {
        skips.not_exact_json += 1;
        return None;
    };
    let headers = string_headers(m1)?;
    let line = format!(
        "c16.real.req {e} {vtok} {kind} {} {} {} {} {body}",
        stok(token),
        crate::strs_toks(&args),
        stok(uri.query().unwrap_or("")),
        crate::pairs_toks(&headers),
    );
    if crate::run(&line).imp != answer(&Ok(m1.clone()), true, d.req.has_flatten()) {
        skips.not_fixpoint += 1;
        return None;
    }
    Some(Req::new(line, if d.req.has_flatten() { "real.req.partial" } else { "real.req.full" }))
}

pub fn resp_case(e: usize, seed: &RespSeed, skips: &mut Skips) -> Option<Req> {
    let ep = &world().eps[e];
    let Ok(d) = &descs()[e] else {
        skips.no_descriptor += 1;
        return None;
    };
    let rt = (ep.resp)(seed);
    let Some(Ok(m1)) = &rt.first else {
        skips.not_ok += 1;
        return None;
    };
    let Some(body) = body_tok(&d.resp, &m1.body) else {
        skips.not_exact_json += 1;
        return None;
    };
    let headers = string_headers(m1)?;
    let line = format!("c16.real.resp {e} i{} {} {body}", m1.line, crate::pairs_toks(&headers));
    if crate::run(&line).imp != answer(&Ok(m1.clone()), false, d.resp.has_flatten()) {
        skips.not_fixpoint += 1;
        return None;
    }
    Some(Req::new(line, if d.resp.has_flatten() { "real.resp.partial" } else { "real.resp.full" }))
}

// ---------------------------------------------------------------- T1: the descriptors, as Lean

fn lean_bytes(s: &str) -> String {
    let b: Vec<String> = s.bytes().map(|b| b.to_string()).collect();
    format!("[{}]", b.join(","))
}

fn lean_field(f: &SField) -> String {
    let kind = match &f.kind {
        SKind::Path => ".path Ty.str".to_owned(),
        SKind::Query => ".query Ty.anyQ".to_owned(),
        SKind::QueryAll => ".queryAll Ty.anyQA".to_owned(),
        SKind::Header { name, optional } => format!(".header {} {} Ty.str", lean_bytes(name), optional),
        SKind::Body => ".body Ty.anyB".to_owned(),
        SKind::FlattenBody => ".flattenBody".to_owned(),
        SKind::Newtype => ".newtypeBody Ty.anyJ".to_owned(),
        SKind::Raw => ".rawBody".to_owned(),
    };
    let mut note = format!("{}: {}", f.name, f.ty.replace("-/", "- /"));
    if let Some(s) = &f.skip {
        note.push_str(&format!(", skip_serializing_if {s}"));
    }
    if f.default {
        note.push_str(", default");
    }
    format!("⟨{}, {kind}⟩ /- {note} -/", lean_bytes(&f.name))
}

fn has_body(s: &SStruct) -> bool {
    s.fields.iter().any(|f| matches!(f.kind, SKind::Body | SKind::Newtype))
}

/// The rule of `ReqDesc.g17Fields` / `RespDesc.g17Fields`, in Rust.
fn g17(s: &SStruct, request: bool, server_signatures: bool) -> bool {
    s.fields.iter().any(|f| match &f.kind {
        SKind::Header { name, optional: true } => {
            if request {
                (name == "content-type" && (s.has_raw() || has_body(s))) || (name == "authorization" && !server_signatures)
            } else {
                name == "content-type"
            }
        }
        _ => false,
    })
}

fn nat_list(v: &[usize]) -> String {
    format!("[{}]", v.iter().map(|i| i.to_string()).collect::<Vec<_>>().join(", "))
}

/// Appended to `Generated/C16.lean`.
pub fn extract(hist_index: &dyn Fn(usize) -> usize, scheme: &dyn Fn(usize) -> &'static str) -> String {
    use ruma_common::api::AuthScheme;
    let w = world();
    let ds = descs();
    let mut s = String::new();
    s.push_str("\n/-! ## The real endpoints, as `#[request]` / `#[response]` see them\n\nRead by `h-c16`'s source parser (`srcdesc.rs`) from the struct definitions under\n`crates/ruma-*-api/src/**`, with the identity codecs (`Ty.str`, `Ty.anyQ`, `Ty.anyQA`, `Ty.anyB`,\n`Ty.anyJ`); the comment behind a field is its serde name, Rust type and serde options. `none`: not\nunder the model (reason in the comment) — nothing is claimed for it. Indices are those of\n`endpoints`. -/\n\n");
    let mut outside = Vec::new();
    let mut flatten = Vec::new();
    let mut g17_req = Vec::new();
    let mut g17_resp = Vec::new();
    let real: Vec<usize> = (0..w.eps.len()).filter(|i| !w.eps[*i].synthetic).collect();
    for &i in &real {
        let e = &w.eps[i];
        match &ds[i] {
            Err(_) => outside.push(i),
            Ok(d) => {
                if d.req.has_flatten() || d.resp.has_flatten() {
                    flatten.push(i);
                }
                if g17(&d.req, true, e.meta.authentication == AuthScheme::ServerSignatures) {
                    g17_req.push(i);
                }
                if g17(&d.resp, false, false) {
                    g17_resp.push(i);
                }
                let rf: Vec<String> = d.req.fields.iter().map(lean_field).collect();
                s.push_str(&format!(
                    "/-- {} -/\ndef rq{i} : Ruma.Glue.ReqDesc := ⟨{}, {}, h{}, [{}{}]⟩\n",
                    e.name,
                    lean_bytes(e.meta.method.as_str()),
                    scheme(i),
                    hist_index(i),
                    if rf.is_empty() { "" } else { "\n  " },
                    rf.join(",\n  ")
                ));
                let pf: Vec<String> = d.resp.fields.iter().map(lean_field).collect();
                s.push_str(&format!(
                    "def rp{i} : Ruma.Glue.RespDesc := ⟨{}, {}, [{}{}]⟩\n",
                    d.resp.status,
                    if d.resp.manual { "some Ty.anyJ" } else { "none" },
                    if pf.is_empty() { "" } else { "\n  " },
                    pf.join(",\n  ")
                ));
            }
        }
    }
    for (what, prefix, ty) in [("Request", "rq", "ReqDesc"), ("Response", "rp", "RespDesc")] {
        s.push_str(&format!("\n/-- The `{what}` descriptor of every real endpoint (`none`: not under the model). -/\ndef real{}: List (Option Ruma.Glue.{ty}) := [\n", if what == "Request" { "Req " } else { "Resp " }));
        for (k, &i) in real.iter().enumerate() {
            let sep = if k + 1 == real.len() { "" } else { "," };
            match &ds[i] {
                Ok(_) => s.push_str(&format!("  some {prefix}{i}{sep}\n")),
                Err(r) => s.push_str(&format!("  none{sep} /- {i} {}: {} -/\n", w.eps[i].name, r.replace("-/", "- /"))),
            }
        }
        s.push_str("]\n");
    }
    s.push_str(&format!("\n/-- Endpoints without a descriptor (hand-written conversions, or a definition the parser does not\nunderstand): not under the model. -/\ndef realOutside : List Nat := {}\n", nat_list(&outside)));
    s.push_str(&format!("\n/-- Endpoints whose request or response has a flattened body field: outside the model\n(`inModel = false`); the check compares method, URI and headers only. -/\ndef realFlatten : List Nat := {}\n", nat_list(&flatten)));
    s.push_str(&format!("\n/-- Endpoints whose request has the shape of finding G17 (the harness' own evaluation of the rule;\n`Props/C16.real_g17_endpoints` checks it against `ReqDesc.g17Fields`). -/\ndef realReqG17 : List Nat := {}\n", nat_list(&g17_req)));
    s.push_str(&format!("\n/-- …and whose response has it (`RespDesc.g17Fields`). -/\ndef realRespG17 : List Nat := {}\n", nat_list(&g17_resp)));
    s
}
