//! Registry of every endpoint of the five API crates (generated list, `endpoints.rs`) plus the
//! synthetic endpoints, each with its `METADATA` and monomorphised round-trip functions.
use std::fmt::Debug;

use ruma_common::api::{
    IncomingRequest, IncomingResponse, MatrixVersion, Metadata, OutgoingRequest, OutgoingResponse,
    SendAccessToken,
};

pub const ALL_VERSIONS: [MatrixVersion; 15] = [
    MatrixVersion::V1_0,
    MatrixVersion::V1_1,
    MatrixVersion::V1_2,
    MatrixVersion::V1_3,
    MatrixVersion::V1_4,
    MatrixVersion::V1_5,
    MatrixVersion::V1_6,
    MatrixVersion::V1_7,
    MatrixVersion::V1_8,
    MatrixVersion::V1_9,
    MatrixVersion::V1_10,
    MatrixVersion::V1_11,
    MatrixVersion::V1_12,
    MatrixVersion::V1_13,
    MatrixVersion::V1_14,
];

pub fn version_index(v: MatrixVersion) -> usize {
    ALL_VERSIONS.iter().position(|x| *x == v).expect("a version this harness does not list")
}

pub const BASE_URL: &str = "https://example.org";

/// An HTTP message reduced to what "the identical HTTP message" compares: method/status line,
/// URI, headers as a sorted multimap, body bytes.
#[derive(Debug, PartialEq, Eq, Clone)]
pub struct Msg {
    pub line: String,
    pub uri: String,
    pub headers: Vec<(String, Vec<u8>)>,
    pub body: Vec<u8>,
}

fn sorted_headers(h: &http::HeaderMap) -> Vec<(String, Vec<u8>)> {
    let mut v: Vec<_> = h.iter().map(|(k, v)| (k.as_str().to_owned(), v.as_bytes().to_vec())).collect();
    v.sort();
    v
}

pub fn req_msg(r: &http::Request<Vec<u8>>) -> Msg {
    Msg {
        line: r.method().to_string(),
        uri: r.uri().to_string(),
        headers: sorted_headers(r.headers()),
        body: r.body().clone(),
    }
}

pub fn resp_msg(r: &http::Response<Vec<u8>>) -> Msg {
    Msg {
        line: r.status().as_u16().to_string(),
        uri: String::new(),
        headers: sorted_headers(r.headers()),
        body: r.body().clone(),
    }
}

fn describe_diff(a: &Msg, b: &Msg) -> String {
    if a.line != b.line {
        format!("method/status {:?} vs {:?}", a.line, b.line)
    } else if a.uri != b.uri {
        format!("uri {:?} vs {:?}", a.uri, b.uri)
    } else if a.headers != b.headers {
        let f = |m: &Msg| {
            m.headers.iter().map(|(k, v)| format!("{k}: {}", String::from_utf8_lossy(v))).collect::<Vec<_>>()
        };
        format!("headers {:?} vs {:?}", f(a), f(b))
    } else {
        format!("body {:?} vs {:?}", String::from_utf8_lossy(&a.body), String::from_utf8_lossy(&b.body))
    }
}

/// A request as it arrives at a server: path arguments already routed and percent-decoded.
#[derive(Clone, Debug, Default)]
pub struct ReqSeed {
    pub path_args: Vec<String>,
    pub query: String,
    pub headers: Vec<(String, String)>,
    pub body: Vec<u8>,
}

#[derive(Clone, Debug, Default)]
pub struct RespSeed {
    pub status: u16,
    pub headers: Vec<(String, String)>,
    pub body: Vec<u8>,
}

/// Outcome of one round trip on the real code.
#[derive(Debug, Default)]
pub struct Rt {
    /// the seed message was accepted by the receiving-side conversion (there is a value to test)
    pub accepted: bool,
    /// first encoding: `Ok(message)` or the error class
    pub first: Option<Result<Msg, String>>,
    pub t3: Vec<String>,
}

/// What a server's router does with one registered template: split on `/`, literal segments
/// must match, the segments standing for placeholders are percent-decoded.
pub fn route_template(tmpl: &str, path: &str) -> Option<Vec<String>> {
    let ts: Vec<&str> = tmpl.split('/').collect();
    let ps: Vec<&str> = path.split('/').collect();
    if ts.len() != ps.len() {
        return None;
    }
    let mut args = Vec::new();
    for (t, p) in ts.iter().zip(&ps) {
        if t.starts_with(':') {
            args.push(percent_encoding::percent_decode_str(p).decode_utf8().ok()?.into_owned());
        } else if t != p {
            return None;
        }
    }
    Some(args)
}

/// A server registers every path the endpoint ever had.
pub fn route(meta: &Metadata, path: &str) -> Option<Vec<String>> {
    meta.history.all_paths().find_map(|tmpl| route_template(tmpl, path))
}

pub fn into_http_error_class(e: &ruma_common::api::error::IntoHttpError) -> String {
    use ruma_common::api::error::IntoHttpError as E;
    match e {
        E::EndpointRemoved(_) => "removed".into(),
        E::NoUnstablePath => "nopath".into(),
        E::NeedsAuthentication => "needsauth".into(),
        _ => "other".into(),
    }
}

/// Receiving side of a request that a sender produced: route, decode, convert back, re-encode;
/// compare value (Debug) and message. `first` is the sender's message.
pub fn check_request_arrival<R>(
    debug1: &str,
    first: &http::Request<Vec<u8>>,
    expect_args: Option<&[String]>,
    versions: &[MatrixVersion],
    sat: SendAccessToken<'_>,
    t3: &mut Vec<String>,
) where
    R: OutgoingRequest + IncomingRequest + Debug,
{
    let meta = <R as OutgoingRequest>::METADATA;
    let m1 = req_msg(first);
    let Some(args) = route(&meta, first.uri().path()) else {
        t3.push(format!("no path of the endpoint routes the produced URI {:?}", m1.uri));
        return;
    };
    if let Some(exp) = expect_args {
        if exp != args.as_slice() {
            t3.push(format!("path arguments changed on the wire: sent {exp:?}, received {args:?} (uri {:?})", m1.uri));
        }
    }
    let r2 = match R::try_from_http_request(first.clone(), &args) {
        Ok(r) => r,
        Err(e) => {
            t3.push(format!("receiving side rejects the sender's message: {e} (uri {:?})", m1.uri));
            return;
        }
    };
    let debug2 = format!("{r2:?}");
    if debug1 != debug2 {
        t3.push(format!("request value changed over the wire: {debug1} became {debug2}"));
    }
    match r2.try_into_http_request::<Vec<u8>>(BASE_URL, sat, versions) {
        Ok(h2) => {
            let m2 = req_msg(&h2);
            if m1 != m2 {
                t3.push(format!("re-encoded request differs: {}", describe_diff(&m1, &m2)));
            }
        }
        Err(e) => t3.push(format!("re-encoding the received request failed: {e}")),
    }
}

/// Round trip starting from a message as a server receives it.
pub fn rt_req<R>(seed: &ReqSeed, versions: &[MatrixVersion], sat: SendAccessToken<'_>) -> Rt
where
    R: OutgoingRequest + IncomingRequest + Debug,
{
    let mut out = Rt::default();
    let meta = <R as OutgoingRequest>::METADATA;
    let uri = if seed.query.is_empty() { "https://seed.invalid/".to_owned() } else { format!("https://seed.invalid/?{}", seed.query) };
    let mut b = http::Request::builder().method(meta.method.clone()).uri(uri);
    for (k, v) in &seed.headers {
        b = b.header(k.as_str(), v.as_str());
    }
    let Ok(req0) = b.body(seed.body.clone()) else { return out };
    let Ok(r1) = R::try_from_http_request(req0, &seed.path_args) else { return out };
    out.accepted = true;
    let debug1 = format!("{r1:?}");
    match r1.try_into_http_request::<Vec<u8>>(BASE_URL, sat, versions) {
        Err(e) => out.first = Some(Err(into_http_error_class(&e))),
        Ok(h1) => {
            out.first = Some(Ok(req_msg(&h1)));
            check_request_arrival::<R>(&debug1, &h1, Some(&seed.path_args), versions, sat, &mut out.t3);
        }
    }
    out
}

/// Round trip of a response value obtained from a seed message.
pub fn rt_resp<P>(seed: &RespSeed) -> Rt
where
    P: IncomingResponse + OutgoingResponse + Debug,
{
    let mut out = Rt::default();
    let mut b = http::Response::builder().status(seed.status);
    for (k, v) in &seed.headers {
        b = b.header(k.as_str(), v.as_str());
    }
    let Ok(resp0) = b.body(seed.body.clone()) else { return out };
    let Ok(p1) = P::try_from_http_response(resp0) else { return out };
    out.accepted = true;
    let debug1 = format!("{p1:?}");
    check_response_value::<P>(p1, &debug1, &mut out);
    out
}

pub fn check_response_value<P>(p1: P, debug1: &str, out: &mut Rt)
where
    P: IncomingResponse + OutgoingResponse + Debug,
{
    let h1 = match p1.try_into_http_response::<Vec<u8>>() {
        Ok(h) => h,
        Err(e) => {
            out.first = Some(Err(into_http_error_class(&e)));
            return;
        }
    };
    let m1 = resp_msg(&h1);
    out.first = Some(Ok(m1.clone()));
    let p2 = match P::try_from_http_response(h1) {
        Ok(p) => p,
        Err(_) => {
            out.t3.push(format!("receiving side rejects the sender's response (body {:?})", String::from_utf8_lossy(&m1.body)));
            return;
        }
    };
    let debug2 = format!("{p2:?}");
    if debug1 != debug2 {
        out.t3.push(format!("response value changed over the wire: {debug1} became {debug2}"));
    }
    match p2.try_into_http_response::<Vec<u8>>() {
        Ok(h2) => {
            let m2 = resp_msg(&h2);
            if m1 != m2 {
                out.t3.push(format!("re-encoded response differs: {}", describe_diff(&m1, &m2)));
            }
        }
        Err(e) => out.t3.push(format!("re-encoding the received response failed: {e}")),
    }
}

pub struct Ep {
    pub name: &'static str,
    pub meta: Metadata,
    pub synthetic: bool,
    pub req: fn(&ReqSeed, &[MatrixVersion], SendAccessToken<'_>) -> Rt,
    pub resp: fn(&RespSeed) -> Rt,
}

pub fn ep<R, P>(name: &'static str, synthetic: bool) -> Ep
where
    R: OutgoingRequest<IncomingResponse = P> + IncomingRequest<OutgoingResponse = P> + Debug,
    P: IncomingResponse + OutgoingResponse + Debug,
{
    Ep { name, meta: <R as OutgoingRequest>::METADATA, synthetic, req: rt_req::<R>, resp: rt_resp::<P> }
}

/// All endpoints, real ones first (in the generated order), synthetic ones last.
pub fn endpoints() -> Vec<Ep> {
    #[allow(non_snake_case)]
    let mut EPS: Vec<Ep> = Vec::new();
    macro_rules! push_ep {
        ($($seg:ident)::+) => {
            EPS.push(ep::<$($seg)::+::Request, $($seg)::+::Response>(stringify!($($seg)::+), false));
        };
    }
    crate::for_each_endpoint!(push_ep);
    crate::synthetic::push_all(&mut EPS);
    crate::glue::push_all(&mut EPS);
    for e in &mut EPS {
        // `stringify!` puts spaces around `::`
        let n: String = e.name.chars().filter(|c| !c.is_whitespace()).collect();
        e.name = Box::leak(n.into_boxed_str());
    }
    EPS
}

/// A history in the shape the Lean model uses.
#[derive(Clone, Debug, PartialEq, Eq, Hash)]
pub struct Hist {
    pub unstable: Vec<String>,
    pub stable: Vec<(usize, String)>,
    pub deprecated: Option<usize>,
    pub removed: Option<usize>,
}

pub fn hist_of(meta: &Metadata) -> Hist {
    let h = &meta.history;
    Hist {
        unstable: h.unstable_paths().map(str::to_owned).collect(),
        stable: h.stable_paths().map(|(v, p)| (version_index(v), p.to_owned())).collect(),
        deprecated: h.deprecated_in().map(version_index),
        removed: h.removed_in().map(version_index),
    }
}

/// Distinct histories in order of first occurrence, and each endpoint's index into them.
pub fn distinct_histories(eps: &[Ep]) -> (Vec<Hist>, Vec<usize>) {
    let mut hs: Vec<Hist> = Vec::new();
    let mut idx = Vec::new();
    for e in eps {
        let h = hist_of(&e.meta);
        match hs.iter().position(|x| *x == h) {
            Some(i) => idx.push(i),
            None => {
                hs.push(h);
                idx.push(hs.len() - 1);
            }
        }
    }
    (hs, idx)
}
