//! Descriptors of the REAL endpoints, read from the source text of their `#[request]` /
//! `#[response]` struct definitions under `$VERIF_REPO|/repo/crates/ruma-*-api/src/**`.
//!
//! What the parser understands (everything else makes the endpoint "not under the model", with the
//! reason kept — nothing is guessed):
//!   * module lookup: `a::b::c` is `src/a/b/c.rs`, `src/a/b/c/mod.rs` or an inline `pub mod c { .. }`;
//!   * `#[request(..)] pub struct Request { .. }`, `#[response(.., status = CONST)] pub struct
//!     Response { .. }`, `#[ruma_api(manual_body_serde)]` on the response struct;
//!   * per field: `#[ruma_api(path | query | query_all | body | raw_body | header = PATH)]`,
//!     `#[serde(rename = "..", default, default = "..", skip_serializing_if = "..", flatten,
//!     alias = "..", with = "..", serialize_with = "..", deserialize_with = "..")]`, `#[cfg(..)]` /
//!     `#[cfg_attr(.., ..)]` evaluated for the harness' feature set (`client`, `server`; every other
//!     feature and cfg flag off), `#[doc]`, `#[allow]`, `#[deprecated]`; visibility; the field name
//!     (`r#name` too); the type up to the next top-level comma (`Option<..>` recognised by its head);
//!   * header constants: the last path segment, lower-cased with `_` → `-` (the naming rule of
//!     `http::header` and of `ruma_client_api::http_headers`), checked to be a valid header name.
//! Not understood: any other attribute or serde option on a field, `flatten` on anything but a
//! plain body field, a renamed path field, a status constant outside the table below, generics or
//! `where` clauses on the struct, tuple structs.
use std::path::{Path, PathBuf};

#[derive(Clone, Debug, PartialEq, Eq)]
pub enum SKind {
    Body,
    /// a plain body field with `#[serde(flatten)]`
    FlattenBody,
    Path,
    Query,
    QueryAll,
    Header { name: String, optional: bool },
    Newtype,
    Raw,
}

#[derive(Clone, Debug)]
pub struct SField {
    /// the serde name: JSON key, query key, path placeholder
    pub name: String,
    pub kind: SKind,
    pub optional: bool,
    pub skip: Option<String>,
    pub default: bool,
    pub ty: String,
}

#[derive(Clone, Debug)]
pub struct SStruct {
    pub fields: Vec<SField>,
    pub status: u16,
    pub manual: bool,
}

impl SStruct {
    pub fn has_flatten(&self) -> bool {
        self.fields.iter().any(|f| f.kind == SKind::FlattenBody)
    }
    pub fn has_raw(&self) -> bool {
        self.fields.iter().any(|f| f.kind == SKind::Raw)
    }
}

#[derive(Clone, Debug)]
pub struct SDesc {
    pub req: SStruct,
    pub resp: SStruct,
}

pub fn repo_root() -> PathBuf {
    PathBuf::from(std::env::var("VERIF_REPO").unwrap_or_else(|_| "/repo".to_owned()))
}

// ---------------------------------------------------------------- tokens

#[derive(Clone, Debug, PartialEq, Eq)]
enum Tok {
    Ident(String),
    Str(String),
    Other(String),
    P(char),
}

fn lex(src: &str) -> Result<Vec<Tok>, String> {
    let c: Vec<char> = src.chars().collect();
    let mut i = 0;
    let mut out = Vec::new();
    while i < c.len() {
        let ch = c[i];
        if ch.is_whitespace() {
            i += 1;
        } else if ch == '/' && c.get(i + 1) == Some(&'/') {
            while i < c.len() && c[i] != '\n' {
                i += 1;
            }
        } else if ch == '/' && c.get(i + 1) == Some(&'*') {
            let mut depth = 1;
            i += 2;
            while i < c.len() && depth > 0 {
                if c[i] == '/' && c.get(i + 1) == Some(&'*') {
                    depth += 1;
                    i += 2;
                } else if c[i] == '*' && c.get(i + 1) == Some(&'/') {
                    depth -= 1;
                    i += 2;
                } else {
                    i += 1;
                }
            }
        } else if ch == '"' {
            let mut s = String::new();
            i += 1;
            loop {
                match c.get(i) {
                    None => return Err("unterminated string literal".into()),
                    Some('"') => break,
                    Some('\\') => {
                        // only the escapes that occur in attribute strings are decoded; others
                        // are kept verbatim (such a literal is never a serde name we use)
                        match c.get(i + 1) {
                            Some('"') => s.push('"'),
                            Some('\\') => s.push('\\'),
                            Some(x) => {
                                s.push('\\');
                                s.push(*x)
                            }
                            None => return Err("unterminated string literal".into()),
                        }
                        i += 2;
                    }
                    Some(x) => {
                        s.push(*x);
                        i += 1;
                    }
                }
            }
            i += 1;
            out.push(Tok::Str(s));
        } else if ch == 'r' && (c.get(i + 1) == Some(&'"') || (c.get(i + 1) == Some(&'#') && matches!(c.get(i + 2), Some('"') | Some('#')))) {
            // raw string r"..", r#".."#
            let mut j = i + 1;
            let mut hashes = 0;
            while c.get(j) == Some(&'#') {
                hashes += 1;
                j += 1;
            }
            if c.get(j) != Some(&'"') {
                return Err("malformed raw string".into());
            }
            j += 1;
            let mut s = String::new();
            loop {
                match c.get(j) {
                    None => return Err("unterminated raw string".into()),
                    Some('"') if (1..=hashes).all(|k| c.get(j + k) == Some(&'#')) => break,
                    Some(x) => {
                        s.push(*x);
                        j += 1;
                    }
                }
            }
            i = j + 1 + hashes;
            out.push(Tok::Str(s));
        } else if ch == 'r' && c.get(i + 1) == Some(&'#') && c.get(i + 2).is_some_and(|x| x.is_alphabetic() || *x == '_') {
            // raw identifier
            let mut j = i + 2;
            let mut s = String::new();
            while j < c.len() && (c[j].is_alphanumeric() || c[j] == '_') {
                s.push(c[j]);
                j += 1;
            }
            i = j;
            out.push(Tok::Ident(s));
        } else if ch.is_alphabetic() || ch == '_' {
            let mut s = String::new();
            while i < c.len() && (c[i].is_alphanumeric() || c[i] == '_') {
                s.push(c[i]);
                i += 1;
            }
            out.push(Tok::Ident(s));
        } else if ch.is_ascii_digit() {
            let mut s = String::new();
            while i < c.len() && (c[i].is_alphanumeric() || c[i] == '_' || c[i] == '.') {
                s.push(c[i]);
                i += 1;
            }
            out.push(Tok::Other(s));
        } else if ch == '\'' {
            // char literal or lifetime
            if c.get(i + 1) == Some(&'\\') {
                let mut j = i + 2;
                while j < c.len() && c[j] != '\'' {
                    j += 1;
                }
                i = j + 1;
                out.push(Tok::Other("'c'".into()));
            } else if c.get(i + 2) == Some(&'\'') {
                i += 3;
                out.push(Tok::Other("'c'".into()));
            } else {
                let mut s = String::from("'");
                i += 1;
                while i < c.len() && (c[i].is_alphanumeric() || c[i] == '_') {
                    s.push(c[i]);
                    i += 1;
                }
                out.push(Tok::Other(s));
            }
        } else {
            out.push(Tok::P(ch));
            i += 1;
        }
    }
    Ok(out)
}

fn close_of(open: char) -> char {
    match open {
        '(' => ')',
        '[' => ']',
        '{' => '}',
        _ => unreachable!(),
    }
}

/// `t[i]` is an opening bracket: the index of its partner.
fn matching(t: &[Tok], i: usize) -> Result<usize, String> {
    let mut stack = Vec::new();
    for (j, tok) in t.iter().enumerate().skip(i) {
        if let Tok::P(ch) = tok {
            match ch {
                '(' | '[' | '{' => stack.push(close_of(*ch)),
                ')' | ']' | '}' => {
                    if stack.pop() != Some(*ch) {
                        return Err("unbalanced brackets".into());
                    }
                    if stack.is_empty() {
                        return Ok(j);
                    }
                }
                _ => {}
            }
        }
    }
    Err("unbalanced brackets".into())
}

fn is_ident(t: &Tok, s: &str) -> bool {
    matches!(t, Tok::Ident(x) if x == s)
}

fn is_p(t: Option<&Tok>, ch: char) -> bool {
    matches!(t, Some(Tok::P(x)) if *x == ch)
}

// ---------------------------------------------------------------- modules

/// The tokens of the inline module `pub mod <name> { .. }` inside `t`, if there is one at brace
/// depth 0.
fn inline_mod(t: &[Tok], name: &str) -> Result<Option<Vec<Tok>>, String> {
    let mut i = 0;
    while i < t.len() {
        match &t[i] {
            Tok::P('(' | '[' | '{') => {
                // skip nested groups: a module of that name deeper down is not ours
                if is_p(Some(&t[i]), '{') {
                    i = matching(t, i)? + 1;
                    continue;
                }
            }
            Tok::Ident(m) if m == "mod" && t.get(i + 1).is_some_and(|x| is_ident(x, name)) && is_p(t.get(i + 2), '{') => {
                let end = matching(t, i + 2)?;
                return Ok(Some(t[i + 3..end].to_vec()));
            }
            _ => {}
        }
        i += 1;
    }
    Ok(None)
}

fn crate_dir(krate: &str) -> String {
    krate.replace('_', "-")
}

/// The tokens of the module `name` (`ruma_client_api::account::add_3pid::v3`).
fn module_tokens(name: &str) -> Result<Vec<Tok>, String> {
    let mut segs = name.split("::");
    let krate = segs.next().ok_or("empty name")?;
    let mut dir: PathBuf = repo_root().join("crates").join(crate_dir(krate)).join("src");
    let mut toks: Option<Vec<Tok>> = None;
    for seg in segs {
        if let Some(t) = &toks {
            if let Some(inner) = inline_mod(t, seg)? {
                toks = Some(inner);
                dir = dir.join(seg);
                continue;
            }
        }
        let f1 = dir.join(format!("{seg}.rs"));
        let f2 = dir.join(seg).join("mod.rs");
        let file: &Path = if f1.is_file() {
            &f1
        } else if f2.is_file() {
            &f2
        } else {
            return Err(format!("module {seg} of {name}: no file"));
        };
        let text = std::fs::read_to_string(file).map_err(|e| format!("{}: {e}", file.display()))?;
        toks = Some(lex(&text)?);
        dir = dir.join(seg);
    }
    toks.ok_or_else(|| "no module".to_owned())
}

// ---------------------------------------------------------------- attributes

/// `cfg` predicates for the harness' feature set.
fn eval_cfg(t: &[Tok]) -> Result<bool, String> {
    match t {
        [Tok::Ident(f), Tok::P('='), Tok::Str(v)] if f == "feature" => Ok(v == "client" || v == "server"),
        [Tok::Ident(op), Tok::P('('), .., Tok::P(')')] if matches!(op.as_str(), "not" | "all" | "any") => {
            let parts = split_commas(&t[2..t.len() - 1])?;
            let vals: Vec<bool> = parts.iter().map(|p| eval_cfg(p)).collect::<Result<_, _>>()?;
            Ok(match op.as_str() {
                "not" => {
                    if vals.len() != 1 {
                        return Err("cfg(not(..)) with several arguments".into());
                    }
                    !vals[0]
                }
                "all" => vals.iter().all(|b| *b),
                _ => vals.iter().any(|b| *b),
            })
        }
        // `test`, `ruma_unstable_exhaustive_types`, ..: flags that are off in the harness build
        [Tok::Ident(_)] => Ok(false),
        _ => Err("cfg predicate not understood".into()),
    }
}

/// Split at top-level commas (brackets and `<..>` nest); a trailing comma yields no empty part.
fn split_commas(t: &[Tok]) -> Result<Vec<Vec<Tok>>, String> {
    let mut parts = Vec::new();
    let mut cur = Vec::new();
    let mut i = 0;
    while i < t.len() {
        match &t[i] {
            Tok::P('(' | '[' | '{') => {
                let end = matching(t, i)?;
                cur.extend_from_slice(&t[i..=end]);
                i = end + 1;
                continue;
            }
            Tok::P(',') => parts.push(std::mem::take(&mut cur)),
            x => cur.push(x.clone()),
        }
        i += 1;
    }
    if !cur.is_empty() {
        parts.push(cur);
    }
    Ok(parts)
}

/// The attributes in front of an item, with `cfg_attr` resolved. `Ok(None)`: a `cfg` is false, the
/// item does not exist in the harness build. Each attribute is its token list inside `#[ .. ]`.
fn resolve_attrs(raw: Vec<Vec<Tok>>) -> Result<Option<Vec<Vec<Tok>>>, String> {
    let mut out = Vec::new();
    let mut work: Vec<Vec<Tok>> = raw;
    work.reverse();
    while let Some(a) = work.pop() {
        match a.as_slice() {
            [Tok::Ident(n), Tok::P('('), inner @ .., Tok::P(')')] if n == "cfg" => {
                if !eval_cfg(inner)? {
                    return Ok(None);
                }
            }
            [Tok::Ident(n), Tok::P('('), inner @ .., Tok::P(')')] if n == "cfg_attr" => {
                let parts = split_commas(inner)?;
                let (pred, attrs) = parts.split_first().ok_or("empty cfg_attr")?;
                if eval_cfg(pred)? {
                    for x in attrs.iter().rev() {
                        work.push(x.clone());
                    }
                }
            }
            _ => out.push(a),
        }
    }
    Ok(Some(out))
}

/// Leading `#[..]` attributes starting at `t[*i]`; `*i` is moved behind them.
fn take_attrs(t: &[Tok], i: &mut usize) -> Result<Vec<Vec<Tok>>, String> {
    let mut v = Vec::new();
    while is_p(t.get(*i), '#') && is_p(t.get(*i + 1), '[') {
        let end = matching(t, *i + 1)?;
        v.push(t[*i + 2..end].to_vec());
        *i = end + 1;
    }
    Ok(v)
}

const STATUS: &[(&str, u16)] = &[("OK", 200), ("CREATED", 201), ("ACCEPTED", 202), ("NO_CONTENT", 204), ("FOUND", 302), ("SEE_OTHER", 303)];

fn header_name(path: &[Tok]) -> Result<String, String> {
    // IDENT (:: IDENT)*
    let mut last = None;
    let mut expect_ident = true;
    let mut i = 0;
    while i < path.len() {
        match (&path[i], expect_ident) {
            (Tok::Ident(x), true) => {
                last = Some(x.clone());
                expect_ident = false;
                i += 1;
            }
            (Tok::P(':'), false) if is_p(path.get(i + 1), ':') => {
                expect_ident = true;
                i += 2;
            }
            _ => return Err("header constant is not a path".into()),
        }
    }
    let ident = last.filter(|_| !expect_ident).ok_or("header constant is not a path")?;
    if !ident.chars().all(|c| c.is_ascii_uppercase() || c.is_ascii_digit() || c == '_') {
        return Err(format!("header constant {ident} is not an upper-case constant name"));
    }
    let n = ident.to_ascii_lowercase().replace('_', "-");
    http::header::HeaderName::from_bytes(n.as_bytes()).map_err(|_| format!("header constant {ident}"))?;
    Ok(n)
}

fn type_string(t: &[Tok]) -> String {
    t.iter()
        .map(|x| match x {
            Tok::Ident(s) | Tok::Other(s) => s.clone(),
            Tok::Str(s) => format!("{s:?}"),
            Tok::P(c) => c.to_string(),
        })
        .collect::<Vec<_>>()
        .join("")
}

fn parse_field(attrs: Vec<Vec<Tok>>, ident: &str, ty: &[Tok], response: bool) -> Result<SField, String> {
    let mut kind: Option<SKind> = None;
    let mut rename = None;
    let mut flatten = false;
    let mut skip = None;
    let mut default = false;
    let optional = matches!(ty, [Tok::Ident(o), Tok::P('<'), ..] if o == "Option");
    for a in attrs {
        match a.as_slice() {
            [Tok::Ident(n), ..] if matches!(n.as_str(), "doc" | "allow" | "deprecated") => {}
            [Tok::Ident(n), Tok::P('('), inner @ .., Tok::P(')')] if n == "ruma_api" => {
                if kind.is_some() {
                    return Err(format!("field {ident}: two ruma_api attributes"));
                }
                kind = Some(match inner {
                    [Tok::Ident(k)] if k == "path" && !response => SKind::Path,
                    [Tok::Ident(k)] if k == "query" && !response => SKind::Query,
                    [Tok::Ident(k)] if k == "query_all" && !response => SKind::QueryAll,
                    [Tok::Ident(k)] if k == "body" => SKind::Newtype,
                    [Tok::Ident(k)] if k == "raw_body" => SKind::Raw,
                    [Tok::Ident(k), Tok::P('='), path @ ..] if k == "header" => SKind::Header { name: header_name(path)?, optional },
                    _ => return Err(format!("field {ident}: ruma_api attribute not understood")),
                });
            }
            [Tok::Ident(n), Tok::P('('), inner @ .., Tok::P(')')] if n == "serde" => {
                for item in split_commas(inner)? {
                    match item.as_slice() {
                        [Tok::Ident(k)] if k == "default" => default = true,
                        [Tok::Ident(k)] if k == "flatten" => flatten = true,
                        [Tok::Ident(k), Tok::P('='), Tok::Str(_)] if k == "default" => default = true,
                        [Tok::Ident(k), Tok::P('='), Tok::Str(v)] if k == "rename" => rename = Some(v.clone()),
                        [Tok::Ident(k), Tok::P('='), Tok::Str(v)] if k == "skip_serializing_if" => skip = Some(v.clone()),
                        // how the field's own value is read and written: the field's codec
                        [Tok::Ident(k), Tok::P('='), Tok::Str(_)] if matches!(k.as_str(), "with" | "serialize_with" | "deserialize_with" | "alias") => {}
                        _ => return Err(format!("field {ident}: serde option {:?} not understood", type_string(&item))),
                    }
                }
            }
            other => return Err(format!("field {ident}: attribute {:?} not understood", type_string(other))),
        }
    }
    let kind = match (kind, flatten) {
        (None, false) => SKind::Body,
        (None, true) => SKind::FlattenBody,
        (Some(k), false) => k,
        (Some(k), true) => return Err(format!("field {ident}: serde(flatten) on a {k:?} field")),
    };
    if kind == SKind::Path && rename.is_some() {
        return Err(format!("field {ident}: renamed path field"));
    }
    if rename.as_deref().is_some_and(|r| r.contains('\\')) {
        return Err(format!("field {ident}: escape in the serde name"));
    }
    Ok(SField { name: rename.unwrap_or_else(|| ident.to_owned()), kind, optional, skip, default, ty: type_string(ty) })
}

/// The struct behind the attribute `#[<macro_name>..]` in `t`.
fn parse_struct(t: &[Tok], macro_name: &str, struct_name: &str, response: bool) -> Result<SStruct, String> {
    // find `struct <struct_name>` at depth 0, then walk back over `pub` and the attributes
    let mut i = 0;
    let mut found = None;
    while i < t.len() {
        if is_p(Some(&t[i]), '{') {
            i = matching(t, i)? + 1;
            continue;
        }
        if is_p(Some(&t[i]), '#') && is_p(t.get(i + 1), '[') {
            let start = i;
            let attrs = take_attrs(t, &mut i)?;
            // visibility
            if t.get(i).is_some_and(|x| is_ident(x, "pub")) {
                i += 1;
                if is_p(t.get(i), '(') {
                    i = matching(t, i)? + 1;
                }
            }
            if t.get(i).is_some_and(|x| is_ident(x, "struct")) && t.get(i + 1).is_some_and(|x| is_ident(x, struct_name)) {
                let is_macro = |a: &Vec<Tok>| a.first().is_some_and(|x| is_ident(x, macro_name));
                if attrs.iter().any(is_macro) {
                    if found.is_some() {
                        return Err(format!("two `{struct_name}` structs with #[{macro_name}]"));
                    }
                    found = Some((attrs, i + 2));
                }
            }
            if i == start {
                i += 1;
            }
            continue;
        }
        i += 1;
    }
    let (attrs, mut i) = found.ok_or_else(|| format!("no #[{macro_name}] struct {struct_name}"))?;
    let attrs = resolve_attrs(attrs)?.ok_or("the struct is cfg'd out")?;
    let mut status = 200u16;
    let mut manual = false;
    for a in &attrs {
        match a.as_slice() {
            [Tok::Ident(n), ..] if matches!(n.as_str(), "doc" | "allow" | "derive" | "non_exhaustive" | "deprecated") => {}
            [Tok::Ident(n)] if n == macro_name => {}
            [Tok::Ident(n), Tok::P('('), inner @ .., Tok::P(')')] if n == macro_name => {
                for item in split_commas(inner)? {
                    match item.as_slice() {
                        [Tok::Ident(k), Tok::P('='), ..] if k == "error" => {}
                        [Tok::Ident(k), Tok::P('='), Tok::Ident(c)] if k == "status" && response => {
                            status = STATUS.iter().find(|(n, _)| n == c).map(|x| x.1).ok_or_else(|| format!("status constant {c} not in the parser's table"))?;
                        }
                        _ => return Err(format!("#[{macro_name}] argument {:?} not understood", type_string(&item))),
                    }
                }
            }
            [Tok::Ident(n), Tok::P('('), Tok::Ident(k), Tok::P(')')] if n == "ruma_api" && k == "manual_body_serde" && response => manual = true,
            other => return Err(format!("struct attribute {:?} not understood", type_string(other))),
        }
    }
    if !is_p(t.get(i), '{') {
        return Err("not a plain struct with named fields (generics, where clause or tuple struct)".into());
    }
    let end = matching(t, i)?;
    i += 1;
    let mut fields = Vec::new();
    while i < end {
        let raw = take_attrs(t, &mut i)?;
        if t.get(i).is_some_and(|x| is_ident(x, "pub")) {
            i += 1;
            if is_p(t.get(i), '(') {
                i = matching(t, i)? + 1;
            }
        }
        let Some(Tok::Ident(ident)) = t.get(i) else { return Err("field name expected".into()) };
        if !is_p(t.get(i + 1), ':') || is_p(t.get(i + 2), ':') {
            return Err(format!("field {ident}: `:` expected"));
        }
        i += 2;
        // the type: up to the next comma outside brackets and `<..>`
        let start = i;
        let mut angle = 0i32;
        while i < end {
            match &t[i] {
                Tok::P('(' | '[' | '{') => {
                    i = matching(t, i)?;
                }
                Tok::P('<') => angle += 1,
                Tok::P('>') if i > start && is_p(Some(&t[i - 1]), '-') => {}
                Tok::P('>') => angle -= 1,
                Tok::P(',') if angle == 0 => break,
                _ => {}
            }
            i += 1;
        }
        if angle != 0 || i == start {
            return Err(format!("field {ident}: type not understood"));
        }
        let ty = &t[start..i];
        i += 1; // the comma (or past `end`)
        match resolve_attrs(raw)? {
            None => {} // cfg'd out
            Some(attrs) => fields.push(parse_field(attrs, ident, ty, response)?),
        }
    }
    Ok(SStruct { fields, status, manual })
}

pub fn describe(name: &str) -> Result<SDesc, String> {
    let t = module_tokens(name)?;
    let req = parse_struct(&t, "request", "Request", false).map_err(|e| format!("Request: {e}"))?;
    let resp = parse_struct(&t, "response", "Response", true).map_err(|e| format!("Response: {e}"))?;
    Ok(SDesc { req, resp })
}
