//! The macro-generated request/response glue, differentially against the Lean model
//! (`Model/EndpointGlue.lean`): ops `c16.glue.req`, `c16.glue.resp` (sending side), `c16.glue.in`,
//! `c16.glue.rin` (receiving side, well-formed and mutated messages).
//!
//! The endpoints are defined with the REAL `#[request]` / `#[response]` macros. Each struct is
//! written once, inside `glue_struct!`, which passes the tokens on unchanged to the attribute
//! macro and *also* stringifies every field's attributes and type: the descriptor the Lean driver
//! works with (`Generated/C16.lean`, `glueReq` / `glueResp`) is computed from those strings, i.e.
//! from the very tokens the macro sees — field order, `#[ruma_api(..)]` kind, header constant,
//! `Option`-ness, `skip_serializing_if` / `default`, `status = ..`, `manual_body_serde`.
#![allow(clippy::exhaustive_structs)]
use std::collections::BTreeMap;

use h_lib::h_util;
use js_int::UInt;
use ruma_common::api::{
    error::FromHttpRequestError, IncomingRequest, IncomingResponse, MatrixVersion, Metadata, OutgoingRequest,
    OutgoingResponse, SendAccessToken,
};
use serde_json::Value;

use crate::registry::{check_request_arrival, check_response_value, into_http_error_class, req_msg, resp_msg, Msg, Rt, BASE_URL};

// ---------------------------------------------------------------- typed field contents <-> JSON

/// Uniform access to the contents of a field, whatever its Rust type.
pub trait Glue: Sized {
    fn to_j(&self) -> Value;
    fn from_j(v: &Value) -> Option<Self>;
}

impl Glue for String {
    fn to_j(&self) -> Value {
        Value::String(self.clone())
    }
    fn from_j(v: &Value) -> Option<Self> {
        v.as_str().map(str::to_owned)
    }
}
impl Glue for u64 {
    fn to_j(&self) -> Value {
        Value::from(*self)
    }
    fn from_j(v: &Value) -> Option<Self> {
        v.as_u64()
    }
}
impl Glue for UInt {
    fn to_j(&self) -> Value {
        Value::from(u64::from(*self))
    }
    fn from_j(v: &Value) -> Option<Self> {
        UInt::new(v.as_u64()?)
    }
}
impl<T: Glue> Glue for Option<T> {
    fn to_j(&self) -> Value {
        match self {
            Some(x) => x.to_j(),
            None => Value::Null,
        }
    }
    fn from_j(v: &Value) -> Option<Self> {
        if v.is_null() {
            Some(None)
        } else {
            T::from_j(v).map(Some)
        }
    }
}
impl Glue for Vec<String> {
    fn to_j(&self) -> Value {
        Value::Array(self.iter().map(|s| Value::String(s.clone())).collect())
    }
    fn from_j(v: &Value) -> Option<Self> {
        v.as_array()?.iter().map(|x| x.as_str().map(str::to_owned)).collect()
    }
}
impl Glue for BTreeMap<String, String> {
    fn to_j(&self) -> Value {
        Value::Object(self.iter().map(|(k, v)| (k.clone(), Value::String(v.clone()))).collect())
    }
    fn from_j(v: &Value) -> Option<Self> {
        v.as_object()?.iter().map(|(k, v)| Some((k.clone(), v.as_str()?.to_owned()))).collect()
    }
}
/// raw bodies, as a hex string
impl Glue for Vec<u8> {
    fn to_j(&self) -> Value {
        Value::String(h_util::hex(self))
    }
    fn from_j(v: &Value) -> Option<Self> {
        h_util::unhex(v.as_str()?)
    }
}

/// The newtype body of the synthetic endpoints.
#[derive(Clone, Debug, serde::Serialize, serde::Deserialize)]
pub struct Data {
    pub x: String,
    #[serde(default, skip_serializing_if = "Vec::is_empty")]
    pub ys: Vec<String>,
}
impl Glue for Data {
    fn to_j(&self) -> Value {
        serde_json::to_value(self).expect("Data serialises")
    }
    fn from_j(v: &Value) -> Option<Self> {
        serde_json::from_value(v.clone()).ok()
    }
}

// ---------------------------------------------------------------- the struct, once

/// Emits the struct unchanged (so the real attribute macro expands it) and a module `$m` with the
/// stringified attributes and types of every field, a constructor from per-field JSON contents
/// and its inverse.
macro_rules! glue_struct {
    ($m:ident; $(#[$outer:meta])* pub struct $S:ident { $( $(#[$attr:meta])* pub $name:ident : $ty:ty ),* $(,)? }) => {
        $(#[$outer])*
        pub struct $S { $( $(#[$attr])* pub $name : $ty ),* }

        pub mod $m {
            #[allow(unused_imports)]
            use super::*;
            /// (outer attributes, [(field name, field attributes, field type)])
            pub fn tokens() -> (Vec<String>, Vec<(&'static str, Vec<String>, String)>) {
                (
                    vec![ $( stringify!($outer).to_owned() ),* ],
                    vec![ $( (stringify!($name), vec![ $( stringify!($attr).to_owned() ),* ], stringify!($ty).to_owned()) ),* ],
                )
            }
            #[allow(unused_mut, unused_variables)]
            pub fn build(vals: &[serde_json::Value]) -> Option<super::$S> {
                let mut it = vals.iter();
                let r = super::$S { $( $name: $crate::glue::Glue::from_j(it.next()?)? ),* };
                if it.next().is_some() { return None; }
                Some(r)
            }
            #[allow(unused_variables)]
            pub fn show(r: &super::$S) -> Vec<serde_json::Value> {
                vec![ $( $crate::glue::Glue::to_j(&r.$name) ),* ]
            }
        }
    };
}

pub mod g_q {
    use http::header::{ACCEPT_LANGUAGE, ETAG, IF_MATCH, MAX_FORWARDS};
    use ruma_common::{
        api::{request, response, Metadata},
        metadata,
    };

    const METADATA: Metadata = metadata! {
        method: GET,
        rate_limited: false,
        authentication: None,
        history: {
            unstable => "/_glue/unstable/org.example/q/:a/x/:b",
            1.1 => "/_glue/v1/q/:a/x/:b",
            1.5 => "/_glue/v2/q/:a/x/:b",
        }
    };

    glue_struct! { reqm;
        #[request]
        pub struct Request {
            #[ruma_api(path)]
            pub a: String,
            #[ruma_api(query)]
            pub q: String,
            #[ruma_api(header = IF_MATCH)]
            pub h: Option<String>,
            #[ruma_api(query)]
            #[serde(skip_serializing_if = "Option::is_none")]
            pub oq: Option<String>,
            #[ruma_api(path)]
            pub b: String,
            #[ruma_api(query)]
            pub on: Option<String>,
            #[ruma_api(query)]
            #[serde(default, skip_serializing_if = "Vec::is_empty")]
            pub mq: Vec<String>,
            #[ruma_api(header = ACCEPT_LANGUAGE)]
            pub lang: String,
            #[ruma_api(query)]
            #[serde(skip_serializing_if = "Option::is_none")]
            pub n: Option<js_int::UInt>,
            #[ruma_api(header = MAX_FORWARDS)]
            pub mf: Option<u64>,
        }
    }

    glue_struct! { respm;
        #[response]
        pub struct Response {
            pub s: String,
            #[ruma_api(header = ETAG)]
            pub etag: Option<String>,
            #[serde(skip_serializing_if = "Option::is_none")]
            pub o: Option<String>,
            pub on: Option<String>,
            #[serde(default, skip_serializing_if = "Vec::is_empty")]
            pub list: Vec<String>,
        }
    }
}

pub mod g_body {
    use super::Data;
    use http::header::{CONTENT_LANGUAGE, LOCATION, MAX_FORWARDS};
    use ruma_common::{
        api::{request, response, Metadata},
        metadata,
    };

    const METADATA: Metadata = metadata! {
        method: PUT,
        rate_limited: false,
        authentication: AccessToken,
        history: {
            1.0 => "/_glue/r0/b/:id",
            1.1 => "/_glue/v3/b/:id",
            1.3 => deprecated,
            1.6 => removed,
        }
    };

    glue_struct! { reqm;
        #[request]
        pub struct Request {
            pub s: String,
            #[ruma_api(path)]
            pub id: String,
            #[serde(skip_serializing_if = "Option::is_none")]
            pub o: Option<String>,
            #[ruma_api(header = CONTENT_LANGUAGE)]
            pub lang: String,
            pub onull: Option<String>,
            #[ruma_api(query)]
            #[serde(skip_serializing_if = "Option::is_none")]
            pub q: Option<String>,
            #[serde(default, skip_serializing_if = "Vec::is_empty")]
            pub v: Vec<String>,
            #[ruma_api(header = MAX_FORWARDS)]
            pub mf: u64,
            pub n: js_int::UInt,
        }
    }

    glue_struct! { respm;
        #[response(status = CREATED)]
        pub struct Response {
            #[ruma_api(header = LOCATION)]
            pub location: String,
            #[ruma_api(body)]
            pub data: Data,
        }
    }
}

pub mod g_raw {
    use http::header::{CONTENT_DISPOSITION, CONTENT_ENCODING, CONTENT_TYPE};
    use ruma_common::{
        api::{request, response, Metadata},
        metadata,
    };
    use std::collections::BTreeMap;

    const METADATA: Metadata = metadata! {
        method: POST,
        rate_limited: false,
        authentication: AccessTokenOptional,
        history: {
            unstable => "/_glue/unstable/raw/:name/upload",
        }
    };

    glue_struct! { reqm;
        #[request]
        pub struct Request {
            #[ruma_api(path)]
            pub name: String,
            #[ruma_api(query_all)]
            pub params: BTreeMap<String, String>,
            /// optional, as in `media::create_content`: finding G17
            #[ruma_api(header = CONTENT_TYPE)]
            pub content_type: Option<String>,
            #[ruma_api(raw_body)]
            pub file: Vec<u8>,
            #[ruma_api(header = CONTENT_ENCODING)]
            pub encoding: Option<String>,
        }
    }

    glue_struct! { respm;
        #[response]
        pub struct Response {
            #[ruma_api(raw_body)]
            pub file: Vec<u8>,
            #[ruma_api(header = CONTENT_TYPE)]
            pub content_type: String,
            #[ruma_api(header = CONTENT_DISPOSITION)]
            pub disposition: Option<String>,
        }
    }
}

pub mod g_new {
    use super::Data;
    use ruma_common::{
        api::{request, response, Metadata},
        metadata,
    };

    const METADATA: Metadata = metadata! {
        method: PUT,
        rate_limited: false,
        authentication: AppserviceToken,
        history: {
            unstable => "/_glue/unstable/first/n/:n/:tail",
            unstable => "/_glue/unstable/second/n/:n/:tail",
            1.2 => "/_glue/v1/n/:n/:tail",
            1.9 => "/_glue/v3/n/:n/:tail",
            1.12 => deprecated,
        }
    };

    glue_struct! { reqm;
        #[request]
        pub struct Request {
            #[ruma_api(path)]
            pub n: String,
            #[ruma_api(body)]
            pub data: Data,
            #[ruma_api(path)]
            pub tail: String,
        }
    }

    glue_struct! { respm;
        #[response]
        pub struct Response {}
    }
}

pub mod g_none {
    use ruma_common::{
        api::{request, response, Metadata},
        metadata,
    };

    const METADATA: Metadata = metadata! {
        method: GET,
        rate_limited: false,
        authentication: ServerSignatures,
        history: {
            1.0 => "/_glue/federation/v1/thing",
        }
    };

    glue_struct! { reqm;
        #[request]
        pub struct Request {}
    }

    glue_struct! { respm;
        #[response(status = ACCEPTED)]
        pub struct Response {
            #[serde(skip_serializing_if = "Option::is_none")]
            pub o: Option<String>,
        }
    }
}

pub mod g_del {
    use http::header::MAX_FORWARDS;
    use ruma_common::{
        api::{request, response, Metadata},
        metadata,
    };

    const METADATA: Metadata = metadata! {
        method: DELETE,
        rate_limited: false,
        authentication: AppserviceTokenOptional,
        history: {
            unstable => "/_glue/unstable/d/:a/:b/:c",
            1.7 => "/_glue/v1/d/:a/:b/:c",
        }
    };

    glue_struct! { reqm;
        #[request]
        pub struct Request {
            #[ruma_api(path)]
            pub a: String,
            #[ruma_api(path)]
            pub b: String,
            #[serde(skip_serializing_if = "Option::is_none")]
            pub reason: Option<String>,
            #[ruma_api(path)]
            pub c: String,
        }
    }

    glue_struct! { respm;
        #[response]
        pub struct Response {
            #[ruma_api(header = MAX_FORWARDS)]
            pub mf: Option<u64>,
        }
    }
}

pub mod g_man {
    use ruma_common::{
        api::{request, response, Metadata},
        metadata,
    };
    use serde::{Deserialize, Serialize};

    const METADATA: Metadata = metadata! {
        method: POST,
        rate_limited: false,
        authentication: None,
        history: {
            1.0 => "/_glue/v1/man",
        }
    };

    glue_struct! { reqm;
        #[request]
        pub struct Request {}
    }

    glue_struct! { respm;
        #[response]
        #[ruma_api(manual_body_serde)]
        pub struct Response {
            pub s: String,
        }
    }

    /// The hand-written body serde: `{"wrap": <s>}`.
    #[derive(Serialize, Deserialize)]
    struct Wrapped {
        wrap: String,
    }

    impl Serialize for ResponseBody {
        fn serialize<S: serde::Serializer>(&self, serializer: S) -> Result<S::Ok, S::Error> {
            Wrapped { wrap: self.s.clone() }.serialize(serializer)
        }
    }

    impl<'de> Deserialize<'de> for ResponseBody {
        fn deserialize<D: serde::Deserializer<'de>>(deserializer: D) -> Result<Self, D::Error> {
            Wrapped::deserialize(deserializer).map(|w| ResponseBody { s: w.wrap })
        }
    }
}

// ---------------------------------------------------------------- descriptors from the tokens

#[derive(Clone, Debug, PartialEq, Eq)]
pub enum Kind {
    Path,
    Query,
    QueryAll,
    Header { name: String, optional: bool },
    Body,
    Newtype,
    Raw,
}

#[derive(Clone, Debug)]
pub struct FieldDesc {
    pub name: String,
    pub kind: Kind,
    /// the name of the codec in `Ruma.Glue.Ty`
    pub tag: &'static str,
}

#[derive(Clone, Debug)]
pub struct StructDesc {
    pub fields: Vec<FieldDesc>,
    /// responses: `status = ..`
    pub status: u16,
    /// responses: `manual_body_serde`
    pub manual: bool,
}

fn squeeze(s: &str) -> String {
    s.chars().filter(|c| !c.is_whitespace()).collect()
}

/// `IF_MATCH` → `if-match`: the `http::header` constants are named after the header.
fn header_const_name(ident: &str) -> String {
    let n = ident.to_ascii_lowercase().replace('_', "-");
    assert!(http::header::HeaderName::from_bytes(n.as_bytes()).is_ok(), "header constant {ident}");
    n
}

fn describe(tokens: (Vec<String>, Vec<(&'static str, Vec<String>, String)>)) -> StructDesc {
    let (outer, fields) = tokens;
    let outer: Vec<String> = outer.iter().map(|s| squeeze(s)).collect();
    let mut status = 200u16;
    let mut manual = false;
    for o in &outer {
        if let Some(i) = o.find("status=") {
            let ident: String = o[i + 7..].chars().take_while(|c| c.is_ascii_alphanumeric() || *c == '_').collect();
            status = match ident.as_str() {
                "OK" => 200,
                "CREATED" => 201,
                "ACCEPTED" => 202,
                other => panic!("status constant {other} not known to the harness"),
            };
        }
        if o.contains("manual_body_serde") {
            manual = true;
        }
    }
    let fields = fields
        .into_iter()
        .map(|(name, attrs, ty)| {
            let attrs: Vec<String> = attrs.iter().map(|s| squeeze(s)).collect();
            let ty = squeeze(&ty);
            let api: Vec<&String> = attrs.iter().filter(|a| a.starts_with("ruma_api(")).collect();
            assert!(api.len() <= 1);
            let serde: String = attrs.iter().filter(|a| a.starts_with("serde(")).cloned().collect();
            let skip = serde.contains("skip_serializing_if");
            let default = serde.contains("default");
            let optional = ty.starts_with("Option<");
            let kind = match api.first().map(|s| &s["ruma_api(".len()..s.len() - 1]) {
                None => Kind::Body,
                Some("path") => Kind::Path,
                Some("query") => Kind::Query,
                Some("query_all") => Kind::QueryAll,
                Some("body") => Kind::Newtype,
                Some("raw_body") => Kind::Raw,
                Some(h) if h.starts_with("header=") => Kind::Header { name: header_const_name(&h[7..]), optional },
                Some(other) => panic!("field attribute {other} not known to the harness"),
            };
            let tag = match (&kind, ty.as_str()) {
                (Kind::Path, "String") => "str",
                (Kind::Query, "String") => "qStr",
                (Kind::Query, "Option<String>") => "qOptStr",
                (Kind::Query, "Vec<String>") if skip && default => "qVecStr",
                (Kind::Query, "Option<js_int::UInt>") if skip => "qOptUInt",
                (Kind::QueryAll, "BTreeMap<String,String>") => "qaMapStr",
                (Kind::Header { .. }, "String" | "Option<String>") => "str",
                (Kind::Header { .. }, "u64" | "Option<u64>") => "u64",
                (Kind::Body, "String") => "bStr",
                (Kind::Body, "Option<String>") if skip => "bOptStr",
                (Kind::Body, "Option<String>") => "bOptStrNull",
                (Kind::Body, "Vec<String>") if skip && default => "bVecStr",
                (Kind::Body, "js_int::UInt") => "bUInt",
                (Kind::Newtype, "Data") => "nData",
                (Kind::Raw, "Vec<u8>") => "raw",
                (k, t) => panic!("no codec for a {k:?} field of type {t} with {serde:?}"),
            };
            FieldDesc { name: name.to_owned(), kind, tag }
        })
        .collect();
    StructDesc { fields, status, manual }
}

// ---------------------------------------------------------------- token trees for JSON

/// JSON as the line protocol carries it: object members in the order given, duplicates kept.
#[derive(Clone, Debug, PartialEq)]
pub enum JT {
    Null,
    Bool(bool),
    Int(i128),
    Float,
    Str(String),
    Arr(Vec<JT>),
    Obj(Vec<(String, JT)>),
}

impl JT {
    pub fn parse<'a>(t: &mut impl Iterator<Item = &'a str>) -> Option<JT> {
        let tok = t.next()?;
        let (head, rest) = tok.split_at(1);
        Some(match head {
            "n" if rest.is_empty() => JT::Null,
            "t" if rest.is_empty() => JT::Bool(true),
            "f" if rest.is_empty() => JT::Bool(false),
            "x" if rest.is_empty() => JT::Float,
            "i" => JT::Int(rest.parse().ok()?),
            "s" => JT::Str(h_util::unhex_str(rest)?),
            "a" => {
                let n: usize = rest.parse().ok()?;
                JT::Arr((0..n).map(|_| JT::parse(t)).collect::<Option<_>>()?)
            }
            "o" => {
                let n: usize = rest.parse().ok()?;
                let mut v = Vec::new();
                for _ in 0..n {
                    let k = h_util::unhex_str(t.next()?.strip_prefix('s')?)?;
                    v.push((k, JT::parse(t)?));
                }
                JT::Obj(v)
            }
            _ => return None,
        })
    }

    pub fn toks(&self, out: &mut String) {
        match self {
            JT::Null => out.push('n'),
            JT::Bool(true) => out.push('t'),
            JT::Bool(false) => out.push('f'),
            JT::Float => out.push('x'),
            JT::Int(i) => out.push_str(&format!("i{i}")),
            JT::Str(s) => out.push_str(&h_util::stok(s)),
            JT::Arr(a) => {
                out.push_str(&format!("a{}", a.len()));
                for x in a {
                    out.push(' ');
                    x.toks(out);
                }
            }
            JT::Obj(o) => {
                out.push_str(&format!("o{}", o.len()));
                for (k, x) in o {
                    out.push(' ');
                    out.push_str(&h_util::stok(k));
                    out.push(' ');
                    x.toks(out);
                }
            }
        }
    }

    /// The compact JSON text of the tree (the generator's claim "this text denotes this tree").
    pub fn text(&self, out: &mut String) {
        match self {
            JT::Null => out.push_str("null"),
            JT::Bool(b) => out.push_str(if *b { "true" } else { "false" }),
            JT::Float => out.push_str("0.5"),
            JT::Int(i) => out.push_str(&i.to_string()),
            JT::Str(s) => out.push_str(&serde_json::to_string(s).unwrap()),
            JT::Arr(a) => {
                out.push('[');
                for (i, x) in a.iter().enumerate() {
                    if i > 0 {
                        out.push(',');
                    }
                    x.text(out);
                }
                out.push(']');
            }
            JT::Obj(o) => {
                out.push('{');
                for (i, (k, x)) in o.iter().enumerate() {
                    if i > 0 {
                        out.push(',');
                    }
                    out.push_str(&serde_json::to_string(k).unwrap());
                    out.push(':');
                    x.text(out);
                }
                out.push('}');
            }
        }
    }

    pub fn to_value(&self) -> Value {
        match self {
            JT::Null => Value::Null,
            JT::Bool(b) => Value::Bool(*b),
            JT::Float => serde_json::json!(0.5),
            JT::Int(i) => {
                if let Ok(u) = u64::try_from(*i) {
                    Value::from(u)
                } else if let Ok(s) = i64::try_from(*i) {
                    Value::from(s)
                } else {
                    serde_json::json!(0.5)
                }
            }
            JT::Str(s) => Value::String(s.clone()),
            JT::Arr(a) => Value::Array(a.iter().map(JT::to_value).collect()),
            JT::Obj(o) => Value::Object(o.iter().map(|(k, v)| (k.clone(), v.to_value())).collect()),
        }
    }

    pub fn from_value(v: &Value) -> JT {
        match v {
            Value::Null => JT::Null,
            Value::Bool(b) => JT::Bool(*b),
            Value::Number(n) => match (n.as_u64(), n.as_i64()) {
                (Some(u), _) => JT::Int(u as i128),
                (_, Some(i)) => JT::Int(i as i128),
                _ => JT::Float,
            },
            Value::String(s) => JT::Str(s.clone()),
            Value::Array(a) => JT::Arr(a.iter().map(JT::from_value).collect()),
            Value::Object(o) => JT::Obj(o.iter().map(|(k, v)| (k.clone(), JT::from_value(v))).collect()),
        }
    }
}

// ---------------------------------------------------------------- values: wire forms by kind

/// A request or response value as the model has it: the wire form of every field, by kind.
#[derive(Clone, Debug, Default, PartialEq)]
pub struct GVal {
    pub path: Vec<String>,
    pub query: Vec<Vec<String>>,
    pub query_all: Vec<Vec<(String, String)>>,
    pub header: Vec<Option<String>>,
    pub body: Vec<Option<JT>>,
    /// newtype body / whole body under `manual_body_serde`
    pub whole: Vec<JT>,
    pub raw: Vec<Vec<u8>>,
}

fn count<'a>(t: &mut impl Iterator<Item = &'a str>, p: char) -> Option<usize> {
    t.next()?.strip_prefix(p)?.parse().ok()
}
fn string<'a>(t: &mut impl Iterator<Item = &'a str>) -> Option<String> {
    h_util::unhex_str(t.next()?.strip_prefix('s')?)
}
fn bytes<'a>(t: &mut impl Iterator<Item = &'a str>) -> Option<Vec<u8>> {
    h_util::unhex(t.next()?.strip_prefix('s')?)
}
fn btok(b: &[u8]) -> String {
    format!("s{}", h_util::hex(b))
}

impl GVal {
    /// `P a<n> s.. Q a<n> (a<k> s..).. A a<n> (a<k> (s s)..).. H a<n> (n|s).. B a<n> (-|+ json).. J a<n> json.. R a<n> s..`
    pub fn parse<'a>(t: &mut impl Iterator<Item = &'a str>) -> Option<GVal> {
        let mut v = GVal::default();
        (t.next()? == "P").then_some(())?;
        for _ in 0..count(t, 'a')? {
            v.path.push(string(t)?);
        }
        (t.next()? == "Q").then_some(())?;
        for _ in 0..count(t, 'a')? {
            let k = count(t, 'a')?;
            v.query.push((0..k).map(|_| string(t)).collect::<Option<_>>()?);
        }
        (t.next()? == "A").then_some(())?;
        for _ in 0..count(t, 'a')? {
            let k = count(t, 'a')?;
            v.query_all.push((0..k).map(|_| Some((string(t)?, string(t)?))).collect::<Option<_>>()?);
        }
        (t.next()? == "H").then_some(())?;
        for _ in 0..count(t, 'a')? {
            let tok = t.next()?;
            v.header.push(if tok == "n" { None } else { Some(h_util::unhex_str(tok.strip_prefix('s')?)?) });
        }
        (t.next()? == "B").then_some(())?;
        for _ in 0..count(t, 'a')? {
            v.body.push(match t.next()? {
                "-" => None,
                "+" => Some(JT::parse(t)?),
                _ => return None,
            });
        }
        (t.next()? == "J").then_some(())?;
        for _ in 0..count(t, 'a')? {
            v.whole.push(JT::parse(t)?);
        }
        (t.next()? == "R").then_some(())?;
        for _ in 0..count(t, 'a')? {
            v.raw.push(bytes(t)?);
        }
        Some(v)
    }

    pub fn toks(&self) -> String {
        let mut s = format!("P a{}", self.path.len());
        for x in &self.path {
            s.push_str(&format!(" {}", h_util::stok(x)));
        }
        s.push_str(&format!(" Q a{}", self.query.len()));
        for vs in &self.query {
            s.push_str(&format!(" a{}", vs.len()));
            for x in vs {
                s.push_str(&format!(" {}", h_util::stok(x)));
            }
        }
        s.push_str(&format!(" A a{}", self.query_all.len()));
        for ps in &self.query_all {
            s.push_str(&format!(" a{}", ps.len()));
            for (k, x) in ps {
                s.push_str(&format!(" {} {}", h_util::stok(k), h_util::stok(x)));
            }
        }
        s.push_str(&format!(" H a{}", self.header.len()));
        for h in &self.header {
            match h {
                Some(x) => s.push_str(&format!(" {}", h_util::stok(x))),
                None => s.push_str(" n"),
            }
        }
        s.push_str(&format!(" B a{}", self.body.len()));
        for b in &self.body {
            match b {
                Some(j) => {
                    s.push_str(" + ");
                    j.toks(&mut s);
                }
                None => s.push_str(" -"),
            }
        }
        s.push_str(&format!(" J a{}", self.whole.len()));
        for j in &self.whole {
            s.push(' ');
            j.toks(&mut s);
        }
        s.push_str(&format!(" R a{}", self.raw.len()));
        for r in &self.raw {
            s.push_str(&format!(" {}", btok(r)));
        }
        s
    }
}

/// Wire form → the field's contents (as the JSON the `Glue` impl of its type reads). `None`: the
/// wire form is not that of any contents of the type (a generator bug).
fn contents(f: &FieldDesc, v: &GVal, cur: &mut Cursors, manual: bool) -> Option<Value> {
    Some(match (&f.kind, f.tag) {
        (Kind::Path, _) => Value::String(v.path.get(cur.take(0))?.clone()),
        (Kind::Query, tag) => {
            let vals = v.query.get(cur.take(1))?;
            match (tag, vals.as_slice()) {
                ("qStr", [s]) => Value::String(s.clone()),
                ("qOptStr", []) => Value::Null,
                ("qOptStr", [s]) => Value::String(s.clone()),
                ("qVecStr", l) => Value::Array(l.iter().map(|s| Value::String(s.clone())).collect()),
                ("qOptUInt", []) => Value::Null,
                ("qOptUInt", [s]) => {
                    let n: u64 = s.parse().ok()?;
                    (n.to_string() == *s).then_some(())?;
                    Value::from(n)
                }
                _ => return None,
            }
        }
        (Kind::QueryAll, _) => {
            let ps = v.query_all.get(cur.take(2))?;
            let m: BTreeMap<&String, &String> = ps.iter().map(|(k, x)| (k, x)).collect();
            (m.len() == ps.len() && m.iter().map(|(k, x)| ((*k).clone(), (*x).clone())).eq(ps.iter().cloned())).then_some(())?;
            Value::Object(ps.iter().map(|(k, x)| (k.clone(), Value::String(x.clone()))).collect())
        }
        (Kind::Header { optional, .. }, tag) => match (v.header.get(cur.take(3))?, tag) {
            (None, _) if *optional => Value::Null,
            (None, _) => return None,
            (Some(s), "str") => Value::String(s.clone()),
            (Some(s), "u64") => {
                let n: u64 = s.parse().ok()?;
                (n.to_string() == *s).then_some(())?;
                Value::from(n)
            }
            _ => return None,
        },
        (Kind::Body, _) if manual => return None,
        (Kind::Body, tag) => match (tag, v.body.get(cur.take(4))?) {
            ("bStr", Some(JT::Str(s))) => Value::String(s.clone()),
            ("bOptStr", None) => Value::Null,
            ("bOptStr", Some(JT::Str(s))) => Value::String(s.clone()),
            ("bOptStrNull", Some(JT::Null)) => Value::Null,
            ("bOptStrNull", Some(JT::Str(s))) => Value::String(s.clone()),
            ("bVecStr", None) => Value::Array(vec![]),
            ("bVecStr", Some(JT::Arr(a))) if !a.is_empty() && a.iter().all(|x| matches!(x, JT::Str(_))) => JT::Arr(a.clone()).to_value(),
            ("bUInt", Some(JT::Int(i))) if *i >= 0 && *i < (1 << 53) => Value::from(*i as u64),
            _ => return None,
        },
        (Kind::Newtype, _) => {
            let j = v.whole.get(cur.take(5))?;
            // the wire form of a `Data`: `x` then, if non-empty, `ys`
            let d = Data::from_j(&j.to_value())?;
            (JT::from_value(&d.to_j()) == *j).then_some(())?;
            j.to_value()
        }
        (Kind::Raw, _) => Value::String(h_util::hex(v.raw.get(cur.take(6))?)),
    })
}

#[derive(Default)]
struct Cursors([usize; 7]);
impl Cursors {
    fn take(&mut self, i: usize) -> usize {
        self.0[i] += 1;
        self.0[i] - 1
    }
}

/// The wire form of every field of a typed value, by kind.
fn wires(d: &StructDesc, contents: &[Value]) -> GVal {
    let mut v = GVal::default();
    for (f, c) in d.fields.iter().zip(contents) {
        match (&f.kind, f.tag) {
            (Kind::Path, _) => v.path.push(c.as_str().unwrap().to_owned()),
            (Kind::Query, _) => v.query.push(match c {
                Value::Null => vec![],
                Value::String(s) => vec![s.clone()],
                Value::Number(n) => vec![n.to_string()],
                Value::Array(a) => a.iter().map(|x| x.as_str().unwrap().to_owned()).collect(),
                _ => unreachable!(),
            }),
            (Kind::QueryAll, _) => v.query_all.push(c.as_object().unwrap().iter().map(|(k, x)| (k.clone(), x.as_str().unwrap().to_owned())).collect()),
            (Kind::Header { .. }, _) => v.header.push(match c {
                Value::Null => None,
                Value::String(s) => Some(s.clone()),
                Value::Number(n) => Some(n.to_string()),
                _ => unreachable!(),
            }),
            (Kind::Body, _) if d.manual => {}
            (Kind::Body, tag) => v.body.push(match (tag, c) {
                ("bOptStr", Value::Null) => None,
                ("bVecStr", Value::Array(a)) if a.is_empty() => None,
                (_, c) => Some(JT::from_value(c)),
            }),
            (Kind::Newtype, _) => v.whole.push(JT::from_value(c)),
            (Kind::Raw, _) => v.raw.push(h_util::unhex(c.as_str().unwrap()).unwrap()),
        }
    }
    if d.manual {
        // `{"wrap": <s>}`: the wire form of the hand-written body serde of `g_man`
        let s = d.fields.iter().zip(contents).find(|(f, _)| f.kind == Kind::Body).map(|(_, c)| c.clone()).unwrap();
        v.whole.push(JT::Obj(vec![("wrap".to_owned(), JT::from_value(&s))]));
    }
    v
}

fn contents_all(d: &StructDesc, v: &GVal) -> Option<Vec<Value>> {
    let mut cur = Cursors::default();
    let mut out = Vec::new();
    for f in &d.fields {
        if d.manual && f.kind == Kind::Body {
            // `{"wrap": <s>}`
            match v.whole.first()? {
                JT::Obj(o) if o.len() == 1 && o[0].0 == "wrap" => out.push(o[0].1.to_value()),
                _ => return None,
            }
            continue;
        }
        out.push(contents(f, v, &mut cur, d.manual)?);
    }
    // every wire form was used
    let used = [v.path.len(), v.query.len(), v.query_all.len(), v.header.len(), v.body.len(), if d.manual { 0 } else { v.whole.len() }, v.raw.len()];
    (cur.0 == used).then_some(out)
}

// ---------------------------------------------------------------- the endpoints

/// How the receiving side answered.
pub enum Recv {
    Ok(Vec<Value>),
    Method,
    Deser,
    Server,
}

pub struct GlueEp {
    pub name: &'static str,
    pub meta: Metadata,
    pub req: StructDesc,
    pub resp: StructDesc,
    pub send: fn(&[Value], &[MatrixVersion], SendAccessToken<'_>) -> Option<(Result<Msg, String>, Vec<String>)>,
    pub recv: fn(http::Request<Vec<u8>>, &[String]) -> Recv,
    pub send_resp: fn(&[Value]) -> Option<(Result<Msg, String>, Vec<String>)>,
    pub recv_resp: fn(http::Response<Vec<u8>>) -> Recv,
}

macro_rules! glue_ep {
    ($m:ident) => {
        GlueEp {
            name: concat!("glue::", stringify!($m)),
            meta: <$m::Request as OutgoingRequest>::METADATA,
            req: describe($m::reqm::tokens()),
            resp: describe($m::respm::tokens()),
            send: |vals, versions, sat| {
                let r = $m::reqm::build(vals)?;
                let debug1 = format!("{r:?}");
                let args: Vec<String> = describe($m::reqm::tokens())
                    .fields
                    .iter()
                    .zip(vals)
                    .filter(|(f, _)| f.kind == Kind::Path)
                    .map(|(_, v)| v.as_str().unwrap().to_owned())
                    .collect();
                let mut t3 = Vec::new();
                Some(match r.try_into_http_request::<Vec<u8>>(BASE_URL, sat, versions) {
                    Err(e) => (Err(into_http_error_class(&e)), t3),
                    Ok(h1) => {
                        check_request_arrival::<$m::Request>(&debug1, &h1, Some(&args), versions, sat, &mut t3);
                        (Ok(req_msg(&h1)), t3)
                    }
                })
            },
            recv: |req, args| match <$m::Request as IncomingRequest>::try_from_http_request(req, args) {
                Ok(r) => Recv::Ok($m::reqm::show(&r)),
                Err(FromHttpRequestError::MethodMismatch { .. }) => Recv::Method,
                Err(_) => Recv::Deser,
            },
            send_resp: |vals| {
                let p = $m::respm::build(vals)?;
                let d = format!("{p:?}");
                let mut out = Rt { accepted: true, ..Default::default() };
                check_response_value(p, &d, &mut out);
                Some((out.first?, out.t3))
            },
            recv_resp: |resp| match <$m::Response as IncomingResponse>::try_from_http_response(resp) {
                Ok(p) => Recv::Ok($m::respm::show(&p)),
                Err(ruma_common::api::error::FromHttpResponseError::Server(_)) => Recv::Server,
                Err(_) => Recv::Deser,
            },
        }
    };
}

pub fn glue_eps() -> &'static Vec<GlueEp> {
    static G: std::sync::OnceLock<Vec<GlueEp>> = std::sync::OnceLock::new();
    G.get_or_init(|| vec![glue_ep!(g_q), glue_ep!(g_body), glue_ep!(g_raw), glue_ep!(g_new), glue_ep!(g_none), glue_ep!(g_del), glue_ep!(g_man)])
}

/// The glue endpoints also take part in the metadata extraction and the version sweeps.
pub fn push_all(eps: &mut Vec<crate::registry::Ep>) {
    use crate::registry::ep;
    eps.push(ep::<g_q::Request, g_q::Response>("glue::g_q", true));
    eps.push(ep::<g_body::Request, g_body::Response>("glue::g_body", true));
    eps.push(ep::<g_raw::Request, g_raw::Response>("glue::g_raw", true));
    eps.push(ep::<g_new::Request, g_new::Response>("glue::g_new", true));
    eps.push(ep::<g_none::Request, g_none::Response>("glue::g_none", true));
    eps.push(ep::<g_del::Request, g_del::Response>("glue::g_del", true));
    eps.push(ep::<g_man::Request, g_man::Response>("glue::g_man", true));
}

// ---------------------------------------------------------------- answers

fn msg_answer(first: &Result<Msg, String>, request: bool) -> String {
    match first {
        Err(c) => format!("err {c}"),
        Ok(m) => {
            let mut s = if request { format!("ok {} {}", h_util::stok(&m.line), h_util::stok(&m.uri)) } else { format!("ok i{}", m.line) };
            s.push_str(&format!(" a{}", m.headers.len()));
            for (k, v) in &m.headers {
                s.push_str(&format!(" {} {}", h_util::stok(k), btok(v)));
            }
            s.push_str(&format!(" {}", btok(&m.body)));
            s
        }
    }
}

/// `c16.glue.req <gid> V <kind> s<token> <value>`
pub fn run_req(g: &GlueEp, v: &GVal, versions: &[MatrixVersion], sat: SendAccessToken<'_>) -> Option<h_lib::Outcome> {
    let vals = contents_all(&g.req, v)?;
    let (first, t3) = (g.send)(&vals, versions, sat)?;
    Some(h_lib::Outcome { imp: msg_answer(&first, true), t3 })
}

/// `c16.glue.resp <gid> <value>`
pub fn run_resp(g: &GlueEp, v: &GVal) -> Option<h_lib::Outcome> {
    let vals = contents_all(&g.resp, v)?;
    let (first, t3) = (g.send_resp)(&vals)?;
    Some(h_lib::Outcome { imp: msg_answer(&first, false), t3 })
}

/// The body of a received message: `e` nothing, `j <json>` the compact text of the tree,
/// `g s<hex>` bytes that are not JSON (checked here).
pub fn parse_body<'a>(t: &mut impl Iterator<Item = &'a str>) -> Option<Vec<u8>> {
    Some(match t.next()? {
        "e" => vec![],
        "j" => {
            let mut s = String::new();
            JT::parse(t)?.text(&mut s);
            s.into_bytes()
        }
        "g" => {
            let b = bytes(t)?;
            (!b.is_empty() && serde_json::from_slice::<Value>(&b).is_err()).then_some(())?;
            b
        }
        _ => return None,
    })
}

fn recv_answer(d: &StructDesc, r: Recv) -> String {
    match r {
        Recv::Ok(vals) => format!("ok {}", wires(d, &vals).toks()),
        Recv::Method => "err method".into(),
        Recv::Deser => "err deser".into(),
        Recv::Server => "err server".into(),
    }
}

/// `c16.glue.in <gid> s<method> a<n> s<arg>.. s<query> a<k> (s<name> s<value>).. <body>`
pub fn run_in<'a>(g: &GlueEp, t: &mut impl Iterator<Item = &'a str>) -> Option<h_lib::Outcome> {
    let method = string(t)?;
    let n = count(t, 'a')?;
    let args: Vec<String> = (0..n).map(|_| string(t)).collect::<Option<_>>()?;
    let query = string(t)?;
    let k = count(t, 'a')?;
    let headers: Vec<(String, Vec<u8>)> = (0..k).map(|_| Some((string(t)?, bytes(t)?))).collect::<Option<_>>()?;
    let body = parse_body(t)?;
    t.next().is_none().then_some(())?;
    let uri = if query.is_empty() { "https://seed.invalid/x".to_owned() } else { format!("https://seed.invalid/x?{query}") };
    let mut b = http::Request::builder().method(http::Method::from_bytes(method.as_bytes()).ok()?).uri(uri);
    for (name, value) in &headers {
        b = b.header(http::header::HeaderName::from_bytes(name.as_bytes()).ok()?, http::HeaderValue::from_bytes(value).ok()?);
    }
    let req = b.body(body).ok()?;
    // the model is given the query as written: it must be what `http::Uri` hands out
    (req.uri().query().unwrap_or("") == query).then_some(())?;
    Some(h_lib::Outcome::new(recv_answer(&g.req, (g.recv)(req, &args))))
}

/// `c16.glue.rin <gid> i<status> a<k> (s<name> s<value>).. <body>`
pub fn run_rin<'a>(g: &GlueEp, t: &mut impl Iterator<Item = &'a str>) -> Option<h_lib::Outcome> {
    let status: u16 = t.next()?.strip_prefix('i')?.parse().ok()?;
    let k = count(t, 'a')?;
    let headers: Vec<(String, Vec<u8>)> = (0..k).map(|_| Some((string(t)?, bytes(t)?))).collect::<Option<_>>()?;
    let body = parse_body(t)?;
    t.next().is_none().then_some(())?;
    let mut b = http::Response::builder().status(status);
    for (name, value) in &headers {
        b = b.header(http::header::HeaderName::from_bytes(name.as_bytes()).ok()?, http::HeaderValue::from_bytes(value).ok()?);
    }
    let resp = b.body(body).ok()?;
    Some(h_lib::Outcome::new(recv_answer(&g.resp, (g.recv_resp)(resp))))
}

// ---------------------------------------------------------------- T1: the descriptors, as Lean

fn lean_bytes(s: &str) -> String {
    let b: Vec<String> = s.bytes().map(|b| b.to_string()).collect();
    format!("[{}]", b.join(","))
}

fn lean_field(f: &FieldDesc, manual: bool, request: bool) -> String {
    let kind = match &f.kind {
        Kind::Path => format!(".path Ty.{}", f.tag),
        Kind::Query => format!(".query Ty.{}", f.tag),
        Kind::QueryAll => format!(".queryAll Ty.{}", f.tag),
        Kind::Header { name, optional } => format!(".header {} {} Ty.{}", lean_bytes(name), optional, f.tag),
        Kind::Body => format!(".body Ty.{}", f.tag),
        Kind::Newtype => format!(".newtypeBody Ty.{}", f.tag),
        Kind::Raw => ".rawBody".to_owned(),
    };
    let _ = (manual, request);
    format!("⟨{}, {kind}⟩ /- {} -/", lean_bytes(&f.name), f.name)
}

/// Appended to `Generated/C16.lean`: `glueReq`, `glueResp`. `hist_index(name)` = the endpoint's
/// index into `histories`.
pub fn extract(hist_index: &dyn Fn(&str) -> usize, scheme: &dyn Fn(&Metadata) -> &'static str) -> String {
    let mut s = String::new();
    s.push_str("\n/-- The synthetic endpoints of the glue correspondence, as `#[request]` sees them: computed from\nthe stringified tokens of the very struct definitions the macro expands. -/\n");
    s.push_str("def glueReq : List Ruma.Glue.ReqDesc := [\n");
    let eps = glue_eps();
    for (i, g) in eps.iter().enumerate() {
        let fields: Vec<String> = g.req.fields.iter().map(|f| lean_field(f, false, true)).collect();
        s.push_str(&format!(
            "  /- {} -/ ⟨{}, {}, h{}, [\n    {}]⟩{}\n",
            g.name,
            lean_bytes(g.meta.method.as_str()),
            scheme(&g.meta),
            hist_index(g.name),
            fields.join(",\n    "),
            if i + 1 == eps.len() { "" } else { "," }
        ));
    }
    s.push_str("]\n\n/-- …and as `#[response]` sees them. -/\ndef glueResp : List Ruma.Glue.RespDesc := [\n");
    for (i, g) in eps.iter().enumerate() {
        let fields: Vec<String> = g.resp.fields.iter().map(|f| lean_field(f, g.resp.manual, false)).collect();
        s.push_str(&format!(
            "  /- {} -/ ⟨{}, {}, [\n    {}]⟩{}\n",
            g.name,
            g.resp.status,
            if g.resp.manual { "some Ty.mWrap" } else { "none" },
            fields.join(",\n    "),
            if i + 1 == eps.len() { "" } else { "," }
        ));
    }
    s.push_str("]\n");
    s
}

pub fn unused(_: &dyn Fn(http::Response<Vec<u8>>) -> Msg) {
    let _ = resp_msg;
}
