//! Generators (every random choice from the given `Rng`) and the `probe` developer mode.
use h_lib::{h_util, stok, Req, Rng};
use ruma_common::api::SendAccessToken;
use serde_json::{json, Map, Value};

use crate::{
    hist_toks, pairs_toks,
    registry::{Hist, ReqSeed, RespSeed},
    seeds, strs_toks,
    synthetic::{K, SPECS},
    world,
};

/// Strings that exercise every delimiter the property names.
pub const NASTY: &[&str] = &[
    "a%41", "%", "%zz", "100%", "%2F", "%25", "a/b", "/", "//", "?q=1", "#frag", "a+b", "+", "a b", " ", "&=;", "a&b=c",
    "=", "é", "日本語", "\u{1F600}", ".", "..", "\t", "\u{7f}", "{x}", "<>", "`", "\"", "\\", "^|[]", "~", ":", ":a",
    "a:b", "!room:server.org", "@user:example.org", "$ev", "#alias:h", "a\u{0}b", "\u{80}", "\u{ffff}", "e\u{301}",
    "abc", "A-Z_a.z~0", "", "\n", ";", ",", "'", "(*)", "\u{10ffff}",
];

fn rand_char(rng: &mut Rng) -> char {
    match rng.below(10) {
        0..=3 => (0x20 + rng.below(0x5f) as u32) as u8 as char,
        4 => *rng.pick(&['/', '%', '?', '#', '+', '&', '=', ' ', ':', '"', '\\']),
        5 => char::from_u32(rng.below(0x20) as u32).unwrap(),
        6 => char::from_u32(0x80 + rng.below(0x700) as u32).unwrap(),
        7 => char::from_u32(0x4e00 + rng.below(0x1000) as u32).unwrap(),
        8 => char::from_u32(0x1f600 + rng.below(0x40) as u32).unwrap(),
        _ => *rng.pick(&['0', '4', '1', 'A', 'f', 'F', '%']),
    }
}

pub fn nasty(rng: &mut Rng) -> String {
    if rng.chance(1, 2) {
        (*rng.pick(NASTY)).to_owned()
    } else {
        let n = rng.below(8);
        (0..n).map(|_| rand_char(rng)).collect()
    }
}

/// A non-empty nasty string of visible ASCII without `:` (identifier localparts).
fn nasty_local(rng: &mut Rng) -> String {
    let n = 1 + rng.below(8);
    (0..n)
        .map(|_| loop {
            let c = if rng.chance(1, 3) { *rng.pick(&['/', '%', '?', '#', '+', '&', '=', '4', '1']) } else { (0x21 + rng.below(0x5e) as u32) as u8 as char };
            if c != ':' {
                break c;
            }
        })
        .collect()
}

fn nasty_nonempty(rng: &mut Rng) -> String {
    loop {
        let s = nasty(rng);
        if !s.is_empty() && !s.contains('\0') {
            return s;
        }
    }
}

const SERVERS: &[&str] = &["example.org", "matrix.org:8448", "1.2.3.4", "1.2.3.4:80", "[::1]", "[2001:db8::1]:8448", "a-b.c", "localhost"];

/// A value for the path placeholder `name` that the endpoint's typed field can accept.
pub fn path_arg(rng: &mut Rng, name: &str) -> String {
    let server = *rng.pick(SERVERS);
    match name {
        "room_id" => format!("!{}:{server}", nasty_nonempty(rng)),
        "user_id" => format!("@{}:{server}", nasty_local(rng)),
        "event_id" => format!("${}", nasty_nonempty(rng)),
        "room_alias" => format!("#{}:{server}", nasty_local(rng)),
        "room_id_or_alias" => {
            if rng.chance(1, 2) {
                format!("!{}:{server}", nasty_nonempty(rng))
            } else {
                format!("#{}:{server}", nasty_local(rng))
            }
        }
        "server_name" => server.to_owned(),
        "version" if rng.chance(1, 2) => rng.below(1000).to_string(),
        "kind" => (*rng.pick(&["override", "underride", "sender", "room", "content"])).to_owned(),
        "key_id" => format!("ed25519:{}", rng.below(100)),
        _ => nasty_nonempty(rng),
    }
}

/// A fixed acceptable value for the path placeholder `name` (cases whose request line must not
/// depend on the seed).
fn fixed_arg(name: &str) -> &'static str {
    match name {
        "server_name" => "example.org",
        "room_id" => "!r:example.org",
        "user_id" => "@u:example.org",
        "event_id" => "$e",
        _ => "abc",
    }
}

/// A JSON value for a required field, by the name of its Rust type (`$…` are the generator's
/// placeholders). Only a starting point: the seed is used if the real conversion accepts it.
fn sample_for(ty: &str) -> Value {
    let has = |s: &str| ty.contains(s);
    if ty.starts_with("Vec<") || ty.starts_with("&[") {
        json!([])
    } else if ty.starts_with("BTreeMap<") || ty.starts_with("Raw<") || ty.starts_with("Box<Raw") || has("JsonObject") {
        json!({})
    } else if has("UserId") {
        json!("$user")
    } else if has("RoomAliasId") {
        json!("$alias")
    } else if has("RoomId") || has("RoomOrAliasId") {
        json!("$room")
    } else if has("EventId") {
        json!("$event")
    } else if has("ServerName") {
        json!("$server")
    } else if has("MxcUri") {
        json!("mxc://example.org/abc")
    } else if ty == "bool" {
        json!(true)
    } else if has("UInt") || has("MilliSecondsSinceUnixEpoch") || ty == "u64" || has("Duration") {
        json!(1)
    } else if ty == "String" || ty.starts_with("Owned") || has("Box<str>") || has("Token") || has("Secret") {
        json!("$s")
    } else {
        json!({})
    }
}

/// (query string, JSON body text) with a value for every required query / body field.
fn auto_seed(st: &crate::srcdesc::SStruct) -> (String, String) {
    use crate::srcdesc::SKind;
    let mut q: Vec<String> = Vec::new();
    let mut body = Map::new();
    for f in &st.fields {
        if f.optional || f.default {
            continue;
        }
        let v = sample_for(&f.ty);
        match f.kind {
            SKind::Query => match v {
                Value::String(s) => q.push(format!("{}={s}", f.name)),
                Value::Bool(_) | Value::Number(_) => q.push(format!("{}={v}", f.name)),
                _ => {}
            },
            SKind::Body => {
                body.insert(f.name.clone(), v);
            }
            _ => {}
        }
    }
    (q.join("&"), Value::Object(body).to_string())
}

fn mask(rng: &mut Rng) -> u32 {
    match rng.below(6) {
        0 => 0,
        1 => 1 << rng.below(15),
        2 => (1 << rng.below(16)) - 1,
        3 => (1 << rng.below(15)) | (1 << rng.below(15)),
        _ => rng.below(1 << 15) as u32,
    }
}

fn versions_tok(rng: &mut Rng) -> String {
    if rng.chance(1, 6) {
        // explicit list: any order, duplicates allowed
        let n = rng.below(6);
        let mut s = format!("vl{n}");
        for _ in 0..n {
            s.push_str(&format!(" i{}", rng.below(15)));
        }
        s
    } else {
        format!("vm{}", mask(rng))
    }
}

// ---- random histories

const LIT: &[&str] = &["_matrix", "client", "v1", "v3", "r0", "unstable", "org.example.msc1", "a.b", "x", "a:b", "Z_9", "~", "-"];

fn rand_path(rng: &mut Rng, names: &[String]) -> String {
    // literals interleaved with the placeholders in order
    let mut p = String::new();
    let mut k = 0;
    let total = names.len() + 1 + rng.below(3);
    for i in 0..total {
        p.push('/');
        let remaining_slots = total - i;
        let need = names.len() - k;
        if need > 0 && (need == remaining_slots || rng.chance(1, 2)) {
            p.push_str(&names[k]);
            k += 1;
        } else {
            p.push_str(*rng.pick(LIT));
        }
    }
    p
}

/// A random history; mostly satisfying the invariants of `VersionHistory::new`, sometimes
/// violating one of them.
pub fn rand_hist(rng: &mut Rng, allow_invalid: bool) -> Hist {
    let names: Vec<String> = (0..rng.below(4)).map(|i| if rng.chance(1, 12) { ":".to_owned() } else { format!(":{}{}", rng.pick(&["a", "room_id", "k_1"]), i) }).collect();
    let nu = *rng.pick(&[0usize, 0, 1, 1, 2, 3]);
    let ns = *rng.pick(&[0usize, 1, 1, 2, 2, 3, 4]);
    let mut h = Hist { unstable: (0..nu).map(|_| rand_path(rng, &names)).collect(), stable: vec![], deprecated: None, removed: None };
    let mut vs: Vec<usize> = (0..15).collect();
    rng.shuffle(&mut vs);
    let mut vs: Vec<usize> = vs.into_iter().take(ns).collect();
    vs.sort();
    for v in vs {
        h.stable.push((v, rand_path(rng, &names)));
    }
    if nu == 0 && ns == 0 {
        h.unstable.push(rand_path(rng, &names));
    }
    if let Some(last) = h.stable.last().map(|x| x.0) {
        if rng.chance(1, 2) {
            let d = if last == 0 && rng.chance(1, 2) { 0 } else { last + 1 + rng.below(3) };
            if d < 15 {
                h.deprecated = Some(d);
                if rng.chance(2, 3) {
                    let r = d + 1 + rng.below(3);
                    if r < 15 {
                        h.removed = Some(r);
                    }
                }
            }
        }
    }
    if allow_invalid && rng.chance(1, 3) {
        match rng.below(9) {
            0 => h.stable.reverse(),
            1 => {
                if let Some(e) = h.stable.first().cloned() {
                    h.stable.insert(0, e);
                }
            }
            2 => h.deprecated = h.stable.last().map(|x| x.0),
            3 => h.deprecated = Some(rng.below(15)),
            4 => h.removed = Some(rng.below(15)),
            5 => {
                h.removed = h.deprecated;
            }
            6 => {
                let other: Vec<String> = names.iter().rev().cloned().chain(std::iter::once(":extra".to_owned())).take(rng.below(names.len() + 2)).collect();
                let p = rand_path(rng, &other);
                if rng.chance(1, 2) {
                    h.unstable.push(p)
                } else {
                    h.stable.push((14, p))
                }
            }
            7 => {
                let bad = *rng.pick(&[" ", "\u{7f}", "é", "\t"]);
                if let Some(p) = h.unstable.first_mut() {
                    p.push_str(bad);
                } else if let Some(p) = h.stable.first_mut() {
                    p.1.push_str(bad);
                }
            }
            _ => {
                h.unstable.clear();
                h.stable.clear();
            }
        }
    }
    h
}

fn placeholder_count(h: &Hist) -> usize {
    crate::placeholders(h).len()
}

const BASES: &[&str] = &["https://example.org", "https://example.org/", "http://localhost:8008", "https://h.example/base", "https://h.example/base/", ""];
const QUERIES: &[&str] = &["", "", "a=b", "a=b&c=d%20e", "x=%2F"];

// ---- X-Matrix

const KEYS: &[&str] = &["ed25519:1", "ed25519:abc", "ed25519:a_b", "ed25519:key_1", "ed25519:0", "curve25519:AAAA"];

fn rand_sig(rng: &mut Rng) -> String {
    let n = *rng.pick(&[0usize, 1, 2, 3, 4, 32, 64]);
    let bytes: Vec<u8> = (0..n).map(|_| rng.below(256) as u8).collect();
    ruma_common::serde::Base64::<ruma_common::serde::base64::Standard, _>::new(bytes).encode()
}

fn quote(s: &str) -> String {
    format!("\"{}\"", s.replace('\\', "\\\\").replace('"', "\\\""))
}

fn is_token(s: &str) -> bool {
    !s.is_empty() && s.bytes().all(ruma_common::http_headers::is_tchar)
}

/// An `Authorization` header text in the grammar `Display` writes (one challenge, no optional
/// whitespace), with the parameters in random order / case, sometimes duplicated, missing,
/// unknown, needlessly quoted or escaped — or structurally broken.
fn rand_xmatrix_text(rng: &mut Rng) -> String {
    let origin = *rng.pick(SERVERS);
    let dest = *rng.pick(SERVERS);
    let key = *rng.pick(KEYS);
    let sig = rand_sig(rng);
    let mut params: Vec<(String, String)> = vec![("origin".into(), origin.into()), ("key".into(), key.into()), ("sig".into(), sig)];
    if rng.chance(3, 4) {
        params.push(("destination".into(), dest.into()));
    }
    match rng.below(10) {
        0 => {
            let i = rng.below(params.len());
            params.remove(i);
        }
        1 => {
            let i = rng.below(params.len());
            let p = params[i].clone();
            params.push(p);
        }
        2 => params.push(("extra".into(), "x y".into())),
        3 => params.push(("x-unknown".into(), "tok".into())),
        _ => {}
    }
    rng.shuffle(&mut params);
    let mut s = String::from(*rng.pick(&["X-Matrix", "X-Matrix", "x-matrix", "X-MATRIX", "Bearer", "XMatrix"]));
    s.push(' ');
    let mut first = true;
    for (k, v) in params {
        if !first {
            s.push(',');
        }
        first = false;
        let k = match rng.below(6) {
            0 => k.to_uppercase(),
            1 => {
                let mut c = k.chars();
                c.next().map(|f| f.to_uppercase().collect::<String>() + c.as_str()).unwrap_or_default()
            }
            _ => k,
        };
        s.push_str(&k);
        s.push('=');
        if is_token(&v) && rng.chance(2, 3) {
            s.push_str(&v);
        } else if rng.chance(1, 8) {
            // needless escapes inside the quoted string
            let esc: String = v.chars().flat_map(|c| if rng.chance(1, 3) { vec!['\\', c] } else { vec![c] }).collect();
            s.push_str(&format!("\"{esc}\""));
        } else {
            s.push_str(&quote(&v));
        }
    }
    // structural damage that both the real parser and the model's sub-grammar reject
    match rng.below(14) {
        0 => s.push('"'),
        1 => s = s.replacen('=', "", 1),
        2 => s = s.replacen(' ', "", 1),
        3 => s.push_str(",=x"),
        4 => s.push_str(",k=\u{1}"),
        5 => s.push_str(",k=\"a\u{7f}\""),
        6 => s.push_str(",k=\"é\""),
        7 => s.push_str(",k=a;b"),
        _ => {}
    }
    s
}

// ---- value objects of the synthetic endpoints

fn header_value(rng: &mut Rng) -> String {
    let n = rng.below(10);
    (0..n).map(|_| (0x21 + rng.below(0x5e) as u32) as u8 as char).collect::<String>().trim().to_owned()
}

fn gen_value(rng: &mut Rng, k: K, in_query_or_path: bool) -> Value {
    match k {
        K::Str => json!(nasty(rng)),
        K::OptStr => {
            if rng.chance(1, 3) {
                Value::Null
            } else if in_query_or_path {
                json!(nasty_nonempty(rng))
            } else {
                json!(nasty(rng))
            }
        }
        K::VecStr => {
            let n = *rng.pick(&[0usize, 1, 2, 3]);
            Value::Array((0..n).map(|_| json!(nasty(rng))).collect())
        }
        K::MapStr => {
            let n = rng.below(4);
            let mut m = Map::new();
            for _ in 0..n {
                m.insert(nasty(rng), json!(nasty(rng)));
            }
            Value::Object(m)
        }
        K::UInt => json!(*rng.pick(&[0u64, 1, 7, 255, 65536, 9007199254740991])),
        K::OptUInt => {
            if rng.chance(1, 2) {
                Value::Null
            } else {
                json!(*rng.pick(&[0u64, 1, 42, 9007199254740991]))
            }
        }
        K::Hdr => json!(header_value(rng)),
        K::OptHdr => {
            if rng.chance(1, 3) {
                Value::Null
            } else {
                json!(header_value(rng))
            }
        }
        K::User => json!(path_arg(rng, "user_id")),
        K::Bytes => {
            let n = *rng.pick(&[0usize, 1, 5, 40]);
            let b: Vec<u8> = (0..n).map(|_| rng.below(256) as u8).collect();
            json!(h_util::hex(&b))
        }
    }
}

fn gen_obj(rng: &mut Rng, fields: &[(&str, K)], path: &[&str], query: bool) -> Value {
    let mut m = Map::new();
    for (name, k) in fields {
        let mut v = gen_value(rng, *k, query);
        if path.contains(name) && rng.chance(1, 4) && *k == K::Str {
            v = json!(*rng.pick(&["a%41", "a/b", "?x#y", "a+b c", "%", "100%25"]));
        }
        m.insert((*name).to_owned(), v);
    }
    Value::Object(m)
}

fn sat_tok(rng: &mut Rng) -> (usize, String) {
    (rng.below(4), (*rng.pick(&["tok", "syt_abc_DEF", "a b", "tök"])).to_owned())
}

// ---- seeds of real endpoints

fn fill(rng: &mut Rng, v: &mut Value) {
    match v {
        Value::String(s) => {
            let r = match s.as_str() {
                "$s" => Some(nasty(rng)),
                "$room" => Some(path_arg(rng, "room_id")),
                "$user" => Some(path_arg(rng, "user_id")),
                "$event" => Some(path_arg(rng, "event_id")),
                "$alias" => Some(path_arg(rng, "room_alias")),
                "$server" => Some(path_arg(rng, "server_name")),
                _ => None,
            };
            if let Some(r) = r {
                *s = r;
            }
        }
        Value::Array(a) => a.iter_mut().for_each(|x| fill(rng, x)),
        Value::Object(o) => {
            let keys: Vec<String> = o.keys().filter(|k| k.starts_with('$')).cloned().collect();
            for k in keys {
                let mut val = o.remove(&k).unwrap();
                fill(rng, &mut val);
                let mut kk = Value::String(k);
                fill(rng, &mut kk);
                o.insert(kk.as_str().unwrap().to_owned(), val);
            }
            o.values_mut().for_each(|x| fill(rng, x))
        }
        _ => {}
    }
}

fn fill_query(rng: &mut Rng, q: &str) -> String {
    let mut out = String::new();
    let mut rest = q;
    while let Some(i) = rest.find('$') {
        out.push_str(&rest[..i]);
        let tail = &rest[i..];
        let (name, len) = ["$s", "$room", "$user", "$event", "$server"].iter().filter(|n| tail.starts_with(**n)).map(|n| (*n, n.len())).max_by_key(|x| x.1).unwrap_or(("", 1));
        let mut v = Value::String(name.to_owned());
        fill(rng, &mut v);
        let enc: String = percent_encoding::utf8_percent_encode(v.as_str().unwrap(), percent_encoding::NON_ALPHANUMERIC).to_string();
        out.push_str(&enc);
        rest = &tail[len..];
    }
    out.push_str(rest);
    out
}

fn ep_index(module_suffix: &str) -> Option<usize> {
    world().eps.iter().position(|e| e.name.ends_with(module_suffix))
}

thread_local! {
    /// why seeds did not become `c16.real.*` cases (printed by `probe`)
    pub static SKIPS: std::cell::RefCell<crate::real::Skips> = Default::default();
}

/// The `c16.rt.req` case of a seed and, behind it, the `c16.real.req` case made from it.
fn real_req_cases(rng: &mut Rng, e: usize, query: &str, body: &str) -> Vec<Req> {
    let mut extra = None;
    let first = real_req_case(rng, e, query, body, &mut extra);
    first.into_iter().chain(extra).collect()
}

fn real_resp_cases(rng: &mut Rng, e: usize, body: &str) -> Vec<Req> {
    let mut extra = None;
    let first = real_resp_case(rng, e, body, &mut extra);
    first.into_iter().chain(extra).collect()
}

fn real_req_case(rng: &mut Rng, e: usize, query: &str, body: &str, extra: &mut Option<Req>) -> Option<Req> {
    let w = world();
    let ep = &w.eps[e];
    let names = ep.meta._path_parameters();
    let seed = ReqSeed {
        path_args: names.iter().map(|n| path_arg(rng, n)).collect(),
        query: fill_query(rng, query),
        // a request as it arrives carries a Content-Type; without one, endpoints with a raw body
        // and an optional `Content-Type` header field run into finding G17 (kept in corpus/)
        headers: vec![("content-type".to_owned(), "application/json".to_owned())],
        body: if body.is_empty() {
            vec![]
        } else {
            let mut v: Value = serde_json::from_str(body).expect("seed body is JSON");
            fill(rng, &mut v);
            serde_json::to_vec(&v).unwrap()
        },
    };
    let (kind, token) = if rng.chance(3, 4) { (0, "tok".to_owned()) } else { sat_tok(rng) };
    let vtok = if rng.chance(1, 2) { "vm32767".to_owned() } else { versions_tok(rng) };
    let req = format!(
        "c16.rt.req {e} {vtok} {kind} {} {} {} {} s{}",
        stok(&token),
        strs_toks(&seed.path_args),
        stok(&seed.query),
        pairs_toks(&seed.headers),
        h_util::hex(&seed.body)
    );
    // only seeds the receiving-side conversion accepts carry a value to test
    let rt = (ep.req)(&seed, &[], SendAccessToken::None);
    if rt.accepted {
        if let (Some(vs), Some(sat)) = (crate::versions_of(&vtok), crate::sat_of_pub(kind, &token)) {
            *extra = SKIPS.with(|s| crate::real::req_case(e, &seed, &vtok, &vs, kind, &token, sat, &mut s.borrow_mut()));
        }
    }
    rt.accepted.then(|| Req::new(req, format!("rt.req.{}", if query.is_empty() && (body.is_empty() || body == "{}") { "default" } else { "seeded" })))
}

fn real_resp_case(rng: &mut Rng, e: usize, body: &str, extra: &mut Option<Req>) -> Option<Req> {
    let w = world();
    let ep = &w.eps[e];
    let mut v: Value = serde_json::from_str(body).expect("seed body is JSON");
    fill(rng, &mut v);
    let seed = RespSeed { status: 200, headers: vec![("content-type".into(), "application/json".into())], body: serde_json::to_vec(&v).unwrap() };
    let req = format!("c16.rt.resp {e} i{} {} s{}", seed.status, pairs_toks(&seed.headers), h_util::hex(&seed.body));
    let rt = (ep.resp)(&seed);
    if rt.accepted {
        *extra = SKIPS.with(|s| crate::real::resp_case(e, &seed, &mut s.borrow_mut()));
    }
    rt.accepted.then(|| Req::new(req, format!("rt.resp.{}", if body == "{}" { "default" } else { "seeded" })))
}

// ---- error responses

pub const ERRCODES: &[(&str, u16, &str)] = &[
    ("M_BAD_ALIAS", 400, "{}"),
    ("M_BAD_JSON", 400, "{}"),
    ("M_BAD_STATE", 400, "{}"),
    ("M_BAD_STATUS", 502, r#"{"status": 503, "body": "$s"}"#),
    ("M_BAD_STATUS", 502, "{}"),
    ("M_CANNOT_LEAVE_SERVER_NOTICE_ROOM", 403, "{}"),
    ("M_CANNOT_OVERWRITE_MEDIA", 409, "{}"),
    ("M_CAPTCHA_INVALID", 400, "{}"),
    ("M_CAPTCHA_NEEDED", 400, "{}"),
    ("M_CONNECTION_FAILED", 502, "{}"),
    ("M_CONNECTION_TIMEOUT", 504, "{}"),
    ("M_DUPLICATE_ANNOTATION", 400, "{}"),
    ("M_EXCLUSIVE", 400, "{}"),
    ("M_FORBIDDEN", 403, "{}"),
    ("M_GUEST_ACCESS_FORBIDDEN", 403, "{}"),
    ("M_INCOMPATIBLE_ROOM_VERSION", 400, r#"{"room_version": "7"}"#),
    ("M_INVALID_PARAM", 400, "{}"),
    ("M_INVALID_ROOM_STATE", 400, "{}"),
    ("M_INVALID_USERNAME", 400, "{}"),
    ("M_LIMIT_EXCEEDED", 429, r#"{"retry_after_ms": 2000}"#),
    ("M_LIMIT_EXCEEDED", 429, "{}"),
    ("M_MISSING_PARAM", 400, "{}"),
    ("M_MISSING_TOKEN", 401, "{}"),
    ("M_NOT_FOUND", 404, "{}"),
    ("M_NOT_JSON", 400, "{}"),
    ("M_NOT_YET_UPLOADED", 504, "{}"),
    ("M_RESOURCE_LIMIT_EXCEEDED", 403, r#"{"admin_contact": "$s"}"#),
    ("M_ROOM_IN_USE", 400, "{}"),
    ("M_SERVER_NOT_TRUSTED", 400, "{}"),
    ("M_THREEPID_AUTH_FAILED", 400, "{}"),
    ("M_THREEPID_DENIED", 403, "{}"),
    ("M_THREEPID_IN_USE", 400, "{}"),
    ("M_THREEPID_MEDIUM_NOT_SUPPORTED", 400, "{}"),
    ("M_THREEPID_NOT_FOUND", 400, "{}"),
    ("M_TOO_LARGE", 413, "{}"),
    ("M_UNABLE_TO_AUTHORISE_JOIN", 400, "{}"),
    ("M_UNABLE_TO_GRANT_JOIN", 400, "{}"),
    ("M_UNAUTHORIZED", 401, "{}"),
    ("M_UNKNOWN", 500, "{}"),
    ("M_UNKNOWN_TOKEN", 401, r#"{"soft_logout": true}"#),
    ("M_UNKNOWN_TOKEN", 401, r#"{"soft_logout": false}"#),
    ("M_UNKNOWN_TOKEN", 401, "{}"),
    ("M_UNRECOGNIZED", 404, "{}"),
    ("M_UNRECOGNIZED", 405, "{}"),
    ("M_UNSUPPORTED_ROOM_VERSION", 400, "{}"),
    ("M_URL_NOT_SET", 400, "{}"),
    ("M_USER_DEACTIVATED", 403, "{}"),
    ("M_USER_IN_USE", 400, "{}"),
    ("M_USER_LOCKED", 401, "{}"),
    ("M_USER_SUSPENDED", 403, "{}"),
    ("M_WEAK_PASSWORD", 400, "{}"),
    ("M_WRONG_ROOM_KEYS_VERSION", 403, r#"{"current_version": "42"}"#),
    ("M_WRONG_ROOM_KEYS_VERSION", 403, "{}"),
    // optional extra fields spelled as JSON null (what a typed `None` serializes to): the value must
    // come back as the same kind, not fall into the generic JSON body
    ("M_WRONG_ROOM_KEYS_VERSION", 403, r#"{"current_version": null}"#),
    ("M_LIMIT_EXCEEDED", 429, r#"{"retry_after_ms": null}"#),
    ("M_UNKNOWN_TOKEN", 401, r#"{"soft_logout": null}"#),
    ("M_BAD_STATUS", 502, r#"{"status": null, "body": null}"#),
    ("M_BAD_STATUS", 502, r#"{"status": 503}"#),
    ("M_BAD_STATUS", 502, r#"{"body": "$s"}"#),
    ("M_RESOURCE_LIMIT_EXCEEDED", 403, r#"{"admin_contact": null}"#),
    ("M_INCOMPATIBLE_ROOM_VERSION", 400, r#"{"room_version": null}"#),
    ("M_WRONG_ROOM_KEYS_VERSION", 403, r#"{"current_version": "$s"}"#),
    ("ORG.EXAMPLE.CUSTOM", 418, r#"{"x": "$s", "n": 3, "o": {"k": [1, null]}}"#),
];

fn err_case(rng: &mut Rng, i: usize) -> Req {
    let (code, status, extra) = ERRCODES[i];
    let mut v: Value = serde_json::from_str(extra).unwrap();
    fill(rng, &mut v);
    let o = v.as_object_mut().unwrap();
    o.insert("errcode".into(), json!(code));
    o.insert("error".into(), json!(nasty(rng)));
    let mut headers = vec![("content-type".to_owned(), "application/json".to_owned())];
    if code == "M_LIMIT_EXCEEDED" && rng.chance(1, 2) {
        headers.push(("retry-after".into(), if rng.chance(1, 2) { rng.below(100000).to_string() } else { "Fri, 15 May 2015 15:34:21 GMT".into() }));
    }
    let status = if rng.chance(1, 5) { *rng.pick(&[400u16, 401, 403, 404, 429, 500, 502]) } else { status };
    Req::new(format!("c16.rt.err i{status} {} s{}", pairs_toks(&headers), h_util::hex(&serde_json::to_vec(&v).unwrap())), format!("rt.err.{code}"))
}


// ---- the macro-generated glue (c16.glue.*)

mod glue_gen {
    use h_lib::{h_util, stok, Req, Rng};

    use super::{header_value, nasty, nasty_nonempty, sat_tok, versions_tok};
    use crate::glue::{glue_eps, GVal, GlueEp, Kind, StructDesc, JT};

    fn jstr(rng: &mut Rng) -> JT {
        JT::Str(nasty(rng))
    }

    fn uint(rng: &mut Rng) -> u64 {
        *rng.pick(&[0u64, 1, 7, 42, 255, 65536, 9007199254740991])
    }

    fn data(rng: &mut Rng) -> JT {
        let mut o = vec![("x".to_owned(), jstr(rng))];
        if rng.chance(1, 2) {
            o.push(("ys".to_owned(), JT::Arr((0..1 + rng.below(3)).map(|_| jstr(rng)).collect())));
        }
        JT::Obj(o)
    }

    /// A value of the struct: wire forms of contents the field types can hold. `clean`: none of
    /// the contents that run into the recorded findings G17–G19, and header values the encoder
    /// accepts.
    pub fn value(rng: &mut Rng, d: &StructDesc, has_body: bool, clean: bool) -> GVal {
        let mut v = GVal::default();
        for f in &d.fields {
            match (&f.kind, f.tag) {
                (Kind::Path, _) => v.path.push(nasty(rng)),
                (Kind::Query, "qStr") => v.query.push(vec![nasty(rng)]),
                (Kind::Query, "qOptStr") => v.query.push(if rng.chance(1, 3) { vec![] } else { vec![nasty_nonempty(rng)] }),
                (Kind::Query, "qVecStr") => v.query.push((0..*rng.pick(&[0usize, 1, 2, 3])).map(|_| nasty(rng)).collect()),
                (Kind::Query, "qOptUInt") => v.query.push(if rng.chance(1, 2) { vec![] } else { vec![uint(rng).to_string()] }),
                (Kind::QueryAll, _) => {
                    let mut m = std::collections::BTreeMap::new();
                    for _ in 0..rng.below(4) {
                        m.insert(nasty(rng), nasty(rng));
                    }
                    v.query_all.push(m.into_iter().collect());
                }
                (Kind::Header { name, optional }, tag) => {
                    // G17: an absent optional header the generated code sets itself
                    let forced = name == "content-type" && has_body;
                    if *optional && !forced && rng.chance(1, 3) {
                        v.header.push(None);
                    } else if tag == "u64" {
                        v.header.push(Some(rng.pick(&[0u64, 7, 20, 18446744073709551615]).to_string()));
                    } else if !clean && rng.chance(1, 12) {
                        // refused by `HeaderValue::from_str`
                        v.header.push(Some((*rng.pick(&["a\u{1}b", "x\u{7f}", "line\nbreak"])).to_owned()));
                    } else {
                        let mut h = header_value(rng);
                        if rng.chance(1, 6) {
                            h = format!("{h}{}x", rng.pick(&[" ", "\t", ", ", "; q=0.5 "]));
                        }
                        v.header.push(Some(h));
                    }
                }
                (Kind::Body, _) if d.manual => {}
                (Kind::Body, "bStr") => v.body.push(Some(jstr(rng))),
                (Kind::Body, "bOptStr") => v.body.push(if rng.chance(1, 3) { None } else { Some(jstr(rng)) }),
                (Kind::Body, "bOptStrNull") => v.body.push(Some(if rng.chance(1, 3) { JT::Null } else { jstr(rng) })),
                (Kind::Body, "bVecStr") => {
                    v.body.push(if rng.chance(1, 3) { None } else { Some(JT::Arr((0..1 + rng.below(3)).map(|_| jstr(rng)).collect())) })
                }
                (Kind::Body, "bUInt") => v.body.push(Some(JT::Int(uint(rng) as i128))),
                (Kind::Newtype, _) => v.whole.push(data(rng)),
                (Kind::Raw, _) => {
                    let n = *rng.pick(&[0usize, 1, 5, 40]);
                    v.raw.push((0..n).map(|_| rng.below(256) as u8).collect());
                }
                (k, t) => panic!("generator knows no {k:?} field with codec {t}"),
            }
        }
        if d.manual {
            v.whole.push(JT::Obj(vec![("wrap".to_owned(), jstr(rng))]));
        }
        v
    }

    fn has_body(d: &StructDesc) -> bool {
        d.fields.iter().any(|f| matches!(f.kind, Kind::Body | Kind::Newtype | Kind::Raw))
    }

    fn form_byte(out: &mut String, b: u8, rng: &mut Rng) {
        if b.is_ascii_alphanumeric() && !rng.chance(1, 20) {
            out.push(b as char);
        } else if b == b' ' && rng.chance(1, 2) {
            out.push('+');
        } else if matches!(b, b'*' | b'-' | b'.' | b'_') && rng.chance(1, 2) {
            out.push(b as char);
        } else {
            // lower-case hex now and then: a receiver must read both
            if rng.chance(1, 4) {
                out.push_str(&format!("%{b:02x}"));
            } else {
                out.push_str(&format!("%{b:02X}"));
            }
        }
    }

    fn form(s: &str, rng: &mut Rng) -> String {
        let mut out = String::new();
        for b in s.bytes() {
            form_byte(&mut out, b, rng);
        }
        out
    }

    /// A message as it arrives for the value `v`, at the wire level; then mutated.
    struct Arriving {
        method: String,
        args: Vec<String>,
        /// raw `name=value` sequences (already encoded)
        query: Vec<String>,
        headers: Vec<(String, Vec<u8>)>,
        /// `e`, `j <json>`, `g s<hex>`
        body: Body,
    }

    enum Body {
        Empty,
        Json(JT),
        Garbage(Vec<u8>),
    }

    fn body_tok(b: &Body) -> String {
        match b {
            Body::Empty => "e".to_owned(),
            Body::Json(j) => {
                let mut s = "j ".to_owned();
                j.toks(&mut s);
                s
            }
            Body::Garbage(g) => format!("g s{}", h_util::hex(g)),
        }
    }

    fn wellformed(rng: &mut Rng, method: &str, d: &StructDesc, v: &GVal, request: bool) -> Arriving {
        let mut query = Vec::new();
        let (mut qi, mut hi, mut bi) = (0, 0, 0);
        let mut headers: Vec<(String, Vec<u8>)> = Vec::new();
        let mut obj: Vec<(String, JT)> = Vec::new();
        for f in &d.fields {
            match &f.kind {
                Kind::Query => {
                    for x in &v.query[qi] {
                        query.push(format!("{}={}", form(&f.name, rng), form(x, rng)));
                    }
                    qi += 1;
                }
                Kind::Header { name, .. } => {
                    if let Some(x) = &v.header[hi] {
                        headers.push((name.clone(), x.clone().into_bytes()));
                    }
                    hi += 1;
                }
                Kind::Body if !d.manual => {
                    if let Some(j) = &v.body[bi] {
                        obj.push((f.name.clone(), j.clone()));
                    }
                    bi += 1;
                }
                _ => {}
            }
        }
        for ps in &v.query_all {
            for (k, x) in ps {
                query.push(format!("{}={}", form(k, rng), form(x, rng)));
            }
        }
        let body = if let Some(r) = v.raw.first() {
            if r.is_empty() {
                Body::Empty
            } else if serde_json::from_slice::<serde_json::Value>(r).is_err() {
                Body::Garbage(r.clone())
            } else {
                Body::Json(JT::Int(7))
            }
        } else if let Some(w) = v.whole.first() {
            Body::Json(w.clone())
        } else if d.fields.iter().any(|f| f.kind == Kind::Body) || !request {
            Body::Json(JT::Obj(obj))
        } else {
            Body::Empty
        };
        if !matches!(body, Body::Empty) && rng.chance(2, 3) {
            headers.push(("content-type".to_owned(), b"application/json".to_vec()));
            headers.dedup_by(|a, b| a.0 == b.0);
        }
        Arriving { method: method.to_owned(), args: v.path.clone(), query, headers, body }
    }

    const BAD_NUMBERS: &[&str] = &["007", "+5", "-1", "1.5", "abc", "", " 7", "7 ", "9007199254740992", "18446744073709551615", "18446744073709551616", "+", "0x10", "1e3"];

    fn wrong_json(rng: &mut Rng) -> JT {
        match rng.below(9) {
            0 => JT::Null,
            1 => JT::Int(*rng.pick(&[-1i128, 0, 3, 9007199254740991, 9007199254740992, 18446744073709551615, 18446744073709551616])),
            2 => JT::Bool(rng.chance(1, 2)),
            3 => JT::Str(nasty(rng)),
            4 => JT::Arr(vec![]),
            5 => JT::Arr(vec![JT::Int(1)]),
            6 => JT::Arr(vec![JT::Str(nasty(rng)), JT::Null]),
            7 => JT::Obj(vec![]),
            _ => JT::Obj(vec![("x".to_owned(), JT::Int(1))]),
        }
    }

    fn mutate(rng: &mut Rng, a: &mut Arriving, d: &StructDesc, request: bool) -> &'static str {
        let names: Vec<String> = d.fields.iter().map(|f| f.name.clone()).collect();
        match rng.below(if request { 24 } else { 14 }) {
            // --- headers
            0 if !a.headers.is_empty() => {
                let i = rng.below(a.headers.len());
                a.headers.remove(i);
                "header-missing"
            }
            1 if !a.headers.is_empty() => {
                let i = rng.below(a.headers.len());
                let mut h = a.headers[i].clone();
                h.1 = (*rng.pick(&["other", "8", "", "é"])).as_bytes().to_vec();
                if rng.chance(1, 2) {
                    a.headers.push(h)
                } else {
                    a.headers.insert(0, h)
                }
                "header-duplicate"
            }
            2 if !a.headers.is_empty() => {
                let i = rng.below(a.headers.len());
                a.headers[i].1 = match rng.below(4) {
                    0 => "é".as_bytes().to_vec(),
                    1 => vec![b'a', 0xff],
                    2 => b"a\tb".to_vec(),
                    _ => (*rng.pick(BAD_NUMBERS)).as_bytes().to_vec(),
                };
                "header-unparsable"
            }
            3 => {
                a.headers.push(((*rng.pick(&["x-unknown", "accept", "content-type", "authorization", "if-match", "max-forwards", "etag", "location"])).to_owned(), header_value(rng).into_bytes()));
                "header-extra"
            }
            // --- body
            4 => {
                a.body = Body::Empty;
                "body-empty"
            }
            5 => {
                a.body = Body::Garbage((*rng.pick(&["{", "nul", "{\"s\":}", "{\"s\":\"x\"}}", "\u{feff}{}", "[1,", "'x'", "{\"a\":1,}", "\"\\ud800\""])).as_bytes().to_vec());
                "body-not-json"
            }
            6 => {
                a.body = Body::Json(match rng.below(5) {
                    0 => JT::Null,
                    1 => JT::Int(3),
                    2 => JT::Str(nasty(rng)),
                    3 => JT::Bool(true),
                    _ => JT::Obj(vec![]),
                });
                "body-non-object"
            }
            7 => {
                if let Body::Json(JT::Obj(o)) = &mut a.body {
                    if !o.is_empty() {
                        let i = rng.below(o.len());
                        o.remove(i);
                    }
                }
                "body-field-missing"
            }
            8 => {
                if let Body::Json(JT::Obj(o)) = &mut a.body {
                    let k = if rng.chance(1, 2) { "unknown".to_owned() } else { nasty(rng) };
                    let at = rng.below(o.len() + 1);
                    o.insert(at, (k, wrong_json(rng)));
                }
                "body-field-extra"
            }
            9 => {
                if let Body::Json(JT::Obj(o)) = &mut a.body {
                    if !o.is_empty() {
                        let e = o[rng.below(o.len())].clone();
                        let at = rng.below(o.len() + 1);
                        o.insert(at, e);
                    }
                }
                "body-field-duplicate"
            }
            10 => {
                if let Body::Json(JT::Obj(o)) = &mut a.body {
                    if !o.is_empty() {
                        let i = rng.below(o.len());
                        o[i].1 = wrong_json(rng);
                    } else if !names.is_empty() {
                        o.push((rng.pick(&names).clone(), wrong_json(rng)));
                    }
                }
                "body-field-wrong-type"
            }
            11 => {
                if let Body::Json(JT::Obj(o)) = &mut a.body {
                    rng.shuffle(o);
                }
                "body-field-order"
            }
            12 => {
                // a body field the sender would have skipped, written out
                if let Body::Json(JT::Obj(o)) = &mut a.body {
                    for f in &d.fields {
                        if f.kind == Kind::Body && !o.iter().any(|e| e.0 == f.name) {
                            o.push((f.name.clone(), if f.tag == "bVecStr" { JT::Arr(vec![]) } else { JT::Null }));
                        }
                    }
                }
                "body-skipped-written"
            }
            13 => "none",
            // --- requests only: method, path arguments, query
            14 => {
                a.method = (*rng.pick(&["HEAD", "GET", "POST", "PUT", "DELETE", "PATCH", "OPTIONS", "get", "Head"])).to_owned();
                "method"
            }
            15 => {
                match rng.below(3) {
                    0 => {
                        a.args.pop();
                    }
                    1 => a.args.push(nasty(rng)),
                    _ => a.args.clear(),
                }
                "path-arg-count"
            }
            16 if !a.query.is_empty() => {
                let i = rng.below(a.query.len());
                a.query.remove(i);
                "query-missing"
            }
            17 if !a.query.is_empty() => {
                let e = a.query[rng.below(a.query.len())].clone();
                let at = rng.below(a.query.len() + 1);
                a.query.insert(at, e);
                "query-duplicate"
            }
            18 => {
                let k = if rng.chance(1, 2) { "unknown".to_owned() } else { form(&nasty(rng), rng) };
                let at = rng.below(a.query.len() + 1);
                a.query.insert(at, format!("{k}={}", form(&nasty(rng), rng)));
                "query-extra"
            }
            19 => {
                // delimiters and escapes in a value, written as a sloppy sender would
                let val = *rng.pick(&["a+b", "a%2Bb", "a%26b%3Dc", "%23frag", "100%25", "%", "%4", "%zz", "%FF", "%C3", "%C3%A9", "%E2%82", "%F0%9F%98%80", "%ED%A0%80", "%C0%80", "a%00b", "%e9", "+", "%20", ""]);
                let key = if !names.is_empty() && rng.chance(3, 4) { rng.pick(&names).clone() } else { "k".to_owned() };
                let seq = match rng.below(4) {
                    0 => format!("{key}={val}"),
                    1 => format!("{val}={val}"),
                    2 => key,
                    _ => format!("{key}=={val}"),
                };
                if !a.query.is_empty() && rng.chance(1, 2) {
                    let i = rng.below(a.query.len());
                    a.query[i] = seq;
                } else {
                    a.query.push(seq);
                }
                "query-escapes"
            }
            20 => {
                let key = if names.is_empty() { "n".to_owned() } else { rng.pick(&names).clone() };
                let bad: &str = *rng.pick(BAD_NUMBERS);
                let seq = format!("{key}={}", form(bad, rng));
                a.query.retain(|q| !q.starts_with(&format!("{key}=")));
                a.query.push(seq);
                "query-number"
            }
            21 => {
                rng.shuffle(&mut a.query);
                "query-order"
            }
            22 => {
                let at = rng.below(a.query.len() + 1);
                a.query.insert(at, String::new());
                "query-empty-sequence"
            }
            _ => "none",
        }
    }

    fn headers_toks(h: &[(String, Vec<u8>)]) -> String {
        let mut s = format!("a{}", h.len());
        for (k, v) in h {
            s.push_str(&format!(" {} s{}", stok(k), h_util::hex(v)));
        }
        s
    }

    fn push_checked(out: &mut Vec<Req>, req: String, cls: String) {
        // a message the `http` crate cannot even hold is not a case
        if crate::run(&req).imp != "bad-op" {
            out.push(Req::new(req, cls));
        }
    }

    fn one(rng: &mut Rng, gid: usize, g: &GlueEp, out: &mut Vec<Req>) {
        let short = g.name.trim_start_matches("glue::");
        // sending side
        let v = value(rng, &g.req, has_body(&g.req), false);
        let (kind, token) = sat_tok(rng);
        out.push(Req::new(format!("c16.glue.req {gid} {} {kind} {} {}", versions_tok(rng), stok(&token), v.toks()), format!("glue.req.{short}")));
        let p = value(rng, &g.resp, true, false);
        out.push(Req::new(format!("c16.glue.resp {gid} {}", p.toks()), format!("glue.resp.{short}")));
        // receiving side
        for _ in 0..2 {
            let v = value(rng, &g.req, has_body(&g.req), true);
            let mut a = wellformed(rng, g.meta.method.as_str(), &g.req, &v, true);
            let mut what = vec![];
            for _ in 0..*rng.pick(&[0usize, 1, 1, 1, 2, 3]) {
                what.push(mutate(rng, &mut a, &g.req, true));
            }
            let req = format!(
                "c16.glue.in {gid} {} {} {} {} {}",
                stok(&a.method),
                crate::strs_toks(&a.args),
                stok(&a.query.join("&")),
                headers_toks(&a.headers),
                body_tok(&a.body)
            );
            push_checked(out, req, format!("glue.in.{short}.{}", what.first().copied().unwrap_or("wellformed")));
        }
        let p = value(rng, &g.resp, true, true);
        let mut a = wellformed(rng, "", &g.resp, &p, false);
        let mut what = vec![];
        for _ in 0..*rng.pick(&[0usize, 1, 1, 2]) {
            what.push(mutate(rng, &mut a, &g.resp, false));
        }
        let status = *rng.pick(&[200u16, 200, 200, 201, 204, 302, 399, 400, 404, 429, 500, g.resp.status]);
        let req = format!("c16.glue.rin {gid} i{status} {} {}", headers_toks(&a.headers), body_tok(&a.body));
        push_checked(out, req, format!("glue.rin.{short}.{}", what.first().copied().unwrap_or("wellformed")));
    }

    pub fn gen(rng: &mut Rng, n: usize, out: &mut Vec<Req>) {
        let eps = glue_eps();
        for i in 0..n {
            let gid = i % eps.len();
            one(rng, gid, &eps[gid], out);
        }
    }
}

// ---- the case list

pub fn gen(rng: &mut Rng, n: usize, tier: &str) -> Vec<Req> {
    let w = world();
    let mut v: Vec<Req> = Vec::new();
    let thorough = tier == "thorough";

    // T1 sweep: every distinct extracted history × version subsets
    for hidx in 0..w.hists.len() {
        if thorough {
            for k in 0..32 {
                v.push(Req::new(format!("c16.spec.sweep {hidx} {} 1 1024", k * 1024), "sweep.exhaustive"));
            }
        } else {
            let start = rng.below(1 << 15);
            let stride = 2 * rng.below(1 << 14) + 1;
            v.push(Req::new(format!("c16.spec.sweep {hidx} {start} {stride} 2048"), "sweep.sample"));
        }
    }
    for s in 0..6 {
        for k in 0..4 {
            v.push(Req::new(format!("c16.spec.auth {s} {k}"), "spec.auth"));
        }
    }

    // every endpoint's URL with delimiter-laden arguments
    for (e, ep) in w.eps.iter().enumerate() {
        let names = ep.meta._path_parameters();
        let reps = if names.is_empty() { 1 } else if thorough { 12 } else { 3 };
        for r in 0..reps {
            let args: Vec<String> = names.iter().map(|nm| if r == 0 { "a%41".to_owned() } else if rng.chance(1, 2) { path_arg(rng, nm) } else { nasty(rng) }).collect();
            v.push(Req::new(format!("c16.ep.url {e} {} {}", versions_tok(rng), strs_toks(&args)), "ep.url"));
        }
    }

    // random histories
    for _ in 0..n / 5 {
        let h = rand_hist(rng, true);
        v.push(Req::new(format!("c16.new {}", hist_toks(&h)), "new"));
    }
    for _ in 0..n / 4 {
        let h = rand_hist(rng, false);
        let op = if rng.chance(1, 2) { "c16.spec.select" } else { "c16.select" };
        v.push(Req::new(format!("{op} {} {}", hist_toks(&h), versions_tok(rng)), op.trim_start_matches("c16.")));
    }
    for _ in 0..n / 4 {
        let h = rand_hist(rng, false);
        let k = placeholder_count(&h) + if rng.chance(1, 10) { 1 } else { 0 };
        let args: Vec<String> = (0..k).map(|_| nasty(rng)).collect();
        v.push(Req::new(
            format!("c16.url {} {} {} {} {}", hist_toks(&h), versions_tok(rng), stok(*rng.pick(BASES)), stok(*rng.pick(QUERIES)), strs_toks(&args)),
            "url",
        ));
    }

    // authorization header
    for _ in 0..n / 10 {
        let token = match rng.below(8) {
            0 => "a\u{1}b".to_owned(),
            1 => "a\u{7f}".to_owned(),
            2 => "a\tb".to_owned(),
            3 => "tökén".to_owned(),
            4 => String::new(),
            5 => "a\nb".to_owned(),
            _ => nasty(rng),
        };
        v.push(Req::new(format!("c16.auth {} {} {}", rng.below(6), rng.below(4), stok(&token)), "auth"));
    }

    // X-Matrix
    for _ in 0..n / 10 {
        let dest = if rng.chance(1, 6) { "n".to_owned() } else { stok(*rng.pick(SERVERS)) };
        v.push(Req::new(format!("c16.xm.fmt {} {dest} {} {}", stok(*rng.pick(SERVERS)), stok(*rng.pick(KEYS)), stok(&rand_sig(rng))), "xm.fmt"));
        v.push(Req::new(format!("c16.xm.parse {}", stok(&rand_xmatrix_text(rng))), "xm.parse"));
    }

    // synthetic endpoints through the real macros
    let syn0 = w.eps.iter().position(|e| e.synthetic).unwrap();
    for _ in 0..n / 3 {
        let i = rng.below(SPECS.len());
        let spec = &SPECS[i];
        let e = syn0 + i;
        debug_assert_eq!(w.eps[e].name, spec.name);
        let o = gen_obj(rng, spec.req, spec.path, true);
        let (kind, token) = sat_tok(rng);
        v.push(Req::new(format!("c16.rt.syn {e} {} {kind} {} {}", versions_tok(rng), stok(&token), h_util::jtoks(&o)), format!("rt.syn.{}", spec.name)));
        let o = gen_obj(rng, spec.resp, &[], false);
        v.push(Req::new(format!("c16.rt.synresp {e} {}", h_util::jtoks(&o)), format!("rt.synresp.{}", spec.name)));
    }

    // the macro-generated glue against its model: sending and receiving side
    glue_gen::gen(rng, n / 4, &mut v);

    // real endpoints: default seed for all, specific seeds for the listed ones
    let reps = if thorough { 20 } else { 2 };
    for e in 0..syn0 {
        for _ in 0..reps {
            v.extend(real_req_cases(rng, e, "", "{}"));
        }
        v.extend(real_resp_cases(rng, e, "{}"));
    }
    // endpoints whose conversions refuse the empty seed (required fields): a seed made from the
    // description — for every required query / body field a value chosen by the name of its type
    for e in 0..syn0 {
        let Ok(d) = &crate::real::descs()[e] else { continue };
        let (q, b) = auto_seed(&d.req);
        if !q.is_empty() || b != "{}" {
            for _ in 0..(if thorough { 6 } else { 1 }) {
                v.extend(real_req_cases(rng, e, &q, &b));
            }
        }
        let (_, b) = auto_seed(&d.resp);
        if b != "{}" {
            v.extend(real_resp_cases(rng, e, &b));
        }
    }

    // every endpoint with a raw body, without any Content-Type header on the arriving message
    // (the seeds above always carry one): fixed lines, so that the recorded finding G17 — which
    // every one of them shows — is matched exactly by `findings/C16.json`
    for e in 0..syn0 {
        let Ok(d) = &crate::real::descs()[e] else { continue };
        if d.req.has_raw() {
            let args: Vec<String> = w.eps[e].meta._path_parameters().iter().map(|n| fixed_arg(n).to_owned()).collect();
            v.push(Req::new(format!("c16.rt.req {e} vm32767 0 s746f6b {} s a0 s0001ff", strs_toks(&args)), "rt.req.raw-no-content-type"));
        }
        if d.resp.has_raw() {
            v.push(Req::new(format!("c16.rt.resp {e} i200 a0 s0001ff"), "rt.resp.raw-no-content-type"));
        }
    }
    let reps = if thorough { 60 } else { 6 };
    for s in seeds::REQUEST_SEEDS {
        let e = ep_index(s.module).unwrap_or_else(|| panic!("seed for unknown endpoint {}", s.module));
        for _ in 0..reps {
            v.extend(real_req_cases(rng, e, s.query, s.body));
        }
    }
    for s in seeds::RESPONSE_SEEDS {
        let e = ep_index(s.module).unwrap_or_else(|| panic!("seed for unknown endpoint {}", s.module));
        for _ in 0..reps {
            v.extend(real_resp_cases(rng, e, s.body));
        }
    }

    // error responses: every error code
    let reps = if thorough { 40 } else { 3 };
    for i in 0..ERRCODES.len() {
        for _ in 0..reps {
            v.push(err_case(rng, i));
        }
    }
    v
}

pub fn probe() {
    let w = world();
    println!("{} endpoints, {} distinct histories", w.eps.len(), w.hists.len());
    let mut rng = Rng::new(1);
    let (mut ok_req, mut ok_resp) = (0, 0);
    for (e, ep) in w.eps.iter().enumerate() {
        if ep.synthetic {
            continue;
        }
        let a = (0..8).any(|_| real_req_case(&mut rng, e, "", "{}", &mut None).is_some());
        let b = real_resp_case(&mut rng, e, "{}", &mut None).is_some();
        ok_req += a as usize;
        ok_resp += b as usize;
        println!("{} req-default:{} resp-default:{} params:{:?}", ep.name, a, b, ep.meta._path_parameters());
    }
    println!("default request seed accepted by {ok_req}, default response seed by {ok_resp}");
    for s in seeds::REQUEST_SEEDS {
        let Some(e) = ep_index(s.module) else { println!("UNKNOWN request seed module {}", s.module); continue };
        let k = (0..20).filter(|_| real_req_case(&mut rng, e, s.query, s.body, &mut None).is_some()).count();
        println!("request seed {} accepted {k}/20", s.module);
    }
    for s in seeds::RESPONSE_SEEDS {
        let Some(e) = ep_index(s.module) else { println!("UNKNOWN response seed module {}", s.module); continue };
        let k = (0..20).filter(|_| real_resp_case(&mut rng, e, s.body, &mut None).is_some()).count();
        println!("response seed {} accepted {k}/20", s.module);
    }
}
