//! C10 — identifier parsing is total, lossless and accepts only the spec's grammar.
//!
//! Requests (see `lean/RumaModel/Driver/C10.lean` for the grammar of the lines):
//!   `c10.id <kind> S ORA`           parse through the canonical form + every accessor (T2);
//!                                   T3: all public forms agree, storage is byte-for-byte,
//!                                   accessors recompose to the original string.
//!   `c10.strict S ORA`              `user_id::validate_strict`
//!   `c10.spec.struct <kind> S ORA`  `struct'(s) || accepted(s)`  vs the Lean spec's `struct(s)`
//!   `c10.spec.gram <kind> S ORA`    `gram'(s) && accepted(s)`    vs the Lean spec's `gram(s)`
//!   `c10.spec.tight <kind> S ORA`   `struct'(s) && !bigport'(s) && accepted(s)` vs the Lean spec's
//!                                   `struct(s) && !structBigPort(s)` (structure ⇒ accepted)
//!   `c10.ctor.pwsn S S ORA`         `UserId::parse_with_server_name` (+ `_rc`, `_arc`)
//!   `c10.ctor.key <kind> S S`       `KeyId::from_parts`
//!   `c10.ctor.new <kind> S`         `UserId::new` / `RoomId::new` / `EventId::new` (T3 only)
//!   `c10.ctor.b64 S`                `OwnedBase64PublicKey::with_bytes` (S = raw bytes in hex)
//!   `c10.exh <kind> S ORA`          `c10.id` on prefix ++ [a, b] for all a, b of the alphabet
//!   `c10.ctor.secret`               `ClientSecret::new()` (T3 only: 32 lower-case hex digits, accepted)
//!   `c10.voipver S` / `c10.voipver iN`   `VoipVersionId` from a string (stores it) / from an integer (only 0)
//!   `c10.opaque <type> S`           unchecked identifier types: every form stores any string (T3)
//!   `c10.ip6 S` / `c10.ip4 S` / `c10.ipexh …`   `std::net` parsers vs their Lean reference (ip.rs)
mod gen;
mod ip;
mod spec;

use std::{
    collections::BTreeMap,
    net::{Ipv4Addr, Ipv6Addr},
    rc::Rc,
    str::FromStr,
    sync::Arc,
};

use h_lib::{h_util, stok, Outcome, Req, Rng};
use ruma_common::{
    Base64PublicKeyOrDeviceId, OneTimeKeyName, OwnedBase64PublicKeyOrDeviceId, OwnedDeviceId,
    OwnedOneTimeKeyName, OwnedTransactionId, OwnedVoipId, TransactionId, VoipId,
    Base64PublicKey, ClientSecret, CrossSigningKeyId, DeviceId, DeviceKeyAlgorithm, DeviceKeyId,
    EventId, MxcUri, OwnedBase64PublicKey, OwnedClientSecret, OwnedCrossSigningKeyId,
    OwnedDeviceKeyId, OwnedEventId, OwnedMxcUri, OwnedRoomAliasId, OwnedRoomId,
    OwnedRoomOrAliasId, OwnedServerName, OwnedServerSigningKeyId, OwnedServerSigningKeyVersion,
    OwnedSessionId, OwnedUserId, RoomAliasId, RoomId, RoomOrAliasId, RoomVersionId, ServerName,
    ServerSigningKeyId, ServerSigningKeyVersion, SessionId, SigningKeyAlgorithm, UserId,
};

#[derive(Clone, Copy, PartialEq, Eq, Debug)]
pub enum Kind {
    User,
    Room,
    Alias,
    RoomOrAlias,
    Event,
    Server,
    KeyAny,
    KeyVersion,
    KeyBase64,
    Mxc,
    RoomVersion,
    SigningKeyVersion,
    Base64PublicKey,
    ClientSecret,
    SessionId,
}

pub const KINDS: &[Kind] = &[
    Kind::User,
    Kind::Room,
    Kind::Alias,
    Kind::RoomOrAlias,
    Kind::Event,
    Kind::Server,
    Kind::KeyAny,
    Kind::KeyVersion,
    Kind::KeyBase64,
    Kind::Mxc,
    Kind::RoomVersion,
    Kind::SigningKeyVersion,
    Kind::Base64PublicKey,
    Kind::ClientSecret,
    Kind::SessionId,
];

impl Kind {
    pub fn name(self) -> &'static str {
        match self {
            Kind::User => "user",
            Kind::Room => "room",
            Kind::Alias => "alias",
            Kind::RoomOrAlias => "roomoralias",
            Kind::Event => "event",
            Kind::Server => "server",
            Kind::KeyAny => "keyany",
            Kind::KeyVersion => "keyversion",
            Kind::KeyBase64 => "keybase64",
            Kind::Mxc => "mxc",
            Kind::RoomVersion => "roomversion",
            Kind::SigningKeyVersion => "signingkeyversion",
            Kind::Base64PublicKey => "base64publickey",
            Kind::ClientSecret => "clientsecret",
            Kind::SessionId => "sessionid",
        }
    }
    pub fn parse(s: &str) -> Option<Kind> {
        KINDS.iter().copied().find(|k| k.name() == s)
    }
}

// ------------------------------------------------------------------------------------------
// Oracle table: verdicts of code that is a parameter of the model.
// ------------------------------------------------------------------------------------------

fn uni_alnum(s: &str) -> bool {
    s.chars().filter(|c| !c.is_ascii()).all(|c| c.is_alphanumeric())
}

/// Candidates are derived from the string alone (never from what the implementation did).
fn add_oracles(s: &str, want4: bool, out: &mut BTreeMap<String, bool>) {
    let b = s.as_bytes();
    for i in 0..b.len() {
        if b[i] == b'[' {
            // the code looks at the content up to the first `]`; the spec side may ask about the
            // content up to any later `]` (it tries every way of cutting the string)
            for j in i + 1..b.len() {
                if b[j] == b']' {
                    let c = &s[i + 1..j];
                    out.insert(format!("6{}", h_util::hex(c.as_bytes())), Ipv6Addr::from_str(c).is_ok());
                }
            }
        }
    }
    if want4 {
        let a = &s[..s.find(':').unwrap_or(s.len())];
        out.insert(format!("4{}", h_util::hex(a.as_bytes())), Ipv4Addr::from_str(a).is_ok());
        if let Some(e) = s.find(']') {
            let h = &s[..=e];
            out.insert(format!("4{}", h_util::hex(h.as_bytes())), Ipv4Addr::from_str(h).is_ok());
        }
    }
    if !s.is_ascii() {
        out.insert(format!("u{}", h_util::hex(b)), uni_alnum(s));
        if let Some(c) = s.find(':') {
            let t = &s[c + 1..];
            if !t.is_ascii() {
                out.insert(format!("u{}", h_util::hex(t.as_bytes())), uni_alnum(t));
            }
        }
    }
}

fn table(m: &BTreeMap<String, bool>) -> String {
    let mut s = m.len().to_string();
    for (k, v) in m {
        s.push(' ');
        s.push_str(k);
        s.push_str(if *v { " t" } else { " f" });
    }
    s
}

fn oracles(strings: &[&str], want4: bool) -> String {
    let mut m = BTreeMap::new();
    for s in strings {
        add_oracles(s, want4, &mut m);
    }
    table(&m)
}

// ------------------------------------------------------------------------------------------
// All public forms of one checked identifier type.
// ------------------------------------------------------------------------------------------

type FormRes = Result<String, ()>;

macro_rules! checked_forms {
    ($T:ty, $Owned:ty, $s:expr) => {{
        let s: &str = $s;
        let mut v: Vec<(&'static str, FormRes)> = Vec::new();
        let e = |_| ();
        v.push(("<&T>::try_from(&str)", <&$T>::try_from(s).map(|x| x.as_str().to_owned()).map_err(e)));
        v.push(("T::parse", <$T>::parse(s).map(|x| x.as_str().to_owned()).map_err(e)));
        v.push(("T::parse_box", <$T>::parse_box(s).map(|x| x.as_str().to_owned()).map_err(e)));
        v.push(("T::parse_rc", <$T>::parse_rc(s).map(|x: Rc<$T>| x.as_str().to_owned()).map_err(e)));
        v.push(("T::parse_arc", <$T>::parse_arc(s).map(|x: Arc<$T>| x.as_str().to_owned()).map_err(e)));
        v.push(("Box<T>: FromStr", s.parse::<Box<$T>>().map(|x| x.as_str().to_owned()).map_err(e)));
        v.push(("Owned: FromStr", s.parse::<$Owned>().map(|x| x.as_str().to_owned()).map_err(e)));
        v.push(("Box<T>: TryFrom<&str>", <Box<$T>>::try_from(s).map(|x| x.as_str().to_owned()).map_err(e)));
        v.push(("Box<T>: TryFrom<String>", <Box<$T>>::try_from(s.to_owned()).map(|x| x.as_str().to_owned()).map_err(e)));
        v.push(("Owned: TryFrom<&str>", <$Owned>::try_from(s).map(|x| x.as_str().to_owned()).map_err(e)));
        v.push(("Owned: TryFrom<String>", <$Owned>::try_from(s.to_owned()).map(|x| x.as_str().to_owned()).map_err(e)));
        let j = serde_json::Value::String(s.to_owned());
        let text = serde_json::to_string(s).unwrap();
        v.push(("Owned: Deserialize(Value)", serde_json::from_value::<$Owned>(j.clone()).map(|x| x.as_str().to_owned()).map_err(|_| ())));
        v.push(("Box<T>: Deserialize(Value)", serde_json::from_value::<Box<$T>>(j).map(|x| x.as_str().to_owned()).map_err(|_| ())));
        v.push(("Owned: Deserialize(text)", serde_json::from_str::<$Owned>(&text).map(|x| x.as_str().to_owned()).map_err(|_| ())));
        v.push(("Box<T>: Deserialize(text)", serde_json::from_str::<Box<$T>>(&text).map(|x| x.as_str().to_owned()).map_err(|_| ())));
        // Display / Serialize / Clone / into String of an accepted identifier give the same bytes
        if let Ok(o) = <$T>::parse(s) {
            v.push(("Display", Ok(o.to_string())));
            v.push(("Serialize", serde_json::to_value(&o).ok().and_then(|x| x.as_str().map(str::to_owned)).ok_or(())));
            v.push(("Clone", Ok(o.clone().as_str().to_owned())));
            v.push(("String::from", Ok(String::from(o))));
        }
        v
    }};
}

/// T3 over the forms: same accept/reject everywhere, and an accepted identifier is stored
/// byte-for-byte. Returns whether the canonical form accepted.
fn check_forms(s: &str, forms: &[(&'static str, FormRes)], t3: &mut Vec<String>) -> bool {
    let accepted = forms[0].1.is_ok();
    for (name, r) in forms {
        match r {
            Ok(stored) => {
                if !accepted {
                    t3.push(format!("form `{name}` accepts what `{}` rejects", forms[0].0));
                } else if stored != s {
                    t3.push(format!("form `{name}` does not store the input byte-for-byte"));
                }
            }
            Err(()) => {
                if accepted {
                    t3.push(format!("form `{name}` rejects what `{}` accepts", forms[0].0));
                }
            }
        }
    }
    accepted
}

fn forms_of(kind: Kind, s: &str) -> Vec<(&'static str, FormRes)> {
    match kind {
        Kind::User => checked_forms!(UserId, OwnedUserId, s),
        Kind::Room => checked_forms!(RoomId, OwnedRoomId, s),
        Kind::Alias => checked_forms!(RoomAliasId, OwnedRoomAliasId, s),
        Kind::RoomOrAlias => checked_forms!(RoomOrAliasId, OwnedRoomOrAliasId, s),
        Kind::Event => checked_forms!(EventId, OwnedEventId, s),
        Kind::Server => checked_forms!(ServerName, OwnedServerName, s),
        Kind::KeyAny => checked_forms!(DeviceKeyId, OwnedDeviceKeyId, s),
        Kind::KeyVersion => checked_forms!(ServerSigningKeyId, OwnedServerSigningKeyId, s),
        Kind::KeyBase64 => checked_forms!(CrossSigningKeyId, OwnedCrossSigningKeyId, s),
        Kind::SigningKeyVersion => {
            checked_forms!(ServerSigningKeyVersion, OwnedServerSigningKeyVersion, s)
        }
        Kind::Base64PublicKey => checked_forms!(Base64PublicKey, OwnedBase64PublicKey, s),
        Kind::ClientSecret => checked_forms!(ClientSecret, OwnedClientSecret, s),
        Kind::SessionId => checked_forms!(SessionId, OwnedSessionId, s),
        Kind::RoomVersion => {
            let e = |_| ();
            let mut v: Vec<(&'static str, FormRes)> = vec![
                ("RoomVersionId: TryFrom<&str>", RoomVersionId::try_from(s).map(|x| x.as_str().to_owned()).map_err(e)),
                ("RoomVersionId: TryFrom<String>", RoomVersionId::try_from(s.to_owned()).map(|x| x.as_str().to_owned()).map_err(e)),
                ("RoomVersionId: FromStr", s.parse::<RoomVersionId>().map(|x| x.as_str().to_owned()).map_err(e)),
                (
                    "RoomVersionId: Deserialize(Value)",
                    serde_json::from_value::<RoomVersionId>(serde_json::Value::String(s.to_owned()))
                        .map(|x| x.as_str().to_owned())
                        .map_err(|_| ()),
                ),
                (
                    "RoomVersionId: Deserialize(text)",
                    serde_json::from_str::<RoomVersionId>(&serde_json::to_string(s).unwrap())
                        .map(|x| x.as_str().to_owned())
                        .map_err(|_| ()),
                ),
            ];
            if let Ok(o) = RoomVersionId::try_from(s) {
                v.push(("Display", Ok(o.to_string())));
                v.push(("String::from", Ok(String::from(o))));
            }
            v
        }
        Kind::Mxc => {
            // unchecked type: every form stores anything
            let j = serde_json::Value::String(s.to_owned());
            vec![
                ("<&MxcUri>::from", Ok(<&MxcUri>::from(s).as_str().to_owned())),
                ("OwnedMxcUri::from(&str)", Ok(OwnedMxcUri::from(s).as_str().to_owned())),
                ("OwnedMxcUri::from(String)", Ok(OwnedMxcUri::from(s.to_owned()).as_str().to_owned())),
                ("Box<MxcUri>::from", Ok(Box::<MxcUri>::from(s).as_str().to_owned())),
                ("OwnedMxcUri: Deserialize", serde_json::from_value::<OwnedMxcUri>(j.clone()).map(|x| x.as_str().to_owned()).map_err(|_| ())),
                ("Box<MxcUri>: Deserialize", serde_json::from_value::<Box<MxcUri>>(j).map(|x| x.as_str().to_owned()).map_err(|_| ())),
                ("Display", Ok(OwnedMxcUri::from(s).to_string())),
            ]
        }
    }
}

macro_rules! unchecked_forms {
    ($T:ty, $Owned:ty, $s:expr) => {{
        let s: &str = $s;
        let j = serde_json::Value::String(s.to_owned());
        let text = serde_json::to_string(s).unwrap();
        let v: Vec<(&'static str, FormRes)> = vec![
            ("<&T>::from(&str)", Ok(<&$T>::from(s).as_str().to_owned())),
            ("Owned::from(&str)", Ok(<$Owned>::from(s).as_str().to_owned())),
            ("Owned::from(String)", Ok(<$Owned>::from(s.to_owned()).as_str().to_owned())),
            ("Owned::from(Box<str>)", Ok(<$Owned>::from(Box::<str>::from(s)).as_str().to_owned())),
            ("Box<T>::from(&str)", Ok(Box::<$T>::from(s).as_str().to_owned())),
            ("Box<T>::from(String)", Ok(Box::<$T>::from(s.to_owned()).as_str().to_owned())),
            ("Owned: Deserialize(Value)", serde_json::from_value::<$Owned>(j.clone()).map(|x| x.as_str().to_owned()).map_err(|_| ())),
            ("Box<T>: Deserialize(Value)", serde_json::from_value::<Box<$T>>(j).map(|x| x.as_str().to_owned()).map_err(|_| ())),
            ("Owned: Deserialize(text)", serde_json::from_str::<$Owned>(&text).map(|x| x.as_str().to_owned()).map_err(|_| ())),
            ("Display", Ok(<$Owned>::from(s).to_string())),
            ("Serialize", serde_json::to_value(<$Owned>::from(s)).ok().and_then(|x| x.as_str().map(str::to_owned)).ok_or(())),
            ("Clone", Ok(<$Owned>::from(s).clone().as_str().to_owned())),
            ("String::from", Ok(String::from(<$Owned>::from(s)))),
        ];
        v
    }};
}

pub const OPAQUE: &[&str] = &["deviceid", "transactionid", "voipid", "onetimekeyname", "base64ordeviceid"];

fn run_opaque(ty: &str, s: &str) -> Outcome {
    let forms = match ty {
        "deviceid" => unchecked_forms!(DeviceId, OwnedDeviceId, s),
        "transactionid" => unchecked_forms!(TransactionId, OwnedTransactionId, s),
        "voipid" => unchecked_forms!(VoipId, OwnedVoipId, s),
        "onetimekeyname" => unchecked_forms!(OneTimeKeyName, OwnedOneTimeKeyName, s),
        "base64ordeviceid" => unchecked_forms!(Base64PublicKeyOrDeviceId, OwnedBase64PublicKeyOrDeviceId, s),
        _ => return Outcome::bad(),
    };
    let mut t3 = vec![];
    for (name, r) in &forms {
        match r {
            Ok(stored) if stored == s => {}
            Ok(_) => t3.push(format!("form `{name}` does not store the input byte-for-byte")),
            Err(()) => t3.push(format!("form `{name}` rejects a string although the type is unchecked")),
        }
    }
    Outcome { imp: format!("ok {}", stok(s)), t3 }
}

/// Does the canonical public form accept `s`? (For `MxcUri`: `is_valid()`.)
fn accepted(kind: Kind, s: &str) -> bool {
    match kind {
        Kind::Mxc => <&MxcUri>::from(s).is_valid(),
        _ => forms_of(kind, s)[0].1.is_ok(),
    }
}

// ------------------------------------------------------------------------------------------
// c10.id
// ------------------------------------------------------------------------------------------

fn g_str<'a>(f: impl FnOnce() -> &'a str) -> Result<String, ()> {
    h_util::guarded(|| f().to_owned())
}
fn tok(r: &Result<String, ()>) -> String {
    match r {
        Ok(s) => stok(s),
        Err(()) => "panic".into(),
    }
}
fn otok(r: &Result<Option<String>, ()>) -> String {
    match r {
        Ok(Some(s)) => stok(s),
        Ok(None) => "n".into(),
        Err(()) => "panic".into(),
    }
}
fn btok(r: &Result<bool, ()>) -> String {
    match r {
        Ok(true) => "t".into(),
        Ok(false) => "f".into(),
        Err(()) => "panic".into(),
    }
}

/// Oracles on the two parts an accessor pair returns: the localpart has no colon (and no NUL where
/// the specification forbids it), the server name is one the `ServerName` parser accepts.
fn parts_ok(t3: &mut Vec<String>, ty: &str, lp: Option<&str>, srv: Option<&str>, nul_forbidden: bool) {
    if let Some(lp) = lp {
        if lp.contains(':') || (nul_forbidden && lp.contains('\0')) {
            t3.push(format!("{ty}: the localpart accessor returns a string with ':' or NUL"));
        }
    }
    if let Some(srv) = srv {
        match <&ServerName>::try_from(srv) {
            Err(_) => t3.push(format!("{ty}: server_name() returns a string the ServerName parser rejects")),
            Ok(sn) => {
                // the accessors of the returned server name must not panic either
                if h_util::guarded(|| (sn.host().to_owned(), sn.port(), sn.is_ip_literal())).is_err() {
                    t3.push(format!("{ty}: host()/port()/is_ip_literal() of the server name returned by server_name() panicked"));
                }
            }
        }
    }
}

/// The specification's user ID grammars on a localpart: (current grammar, historical grammar).
fn user_grammars(lp: &str) -> (bool, bool) {
    let strict = !lp.is_empty()
        && lp.bytes().all(|b| b.is_ascii_digit() || b.is_ascii_lowercase() || b"-.=_/+".contains(&b));
    let historical = !lp.is_empty() && lp.bytes().all(|b| (0x21..=0x7e).contains(&b) && b != b':');
    (strict, historical)
}

fn recompose(t3: &mut Vec<String>, what: &str, s: &str, parts: Option<String>) {
    if let Some(p) = parts {
        if p != s {
            t3.push(format!("{what} do not recompose to the original string"));
        }
    }
}

fn key_fields<'a, A, K>(
    id: &'a ruma_common::KeyId<A, K>,
    s: &str,
    t3: &mut Vec<String>,
) -> Vec<String>
where
    A: ruma_common::KeyAlgorithm,
    K: ruma_common::KeyName + ?Sized + 'a,
    &'a K: TryFrom<&'a str>,
{
    let alg = h_util::guarded(|| id.algorithm().as_ref().to_owned());
    let name = h_util::guarded(|| id.key_name().as_ref().to_owned());
    recompose(
        t3,
        "algorithm ++ \":\" ++ key_name",
        s,
        alg.as_ref().ok().zip(name.as_ref().ok()).map(|(a, n)| format!("{a}:{n}")),
    );
    vec![tok(&alg), tok(&name)]
}

/// Accessor outputs of an accepted identifier (each under its own `catch_unwind`), plus the
/// recomposition oracles.
fn fields(kind: Kind, s: &str, t3: &mut Vec<String>) -> Vec<String> {
    match kind {
        Kind::User => {
            let id = <&UserId>::try_from(s).unwrap();
            let lp = g_str(|| id.localpart());
            let srv = g_str(|| id.server_name().as_str());
            let strict = h_util::guarded(|| id.validate_strict().is_ok());
            let hist = h_util::guarded(|| id.is_historical());
            recompose(
                t3,
                "\"@\" ++ localpart ++ \":\" ++ server_name",
                s,
                lp.as_ref().ok().zip(srv.as_ref().ok()).map(|(l, v)| format!("@{l}:{v}")),
            );
            if let (Ok(h), Ok(st)) = (&hist, &strict) {
                if id.validate_historical().is_ok() != (*h || *st) {
                    t3.push("validate_historical() != is_historical() || validate_strict()".into());
                }
                // against the specification's two grammars, on the localpart cut from the string
                let (g_strict, g_hist) = user_grammars(&s[1..s.find(':').unwrap_or(s.len())]);
                if *st != g_strict {
                    t3.push("validate_strict() differs from the specification's user ID grammar".into());
                }
                if *h != (g_hist && !g_strict) {
                    t3.push("is_historical() differs from the specification's historical user ID grammar".into());
                }
            }
            parts_ok(t3, "UserId", lp.as_deref().ok(), srv.as_deref().ok(), true);
            vec![tok(&lp), tok(&srv), btok(&strict), btok(&hist)]
        }
        Kind::Alias => {
            let id = <&RoomAliasId>::try_from(s).unwrap();
            let lp = g_str(|| id.alias());
            let srv = g_str(|| id.server_name().as_str());
            recompose(
                t3,
                "\"#\" ++ alias ++ \":\" ++ server_name",
                s,
                lp.as_ref().ok().zip(srv.as_ref().ok()).map(|(l, v)| format!("#{l}:{v}")),
            );
            parts_ok(t3, "RoomAliasId", lp.as_deref().ok(), srv.as_deref().ok(), true);
            vec![tok(&lp), tok(&srv)]
        }
        Kind::Room => {
            let id = <&RoomId>::try_from(s).unwrap();
            let srv = h_util::guarded(|| id.server_name().map(|x| x.as_str().to_owned()));
            if let Ok(Some(v)) = &srv {
                if !s.ends_with(&format!(":{v}")) {
                    t3.push("RoomId::server_name is not a suffix after a colon".into());
                }
            }
            vec![otok(&srv)]
        }
        Kind::RoomOrAlias => {
            let id = <&RoomOrAliasId>::try_from(s).unwrap();
            let is_room = h_util::guarded(|| id.is_room_id());
            let is_alias = h_util::guarded(|| id.is_room_alias_id());
            if let (Ok(a), Ok(b)) = (&is_room, &is_alias) {
                if a == b {
                    t3.push("is_room_id() == is_room_alias_id()".into());
                }
            }
            let srv = h_util::guarded(|| id.server_name().map(|x| x.as_str().to_owned()));
            if let Ok(Some(v)) = &srv {
                if !s.ends_with(&format!(":{v}")) {
                    t3.push("RoomOrAliasId::server_name is not a suffix after a colon".into());
                }
            }
            // a room-or-alias ID is a room ID or a room alias: the specific parsers agree
            if <&RoomId>::try_from(s).is_ok() == <&RoomAliasId>::try_from(s).is_ok() {
                t3.push("RoomOrAliasId accepts a string that is not exactly one of RoomId / RoomAliasId".into());
            }
            if let (Ok(a), Ok(b)) = (&is_room, <&RoomId>::try_from(s)) {
                if !*a || b.as_str() != s {
                    t3.push("is_room_id() is false on a string RoomId accepts".into());
                }
            }
            // conversions to the specific types keep the bytes
            if let Ok(r) = <&RoomId>::try_from(id) {
                if r.as_str() != s {
                    t3.push("RoomOrAliasId -> RoomId changes the bytes".into());
                }
            }
            vec![btok(&is_room), otok(&srv)]
        }
        Kind::Event => {
            let id = <&EventId>::try_from(s).unwrap();
            let lp = g_str(|| id.localpart());
            let srv = h_util::guarded(|| id.server_name().map(|x| x.as_str().to_owned()));
            recompose(
                t3,
                "\"$\" ++ localpart ++ (\":\" ++ server_name)?",
                s,
                lp.as_ref().ok().zip(srv.as_ref().ok()).map(|(l, v)| match v {
                    Some(v) => format!("${l}:{v}"),
                    None => format!("${l}"),
                }),
            );
            parts_ok(t3, "EventId", lp.as_deref().ok(), srv.as_ref().ok().and_then(|v| v.as_deref()), false);
            vec![tok(&lp), otok(&srv)]
        }
        Kind::Server => {
            let id = <&ServerName>::try_from(s).unwrap();
            let host = g_str(|| id.host());
            let port = h_util::guarded(|| id.port());
            let ip = h_util::guarded(|| id.is_ip_literal());
            if let (Ok(h), Ok(p)) = (&host, &port) {
                let ok = match p {
                    None => h == s,
                    Some(p) => s
                        .strip_prefix(h.as_str())
                        .and_then(|r| r.strip_prefix(':'))
                        .is_some_and(|d| {
                            !d.is_empty()
                                && d.bytes().all(|b| b.is_ascii_digit())
                                && d.parse::<u32>().ok() == Some(u32::from(*p))
                        }),
                };
                if !ok {
                    t3.push("host ++ (\":\" ++ port)? does not recompose to the original string".into());
                }
            }
            // an IP literal is a bracketed literal or a dotted quad (host = the part before `:port`)
            if let Ok(v) = &ip {
                let h = if s.starts_with('[') { "" } else { s.split(':').next().unwrap_or("") };
                if *v != (s.starts_with('[') || Ipv4Addr::from_str(h).is_ok()) {
                    t3.push("is_ip_literal() is not \"bracketed IPv6 literal or IPv4 dotted quad\"".into());
                }
            }
            let ptok = match &port {
                Ok(Some(p)) => format!("i{p}"),
                Ok(None) => "n".into(),
                Err(()) => "panic".into(),
            };
            vec![tok(&host), ptok, btok(&ip)]
        }
        Kind::KeyAny => key_fields(<&DeviceKeyId>::try_from(s).unwrap(), s, t3),
        Kind::KeyVersion => key_fields(<&ServerSigningKeyId>::try_from(s).unwrap(), s, t3),
        Kind::KeyBase64 => key_fields(<&CrossSigningKeyId>::try_from(s).unwrap(), s, t3),
        _ => vec![],
    }
}

fn run_mxc(s: &str, t3: &mut Vec<String>) -> String {
    let forms = forms_of(Kind::Mxc, s);
    check_forms(s, &forms, t3);
    let id = <&MxcUri>::from(s);
    let valid = h_util::guarded(|| id.is_valid());
    let parts = h_util::guarded(|| id.parts().map(|(a, b)| (a.as_str().to_owned(), b.to_owned())).map_err(drop));
    let ptoks = match &parts {
        Ok(Ok((a, b))) => {
            if format!("mxc://{a}/{b}") != s {
                t3.push("\"mxc://\" ++ server_name ++ \"/\" ++ media_id does not recompose".into());
            }
            if <&ServerName>::try_from(a.as_str()).is_err() {
                t3.push("MxcUri::parts returns a server name the ServerName parser rejects".into());
            }
            if let (Ok(sn), Ok(m)) = (h_util::guarded(|| id.server_name().map(|x| x.as_str().to_owned())), h_util::guarded(|| id.media_id().map(str::to_owned))) {
                if sn.ok().as_deref() != Some(a.as_str()) || m.ok().as_deref() != Some(b.as_str()) {
                    t3.push("MxcUri::server_name/media_id disagree with parts".into());
                }
            }
            format!("{} {}", stok(a), stok(b))
        }
        Ok(Err(())) => "err err".into(),
        Err(()) => "panic panic".into(),
    };
    if valid.is_err() || parts.is_err() {
        t3.push("MxcUri::is_valid() / parts() panicked".into());
    }
    if let Ok(Ok((a, _))) = &parts {
        if let Ok(sn) = <&ServerName>::try_from(a.as_str()) {
            if h_util::guarded(|| (sn.host().to_owned(), sn.port(), sn.is_ip_literal())).is_err() {
                t3.push("host()/port()/is_ip_literal() of the server name returned by MxcUri::parts() panicked".into());
            }
        }
    }
    if let (Ok(v), Ok(p)) = (&valid, &parts) {
        if *v != p.is_ok() {
            t3.push("MxcUri::is_valid disagrees with parts().is_ok()".into());
        }
    }
    format!("ok {} {} {ptoks}", stok(s), btok(&valid))
}

fn run_id(kind: Kind, s: &str, compact: bool, t3: &mut Vec<String>) -> String {
    if kind == Kind::Mxc {
        return run_mxc(s, t3);
    }
    let forms = forms_of(kind, s);
    if !check_forms(s, &forms, t3) {
        return if compact { "e".into() } else { "err".into() };
    }
    let f = fields(kind, s, t3);
    if f.iter().any(|t| t == "panic") {
        // "accessors never panic": a panic of an accessor on an identifier the parser accepted is a
        // violation by itself, whatever the model says about acceptance
        t3.push(format!("an accessor of the accepted {kind:?} identifier panicked"));
    }
    let mut out = if compact { vec!["o".to_owned()] } else { vec!["ok".to_owned(), stok(s)] };
    out.extend(f);
    out.join(" ")
}

// ------------------------------------------------------------------------------------------
// constructors
// ------------------------------------------------------------------------------------------

fn run_pwsn(id: &str, server: &str) -> Outcome {
    let Ok(srv) = <&ServerName>::try_from(server) else { return Outcome::new("err") };
    let mut t3 = vec![];
    let a = UserId::parse_with_server_name(id, srv).map(|x| x.as_str().to_owned()).map_err(drop);
    let b = UserId::parse_with_server_name_rc(id, srv).map(|x| x.as_str().to_owned()).map_err(drop);
    let c = UserId::parse_with_server_name_arc(id, srv).map(|x| x.as_str().to_owned()).map_err(drop);
    if a != b || a != c {
        t3.push("parse_with_server_name, _rc and _arc disagree".into());
    }
    let imp = match &a {
        Err(()) => "err".to_owned(),
        Ok(r) => {
            match <&UserId>::try_from(r.as_str()) {
                Err(_) => t3.push("parse_with_server_name built a user ID the parser rejects".into()),
                Ok(u) => {
                    if !id.starts_with('@') && (u.localpart() != id || u.server_name() != srv) {
                        t3.push("parse_with_server_name result does not have the given localpart and server name".into());
                    }
                }
            }
            if id.starts_with('@') && r != id {
                t3.push("parse_with_server_name changed a full user ID".into());
            }
            format!("ok {}", stok(r))
        }
    };
    Outcome { imp, t3 }
}

fn run_key_ctor(kind: Kind, alg: &str, name: &str) -> Outcome {
    let mut t3 = vec![];
    let well_formed_alg = !alg.is_empty() && !alg.contains(':');
    let mut check = |built: &str, reparsed: Option<(String, String)>| match reparsed {
        None => {
            if well_formed_alg {
                t3.push("KeyId::from_parts built a key ID the parser rejects".into());
            }
        }
        Some((a, n)) => {
            if well_formed_alg && (a != alg || n != name) {
                t3.push("KeyId::from_parts result does not have the given algorithm and key name".into());
            }
            if built != format!("{alg}:{name}") {
                t3.push("KeyId::from_parts is not algorithm ++ \":\" ++ key_name".into());
            }
        }
    };
    let built = match kind {
        Kind::KeyAny => {
            let k = DeviceKeyId::from_parts(DeviceKeyAlgorithm::from(alg), <&DeviceId>::from(name));
            let r = <&DeviceKeyId>::try_from(k.as_str())
                .ok()
                .map(|p| (p.algorithm().as_ref().to_owned(), p.key_name().as_str().to_owned()));
            check(k.as_str(), r);
            k.as_str().to_owned()
        }
        Kind::KeyVersion => {
            let Ok(n) = <&ServerSigningKeyVersion>::try_from(name) else { return Outcome::bad() };
            let k = ServerSigningKeyId::from_parts(SigningKeyAlgorithm::from(alg), n);
            let r = <&ServerSigningKeyId>::try_from(k.as_str())
                .ok()
                .map(|p| (p.algorithm().as_ref().to_owned(), p.key_name().as_str().to_owned()));
            check(k.as_str(), r);
            k.as_str().to_owned()
        }
        Kind::KeyBase64 => {
            let Ok(n) = <&Base64PublicKey>::try_from(name) else { return Outcome::bad() };
            let k = CrossSigningKeyId::from_parts(SigningKeyAlgorithm::from(alg), n);
            let r = <&CrossSigningKeyId>::try_from(k.as_str())
                .ok()
                .map(|p| (p.algorithm().as_ref().to_owned(), p.key_name().as_str().to_owned()));
            check(k.as_str(), r);
            k.as_str().to_owned()
        }
        _ => return Outcome::bad(),
    };
    Outcome { imp: format!("ok {}", stok(&built)), t3 }
}

fn run_new(kind: Kind, server: &str) -> Outcome {
    let Ok(srv) = <&ServerName>::try_from(server) else { return Outcome::bad() };
    let mut t3 = vec![];
    let (built, sigil, n, lower) = match kind {
        Kind::User => (UserId::new(srv).as_str().to_owned(), '@', 12, true),
        Kind::Room => (RoomId::new(srv).as_str().to_owned(), '!', 18, false),
        Kind::Event => (EventId::new(srv).as_str().to_owned(), '$', 18, false),
        _ => return Outcome::bad(),
    };
    let shape = built.strip_prefix(sigil).and_then(|r| r.strip_suffix(server)).and_then(|r| r.strip_suffix(':'));
    match shape {
        Some(lp)
            if lp.len() == n
                && lp.bytes().all(|b| b.is_ascii_alphanumeric() && !(lower && b.is_ascii_uppercase())) => {}
        _ => t3.push(format!("{}::new is not sigil ++ {n} alphanumerics ++ \":\" ++ server", kind.name())),
    }
    // no exception for over-long results: the known finding (server names of >= 242 / 236 bytes)
    // is replayed here on every run and suppressed only by its entry in findings/C10.json
    if !accepted(kind, &built) {
        t3.push(format!("{}::new built an identifier the parser rejects ({} bytes)", kind.name(), built.len()));
    }
    if kind == Kind::User && built.len() <= 255 {
        if let Ok(u) = <&UserId>::try_from(built.as_str()) {
            if u.validate_strict().is_err() {
                t3.push("UserId::new built a user ID that fails validate_strict".into());
            }
        }
    }
    Outcome { imp: "ok".into(), t3 }
}

fn run_secret() -> Outcome {
    let mut t3 = vec![];
    let c = ClientSecret::new();
    let s = c.as_str();
    if !(s.len() == 32 && s.bytes().all(|b| b.is_ascii_digit() || (b'a'..=b'f').contains(&b))) {
        t3.push("ClientSecret::new() is not 32 lower-case hex digits".into());
    }
    if !accepted(Kind::ClientSecret, s) {
        t3.push("ClientSecret::new() built a secret the parser rejects".into());
    }
    Outcome { imp: "ok".into(), t3 }
}

fn run_voipver(tok: &str) -> Outcome {
    use ruma_common::VoipVersionId;
    let mut t3 = vec![];
    if let Some(s) = arg(tok) {
        let forms: Vec<(&str, Option<String>)> = vec![
            ("From<&str>", Some(VoipVersionId::from(s.as_str()).as_str().to_owned())),
            ("From<String>", Some(VoipVersionId::from(s.clone()).as_str().to_owned())),
            ("Deserialize", serde_json::from_value::<VoipVersionId>(serde_json::Value::String(s.clone())).ok().map(|v| v.as_str().to_owned())),
            ("Display", Some(VoipVersionId::from(s.as_str()).to_string())),
            ("String::from", Some(String::from(VoipVersionId::from(s.as_str())))),
            ("Serialize", serde_json::to_value(VoipVersionId::from(s.as_str())).ok().and_then(|v| v.as_str().map(str::to_owned))),
        ];
        for (name, r) in forms {
            if r.as_deref() != Some(s.as_str()) {
                t3.push(format!("VoipVersionId form `{name}` does not store the string byte-for-byte"));
            }
        }
        return Outcome { imp: format!("ok {}", stok(&s)), t3 };
    }
    let Some(n) = tok.strip_prefix('i').and_then(|n| n.parse::<u64>().ok()) else { return Outcome::bad() };
    let Ok(u) = js_int::UInt::try_from(n) else { return Outcome::bad() };
    let a = VoipVersionId::try_from(u).map(|v| v.as_str().to_owned()).map_err(drop);
    let b = serde_json::from_value::<VoipVersionId>(serde_json::json!(n)).map(|v| v.as_str().to_owned()).map_err(drop);
    if a != b {
        t3.push("VoipVersionId: TryFrom<UInt> and Deserialize(number) disagree".into());
    }
    if a.is_ok() != (n == 0) {
        t3.push("VoipVersionId: an integer other than 0 is accepted (or 0 is rejected)".into());
    }
    if let Ok(v) = VoipVersionId::try_from(u) {
        if serde_json::to_value(&v).ok() != Some(serde_json::json!(0)) {
            t3.push("VoipVersionId::V0 does not serialize as the number 0".into());
        }
    }
    Outcome { imp: match a { Ok(s) => format!("ok {}", stok(&s)), Err(()) => "err".into() }, t3 }
}

fn run_b64(bytes: &[u8]) -> Outcome {
    use ruma_common::serde::{base64::Standard, Base64};
    let mut t3 = vec![];
    let a = h_util::guarded(|| OwnedBase64PublicKey::with_bytes(bytes).as_str().to_owned());
    let b = h_util::guarded(|| OwnedBase64PublicKey::from(Base64::<Standard, _>::new(bytes.to_vec())).as_str().to_owned());
    if a != b {
        t3.push("with_bytes and From<Base64<Standard, _>> disagree".into());
    }
    let imp = match &a {
        Err(()) => {
            t3.push("OwnedBase64PublicKey::with_bytes panicked (its unreachable!() was reached)".into());
            "panic".to_owned()
        }
        Ok(r) => {
            if !accepted(Kind::Base64PublicKey, r) {
                t3.push("with_bytes built a key the Base64PublicKey parser rejects".into());
            }
            match <&Base64PublicKey>::try_from(r.as_str()).ok().and_then(|k| Base64::<Standard, Vec<u8>>::try_from(k).ok()) {
                Some(d) if d.as_bytes() == bytes => {}
                _ => t3.push("with_bytes result does not decode back to the given bytes".into()),
            }
            format!("ok {}", stok(r))
        }
    };
    Outcome { imp, t3 }
}

// ------------------------------------------------------------------------------------------
// request dispatch
// ------------------------------------------------------------------------------------------

fn arg(t: &str) -> Option<String> {
    h_util::unhex_str(t.strip_prefix('s')?)
}

pub fn run(req: &str) -> Outcome {
    let toks: Vec<&str> = req.split(' ').collect();
    let bad = Outcome::bad;
    match toks[0] {
        "c10.id" => {
            let (Some(kind), Some(s)) = (toks.get(1).and_then(|k| Kind::parse(k)), toks.get(2).and_then(|t| arg(t))) else {
                return bad();
            };
            let mut t3 = vec![];
            let imp = run_id(kind, &s, false, &mut t3);
            Outcome { imp, t3 }
        }
        "c10.exh" => {
            let (Some(kind), Some(pre)) = (toks.get(1).and_then(|k| Kind::parse(k)), toks.get(2).and_then(|t| arg(t))) else {
                return bad();
            };
            let mut t3 = vec![];
            let mut parts = vec![];
            for a in gen::ALPHABET {
                for b in gen::ALPHABET {
                    let mut s = pre.clone();
                    s.push(*a as char);
                    s.push(*b as char);
                    let mut t = vec![];
                    let r = match h_util::guarded(|| {
                        let mut t = vec![];
                        let r = run_id(kind, &s, true, &mut t);
                        (r, t)
                    }) {
                        Ok((r, tt)) => {
                            t = tt;
                            r
                        }
                        Err(()) => "panic".to_owned(),
                    };
                    if r == "panic" {
                        t.push("implementation panicked".into());
                    }
                    for x in t {
                        t3.push(format!("{}: {x}", stok(&s)));
                    }
                    parts.push(r);
                }
            }
            Outcome { imp: parts.join(" ; "), t3 }
        }
        "c10.strict" => {
            let Some(s) = toks.get(1).and_then(|t| arg(t)) else { return bad() };
            let r = ruma_identifiers_validation::user_id::validate_strict(&s);
            Outcome::new(if r.is_ok() { "ok" } else { "err" })
        }
        "c10.spec.struct" | "c10.spec.gram" | "c10.spec.tight" => {
            let (Some(kind), Some(s)) = (toks.get(1).and_then(|k| Kind::parse(k)), toks.get(2).and_then(|t| arg(t))) else {
                return bad();
            };
            let acc = accepted(kind, &s);
            let v = if toks[0] == "c10.spec.struct" {
                spec::structure(kind, s.as_bytes()) || acc
            } else if toks[0] == "c10.spec.tight" {
                if !spec::tight_applies(kind, s.as_bytes()) {
                    return Outcome::new("na");
                }
                spec::structure(kind, s.as_bytes()) && !spec::struct_big_port(kind, s.as_bytes()) && acc
            } else {
                spec::grammar(kind, s.as_bytes()) && acc
            };
            Outcome::new(if v { "t" } else { "f" })
        }
        "c10.ctor.pwsn" => {
            let (Some(id), Some(srv)) = (toks.get(1).and_then(|t| arg(t)), toks.get(2).and_then(|t| arg(t))) else {
                return bad();
            };
            run_pwsn(&id, &srv)
        }
        "c10.ctor.key" => {
            let (Some(kind), Some(alg), Some(name)) =
                (toks.get(1).and_then(|k| Kind::parse(k)), toks.get(2).and_then(|t| arg(t)), toks.get(3).and_then(|t| arg(t)))
            else {
                return bad();
            };
            run_key_ctor(kind, &alg, &name)
        }
        "c10.ip6" | "c10.ip4" | "c10.ipexh" => ip::run(&toks),
        "c10.ctor.secret" => {
            if toks.len() != 1 {
                return bad();
            }
            run_secret()
        }
        "c10.voipver" => {
            if toks.len() != 2 {
                return bad();
            }
            run_voipver(toks[1])
        }
        "c10.opaque" => {
            if toks.len() != 3 {
                return bad();
            }
            let Some(s) = arg(toks[2]) else { return bad() };
            run_opaque(toks[1], &s)
        }
        "c10.ctor.b64" => {
            if toks.len() != 2 {
                return bad();
            }
            let Some(bytes) = toks[1].strip_prefix('s').and_then(h_util::unhex) else { return bad() };
            run_b64(&bytes)
        }
        "c10.ctor.new" => {
            let (Some(kind), Some(srv)) = (toks.get(1).and_then(|k| Kind::parse(k)), toks.get(2).and_then(|t| arg(t))) else {
                return bad();
            };
            run_new(kind, &srv)
        }
        _ => bad(),
    }
}

// ------------------------------------------------------------------------------------------
// generation
// ------------------------------------------------------------------------------------------

fn id_requests(kind: Kind, s: &str, src: &str, with_spec: bool, out: &mut Vec<Req>) {
    let ora = oracles(&[s], kind == Kind::Server);
    let k = kind.name();
    out.push(Req::new(format!("c10.id {k} {} {ora}", stok(s)), format!("{k}-{src}.id")));
    if with_spec {
        out.push(Req::new(format!("c10.spec.struct {k} {} {ora}", stok(s)), format!("{k}-{src}.struct")));
        out.push(Req::new(format!("c10.spec.gram {k} {} {ora}", stok(s)), format!("{k}-{src}.gram")));
        out.push(Req::new(format!("c10.spec.tight {k} {} {ora}", stok(s)), format!("{k}-{src}.tight")));
    }
    if kind == Kind::User {
        out.push(Req::new(format!("c10.strict {} {ora}", stok(s)), format!("{k}-{src}.strict")));
    }
}

fn exh_requests(kind: Kind, max_prefix: usize, out: &mut Vec<Req>) {
    if kind == Kind::Mxc {
        // the alphabet has no `/`: enumerate the server name before a fixed media id is not
        // possible with this op, so enumerate the media id after a fixed server name as well
        exh_requests_lead(kind, "mxc://h/", max_prefix, out);
    }
    exh_requests_lead(kind, if kind == Kind::Mxc { "mxc://" } else { "" }, max_prefix, out);
}

fn exh_requests_lead(kind: Kind, lead: &str, max_prefix: usize, out: &mut Vec<Req>) {
    let k = kind.name();
    // lengths 0 and 1 one by one
    for len in 0..=1 {
        for w in gen::words(len) {
            let s = format!("{lead}{}", String::from_utf8(w).unwrap());
            id_requests(kind, &s, "exh", true, out);
        }
    }
    for len in 0..=max_prefix {
        for w in gen::words(len) {
            let pre = format!("{lead}{}", String::from_utf8(w).unwrap());
            let mut m = BTreeMap::new();
            for a in gen::ALPHABET {
                for b in gen::ALPHABET {
                    let mut s = pre.clone();
                    s.push(*a as char);
                    s.push(*b as char);
                    add_oracles(&s, kind == Kind::Server, &mut m);
                }
            }
            out.push(Req::new(format!("c10.exh {k} {} {}", stok(&pre), table(&m)), format!("{k}-exh.exh")));
        }
    }
}

fn ctor_requests(rng: &mut Rng, out: &mut Vec<Req>) {
    let server = gen::gen_good_server(rng);
    match rng.below(5) {
        4 => {
            // with_bytes: every short length (0 = the known finding), sometimes longer
            let n = if rng.chance(1, 6) { rng.range(30, 70) as usize } else { rng.below(8) };
            let bytes: Vec<u8> = (0..n).map(|_| if rng.chance(1, 4) { *rng.pick(&[0u8, 255, 251, 239, 62, 63]) } else { rng.below(256) as u8 }).collect();
            out.push(Req::new(format!("c10.ctor.b64 s{}", h_util::hex(&bytes)), "ctor-b64.ctor"));
        }
        0 | 1 => {
            // parse_with_server_name: full user IDs, localparts, boundary lengths, junk
            let id = match rng.below(7) {
                0 => gen::gen_valid(Kind::User, rng),
                1 => gen::mutate(&gen::gen_valid(Kind::User, rng), rng),
                2 => "a".repeat(gen::boundary_len(rng)),
                3 => "a".repeat((255usize).saturating_sub(server.len() + rng.below(5))),
                4 => gen::gen_junk(rng),
                _ => gen::gen_localpart(rng),
            };
            let full = format!("@{id}:{server}");
            let ora = oracles(&[&id, &server, &full], false);
            out.push(Req::new(format!("c10.ctor.pwsn {} {} {ora}", stok(&id), stok(&server)), "ctor-pwsn.ctor"));
        }
        2 => {
            let kind = *rng.pick(&[Kind::KeyAny, Kind::KeyVersion, Kind::KeyBase64]);
            let alg = match rng.below(8) {
                0 => "a".repeat(gen::boundary_len(rng)),
                1 => (*rng.pick(&["", "a:b", ":", "é"])).to_owned(),
                _ => (*rng.pick(&["ed25519", "curve25519", "signed_curve25519", "hmac-sha256", "x.y", "custom"])).to_owned(),
            };
            let name = match (kind, rng.below(6)) {
                (Kind::KeyAny, 0) => "D".repeat(gen::boundary_len(rng)),
                (Kind::KeyAny, 1) => (*rng.pick(&["", "a:b", "é", "\u{0}"])).to_owned(),
                _ => loop {
                    let n = gen::gen_key_name(kind, rng);
                    let ok = match kind {
                        Kind::KeyVersion => <&ServerSigningKeyVersion>::try_from(n.as_str()).is_ok(),
                        Kind::KeyBase64 => <&Base64PublicKey>::try_from(n.as_str()).is_ok(),
                        _ => true,
                    };
                    if ok {
                        break n;
                    }
                },
            };
            out.push(Req::new(format!("c10.ctor.key {} {} {}", kind.name(), stok(&alg), stok(&name)), "ctor-key.ctor"));
        }
        _ => {
            let kind = *rng.pick(&[Kind::User, Kind::Room, Kind::Event]);
            let server = if rng.chance(1, 4) { format!("{}.org", "a".repeat(rng.range(225, 245) as usize)) } else { server };
            out.push(Req::new(format!("c10.ctor.new {} {}", kind.name(), stok(&server)), "ctor-new.ctor"));
        }
    }
}

fn gen(rng: &mut Rng, n: usize, tier: &str) -> Vec<Req> {
    let mut out = Vec::new();
    // the IPv6 table through the server-name and user-id parsers
    for a in gen::IPV6 {
        for s in [format!("[{a}]"), format!("[{a}]:8448"), format!("{a}")] {
            id_requests(Kind::Server, &s, "ipv6", true, &mut out);
        }
        id_requests(Kind::User, &format!("@a:[{a}]:1"), "ipv6", true, &mut out);
        id_requests(Kind::Mxc, &format!("mxc://[{a}]/m"), "ipv6", true, &mut out);
    }
    // exhaustive short strings
    let max_prefix = if tier == "thorough" { 3 } else { 1 };
    for k in KINDS {
        exh_requests(*k, max_prefix, &mut out);
    }
    // the std::net parsers against their Lean reference
    ip::ip_requests(rng, n / 3, tier, &mut out);
    // random stream
    for i in 0..n {
        if i % 16 == 0 {
            let ty = *rng.pick(OPAQUE);
            let s = match rng.below(4) {
                0 => gen::gen_junk(rng),
                1 => gen::gen_boundary(Kind::ClientSecret, rng),
                _ => gen::gen_valid(*rng.pick(KINDS), rng),
            };
            out.push(Req::new(format!("c10.opaque {ty} {}", stok(&s)), format!("{ty}.opaque")));
            if i % 64 == 0 {
                out.push(Req::new("c10.ctor.secret", "ctor-secret.ctor"));
                let v = match rng.below(3) {
                    0 => format!("i{}", *rng.pick(&[0u64, 1, 2, 255, 9007199254740991])),
                    1 => stok(*rng.pick(&["0", "1", "2", "", "01", "é", "1 ", "v1"])),
                    _ => stok(&gen::gen_junk(rng)),
                };
                out.push(Req::new(format!("c10.voipver {v}"), "voipver.opaque"));
            }
        }
        let kind = *rng.pick(KINDS);
        let (s, src) = match rng.below(20) {
            0..=5 => (gen::gen_valid(kind, rng), "valid"),
            6..=11 => (gen::mutate(&gen::gen_valid(kind, rng), rng), "mutant"),
            12..=14 => (gen::gen_boundary(kind, rng), "boundary"),
            15 => (gen::mutate(&gen::gen_boundary(kind, rng), rng), "boundary-mutant"),
            16 => (gen::gen_junk(rng), "junk"),
            17 => {
                let other = *rng.pick(KINDS);
                (gen::gen_valid(other, rng), "cross")
            }
            _ => {
                ctor_requests(rng, &mut out);
                continue;
            }
        };
        id_requests(kind, &s, src, true, &mut out);
    }
    out
}

fn main() {
    h_lib::std_main(None, &gen, &run);
}
