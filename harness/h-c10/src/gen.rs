//! Input generators for C10: grammar-derived valid identifiers, single-edit mutants, boundary
//! lengths (250–260 and k·256 ± 6 per component), non-ASCII / control characters, unstructured
//! strings, the IPv6 table, and the exhaustive short-string enumeration.
use h_lib::Rng;

use crate::Kind;

/// RFC 4291 §2.2 / RFC 5952 text forms and near misses, for the `Ipv6Addr::from_str` parameter.
pub const IPV6: &[&str] = &[
    "::", "::1", "1::", "::0", "0::", "2001:db8::1", "2001:DB8:0:0:8:800:200C:417A", "ff01::101",
    "FF01:0:0:0:0:0:0:101", "0:0:0:0:0:0:0:1", "0:0:0:0:0:0:0:0", "::ffff:192.0.2.1",
    "::13.1.68.3", "0:0:0:0:0:0:13.1.68.3", "0:0:0:0:0:FFFF:129.144.52.38", "::FFFF:129.144.52.38",
    "1:2:3:4:5:6:7:8", "1:2:3:4:5:6:7::", "::2:3:4:5:6:7:8", "1::8", "1:2:3:4:5:6:1.2.3.4",
    "2001:db8:0:0:1:0:0:1", "2001:db8::1:0:0:1", "2001:0db8::0001", "fe80::1", "1234:5678::abcd",
    "2001:db8:85a3::8a2e:370:7334", "::ffff:0:0", "64:ff9b::192.0.2.33",
    // near misses
    "", ":", ":::", "1:2:3:4:5:6:7:8:9", "1:2:3:4:5:6:7", "1::2::3", "12345::", "g::1", "::1%eth0",
    "1.2.3.4", "::ffff:1.2.3.256", "::1.2.3", "1:2:3:4:5:6:7:1.2.3.4", ":1", "1:", "::1 ", " ::1",
    "[::1]", "::1]", "0x1::", "-1::", "+1::", "::00001", "1::2:3:4:5:6:7:8", "::é",
];

const LABELS: &[&str] = &[
    "a", "b", "example", "matrix", "org", "com", "localhost", "x-y", "1", "127", "0", "255", "A", "Z9",
    "xn--nxasmq6b", "-", "a-",
];
const IPV4: &[&str] = &["127.0.0.1", "1.1.1.1", "0.0.0.0", "255.255.255.255", "1.2.3", "256.1.1.1", "01.2.3.4"];
const PORTS: &[&str] = &[
    "0", "1", "80", "443", "8448", "65535", "65536", "99999", "00080", "00000", "070000", "8", "12000",
    "65534", "70000", "09999",
];
const BAD_PORTS: &[&str] = &["", "+80", "-80", "000080", "100000", "8a", " 80", "80 ", "+", "0x50", "８０", "65535x"];
const STRICT_LP: &[&str] = &["a", "carl", "alice.b", "a=b", "a_b", "a/b", "a+b", "a-b", "0", "9z", "..", "=", "/"];
const HIST_LP: &[&str] = &["A", "Carl", "a!b", "a~", "a\"b", "{x}", "a@b", "a#b", "a$b", "[", "a]"];
const ODD_LP: &[&str] = &["", "τ", "老虎", "a b", "a\tb", "\u{7f}", "é", "\u{1f}", "\n", "\u{10000}", "a\u{0}b", "\u{0}"];
const B64: &[u8] = b"ABCDEFGHIJKLMNOPQRSTUVWXYZabcdefghijklmnopqrstuvwxyz0123456789";
const ALGS: &[&str] = &["ed25519", "curve25519", "signed_curve25519", "hmac-sha256", "x", "org.example.alg", "a_1"];
const KEYNAMES: &[&str] = &["1", "DEV", "ABCDEFG", "a_b", "auto", "0", "key+/=", "AAAA", "x-y", "JLAFKJWSCS", "é", "Ａ", "٣", "a b", ""];
const EDIT_CHARS: &[&str] = &[
    "@", "!", "#", "$", ":", "[", "]", ".", "-", "+", "0", "9", "a", "\u{0}", "/", "_", "=", " ", "\n",
    "\u{1f}", "\u{7f}", "é", "τ", "老", "\u{10000}", "A", "%", "?", "m", "x", "c", "\u{80}", "\u{a0}",
];

pub fn gen_host(rng: &mut Rng) -> String {
    match rng.below(10) {
        0 => format!("[{}]", rng.pick(IPV6)),
        1 => format!("[{}]", rng.pick(&IPV6[..29])),
        2 => (*rng.pick(IPV4)).to_owned(),
        _ => {
            let n = 1 + rng.below(3);
            (0..n).map(|_| *rng.pick(LABELS)).collect::<Vec<_>>().join(".")
        }
    }
}

pub fn gen_port(rng: &mut Rng) -> String {
    match rng.below(8) {
        0 => (*rng.pick(BAD_PORTS)).to_owned(),
        1 | 2 => (*rng.pick(PORTS)).to_owned(),
        3 => rng.range(65530, 65540).to_string(),
        _ => rng.range(0, 99999).to_string(),
    }
}

pub fn gen_server(rng: &mut Rng) -> String {
    let h = gen_host(rng);
    if rng.chance(1, 2) {
        format!("{h}:{}", gen_port(rng))
    } else {
        h
    }
}

/// A server name that is accepted by every reasonable reading (used for constructors).
pub fn gen_good_server(rng: &mut Rng) -> String {
    let h = match rng.below(4) {
        0 => format!("[{}]", rng.pick(&IPV6[..29])),
        1 => (*rng.pick(&IPV4[..4])).to_owned(),
        _ => {
            let n = 1 + rng.below(3);
            (0..n).map(|_| *rng.pick(&LABELS[..15])).collect::<Vec<_>>().join(".")
        }
    };
    if rng.chance(1, 2) {
        format!("{h}:{}", rng.pick(&PORTS[..6]))
    } else {
        h
    }
}

pub fn gen_localpart(rng: &mut Rng) -> String {
    match rng.below(10) {
        0 => (*rng.pick(ODD_LP)).to_owned(),
        1 | 2 => (*rng.pick(HIST_LP)).to_owned(),
        3 => format!("{}{}", rng.pick(STRICT_LP), rng.pick(ODD_LP)),
        _ => (*rng.pick(STRICT_LP)).to_owned(),
    }
}

fn b64(rng: &mut Rng, n: usize, extra: &[u8]) -> String {
    (0..n)
        .map(|_| {
            let k = rng.below(B64.len() + extra.len());
            (if k < B64.len() { B64[k] } else { extra[k - B64.len()] }) as char
        })
        .collect()
}

pub fn gen_key_name(kind: Kind, rng: &mut Rng) -> String {
    match kind {
        Kind::KeyVersion => (*rng.pick(&["1", "a_b", "auto", "0", "AAAA", "Ab_9"])).to_owned(),
        Kind::KeyBase64 => (*rng.pick(&["AAAA", "key+/=", "a", "0+", "abc/def", "="])).to_owned(),
        _ => (*rng.pick(KEYNAMES)).to_owned(),
    }
}

/// Mostly-valid identifier of the given kind, derived from the grammar.
pub fn gen_valid(kind: Kind, rng: &mut Rng) -> String {
    match kind {
        Kind::Server => gen_server(rng),
        Kind::User => format!("@{}:{}", gen_localpart(rng), gen_server(rng)),
        Kind::Alias => format!("#{}:{}", gen_localpart(rng), gen_server(rng)),
        Kind::Room => match rng.below(4) {
            0 => format!("!{}", b64(rng, 43, b"-_")),
            1 => format!("!{}", gen_localpart(rng)),
            _ => format!("!{}:{}", gen_localpart(rng), gen_server(rng)),
        },
        Kind::RoomOrAlias => {
            if rng.chance(1, 2) {
                gen_valid(Kind::Room, rng)
            } else {
                gen_valid(Kind::Alias, rng)
            }
        }
        Kind::Event => match rng.below(4) {
            0 => format!("${}", b64(rng, 43, b"+/")),
            1 => format!("${}", b64(rng, 43, b"-_")),
            _ => format!("${}:{}", gen_localpart(rng), gen_server(rng)),
        },
        Kind::KeyAny | Kind::KeyVersion | Kind::KeyBase64 => {
            format!("{}:{}", rng.pick(ALGS), if rng.chance(1, 3) { (*rng.pick(KEYNAMES)).to_owned() } else { gen_key_name(kind, rng) })
        }
        Kind::Mxc => {
            let n = rng.below(12);
            let media = if rng.chance(1, 4) {
                (*rng.pick(&["", "a.b", ".", "a b", "é", "a/b", "/", "a\u{0}", "%41", "a+b", "a=", "~", "A-_z9", "a:b", "٣"])).to_owned()
            } else {
                b64(rng, n, b"-_")
            };
            format!("mxc://{}/{media}", gen_server(rng))
        }
        Kind::RoomVersion => (*rng
            .pick(&["1", "2", "10", "11", "12", "org.matrix.msc2870", "a-b", "A.1", "0", "x", "1.0-beta", "é", "v_1", ""]))
        .to_owned(),
        Kind::SigningKeyVersion => (*rng.pick(&["1", "a_b", "auto", "Ab_9", "é", "٣", "²", "a-b", "", "_"])).to_owned(),
        Kind::Base64PublicKey => (*rng.pick(&["AAAA", "key+/=", "a", "abc/def", "é", "a-b", "", "=", "٣"])).to_owned(),
        Kind::ClientSecret | Kind::SessionId => {
            (*rng.pick(&["this_=_a_valid_secret_1337", "a", "A.b=c_d-e", "é", "a b", "", "-", "٣", "a/b"])).to_owned()
        }
    }
}

/// One edit: insert / delete / replace / duplicate / transpose, biased towards the structural
/// characters already present in `s`.
pub fn mutate(s: &str, rng: &mut Rng) -> String {
    let chars: Vec<char> = s.chars().collect();
    let n = chars.len();
    let special: Vec<usize> = (0..n).filter(|i| "@!#$:[]./-+0123456789".contains(chars[*i])).collect();
    let pos = |rng: &mut Rng| {
        if !special.is_empty() && rng.chance(2, 3) {
            *rng.pick(&special)
        } else {
            rng.below(n.max(1))
        }
    };
    let mut out = chars.clone();
    match rng.below(5) {
        0 => {
            let i = rng.below(n + 1);
            let ins: Vec<char> = rng.pick(EDIT_CHARS).chars().collect();
            out.splice(i..i, ins);
        }
        1 if n > 0 => {
            out.remove(pos(rng));
        }
        2 if n > 0 => {
            let i = pos(rng);
            let ins: Vec<char> = rng.pick(EDIT_CHARS).chars().collect();
            out.splice(i..i + 1, ins);
        }
        3 if n > 0 => {
            let i = pos(rng);
            out.insert(i, chars[i]);
        }
        4 if n > 1 => {
            let i = pos(rng).min(n - 2);
            out.swap(i, i + 1);
        }
        _ => out.push(':'),
    }
    out.into_iter().collect()
}

/// Lengths where one-byte index arithmetic wraps or the 255 limit bites.
pub fn boundary_len(rng: &mut Rng) -> usize {
    if rng.chance(1, 2) {
        rng.range(250, 260) as usize
    } else {
        (rng.range(1, 3) * 256 + rng.range(-6, 6)) as usize
    }
}

fn fill(c: &str, bytes: usize) -> String {
    // `bytes` bytes of the filler (multi-byte fillers are padded with 'a' to the exact length)
    let k = bytes / c.len();
    let mut s = c.repeat(k);
    while s.len() < bytes {
        s.push('a');
    }
    s
}

/// An identifier with one component (or the total) blown up to a boundary length.
pub fn gen_boundary(kind: Kind, rng: &mut Rng) -> String {
    let l = boundary_len(rng);
    let filler = if rng.chance(1, 5) { "é" } else { "a" };
    let mode = rng.below(3);
    let sigil = match kind {
        Kind::User => "@",
        Kind::Alias => "#",
        Kind::Room => "!",
        Kind::Event => "$",
        Kind::RoomOrAlias => {
            if rng.chance(1, 2) {
                "!"
            } else {
                "#"
            }
        }
        _ => "",
    };
    match kind {
        Kind::User | Kind::Alias | Kind::Room | Kind::Event | Kind::RoomOrAlias => {
            let srv_tail = *rng.pick(&["", ":80", ":65535", ".org"]);
            match mode {
                0 => format!("{sigil}{}:h{srv_tail}", fill(filler, l)),
                1 => format!("{sigil}lp:{}{srv_tail}", fill("b", l)),
                _ => {
                    // total length = l
                    let fixed = sigil.len() + 1 + 1 + srv_tail.len();
                    if rng.chance(1, 4) && kind == Kind::Event {
                        format!("{sigil}{}", fill(filler, l.saturating_sub(1)))
                    } else if rng.chance(1, 2) {
                        format!("{sigil}{}:h{srv_tail}", fill(filler, l.saturating_sub(fixed)))
                    } else {
                        format!("{sigil}x:{}{srv_tail}", fill("b", l.saturating_sub(fixed)))
                    }
                }
            }
        }
        Kind::Server => match mode {
            0 => fill("a", l),
            1 => format!("{}:80", fill("a", l)),
            _ => format!("{}:80", fill("a", l.saturating_sub(3))),
        },
        Kind::Mxc => {
            let media = *rng.pick(&["abc", "", "a-_Z"]);
            match mode {
                // server length l, l - 6 (slash index + 6 = l), and long media id
                0 => format!("mxc://{}/{media}", fill("a", l)),
                1 => format!("mxc://{}/{media}", fill("a", l.saturating_sub(6))),
                _ => format!("mxc://h/{}", fill("b", l)),
            }
        }
        Kind::KeyAny | Kind::KeyVersion | Kind::KeyBase64 => match mode {
            0 => format!("{}:{}", fill("a", l), gen_key_name(kind, rng)),
            1 => format!("{}:{}", fill("a", l), rng.pick(KEYNAMES)),
            _ => format!("ed25519:{}", fill(if kind == Kind::KeyAny { filler } else { "A" }, l)),
        },
        Kind::RoomVersion => {
            let n = rng.range(28, 36) as usize;
            if rng.chance(1, 3) {
                "é".repeat(n)
            } else {
                fill("a", n)
            }
        }
        _ => fill(if rng.chance(1, 6) { "é" } else { "A" }, l),
    }
}

pub fn gen_junk(rng: &mut Rng) -> String {
    let n = rng.below(10);
    (0..n).map(|_| *rng.pick(EDIT_CHARS)).collect()
}

pub const ALPHABET: &[u8] = b"@!#$:[].-+09a\0";

/// All strings of length `len` over the alphabet.
pub fn words(len: usize) -> Vec<Vec<u8>> {
    let mut out = vec![vec![]];
    for _ in 0..len {
        let mut next = Vec::with_capacity(out.len() * ALPHABET.len());
        for w in &out {
            for c in ALPHABET {
                let mut v = w.clone();
                v.push(*c);
                next.push(v);
            }
        }
        out = next;
    }
    out
}
