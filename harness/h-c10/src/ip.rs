//! The `std::net` parsers that are parameters of the C10 model, against their Lean reference
//! (`Model/IdsIp.lean`): `c10.ip6 S`, `c10.ip4 S` (one string), `c10.ipexh <6|4> S S iK` (all words
//! prefix ++ w, |w| = K, over an alphabet; answer = one `t`/`f` per word in enumeration order).
use std::{
    net::{Ipv4Addr, Ipv6Addr},
    str::FromStr,
};

use h_lib::{h_util, stok, Outcome, Req, Rng};

pub fn is6(s: &str) -> bool {
    Ipv6Addr::from_str(s).is_ok()
}
pub fn is4(s: &str) -> bool {
    Ipv4Addr::from_str(s).is_ok()
}

/// All words of length `k` over `alphabet`, first letter varying slowest (the Lean driver
/// enumerates in the same order).
pub fn words(alphabet: &[u8], k: usize) -> Vec<Vec<u8>> {
    let mut out = vec![vec![]];
    for _ in 0..k {
        let mut next = Vec::with_capacity(out.len() * alphabet.len());
        for w in &out {
            for c in alphabet {
                let mut v = w.clone();
                v.push(*c);
                next.push(v);
            }
        }
        out = next;
    }
    out
}

pub fn run_exh(which: &str, alphabet: &str, prefix: &str, k: usize) -> Outcome {
    if !alphabet.is_ascii() || k > 8 {
        return Outcome::bad();
    }
    let f = match which {
        "6" => is6,
        "4" => is4,
        _ => return Outcome::bad(),
    };
    let mut ans = String::new();
    for w in words(alphabet.as_bytes(), k) {
        let mut s = prefix.to_owned();
        s.push_str(std::str::from_utf8(&w).unwrap());
        ans.push(if f(&s) { 't' } else { 'f' });
    }
    Outcome::new(ans)
}

const HEX: &[u8] = b"0123456789abcdefABCDEF";
const OCTETS: &[&str] = &[
    "0", "1", "9", "10", "99", "100", "127", "192", "199", "200", "249", "250", "255", "256", "260", "299", "300",
    "999", "1000", "00", "01", "001", "010", "0255", "", "a", "1a", "-1", "+1", " 1",
];
const EDITS: &[&str] = &[":", "::", ".", "0", "1", "f", "F", "g", "%", "[", "]", " ", "/", "-", "+", "x", "é", "\u{0}", "٣"];

fn group(rng: &mut Rng) -> String {
    let n = match rng.below(12) {
        0 => 5,
        1 => 0,
        _ => 1 + rng.below(4),
    };
    (0..n).map(|_| *rng.pick(HEX) as char).collect()
}

pub fn gen_ip4(rng: &mut Rng) -> String {
    let n = match rng.below(10) {
        0 => 3,
        1 => 5,
        _ => 4,
    };
    let mut s = (0..n).map(|_| (*rng.pick(OCTETS)).to_owned()).collect::<Vec<_>>().join(".");
    if rng.chance(1, 6) {
        s = edit(&s, rng);
    }
    s
}

fn edit(s: &str, rng: &mut Rng) -> String {
    let chars: Vec<char> = s.chars().collect();
    let mut out = chars.clone();
    let n = chars.len();
    match rng.below(4) {
        0 => {
            let i = rng.below(n + 1);
            let ins: Vec<char> = rng.pick(EDITS).chars().collect();
            out.splice(i..i, ins);
        }
        1 if n > 0 => {
            out.remove(rng.below(n));
        }
        2 if n > 0 => {
            let i = rng.below(n);
            let ins: Vec<char> = rng.pick(EDITS).chars().collect();
            out.splice(i..i + 1, ins);
        }
        3 if n > 0 => {
            let i = rng.below(n);
            out.insert(i, chars[i]);
        }
        _ => out.push(':'),
    }
    out.into_iter().collect()
}

/// IPv6 text forms built from the grammar of the parser: head groups, an optional `::`, tail
/// groups, an optional embedded IPv4 address in either part; group counts around the limits
/// (8 in total, 7 beside `::`), group widths 0..5, then possibly one edit.
pub fn gen_ip6(rng: &mut Rng) -> String {
    let elide = rng.chance(2, 3);
    let total = match rng.below(8) {
        0 => 9,
        1 => 7,
        2 => rng.below(4),
        _ => 8,
    };
    let (nh, nt) = if elide {
        let budget = match rng.below(6) {
            0 => 8,
            1 => 7,
            _ => rng.below(7),
        };
        let nh = rng.below(budget + 1);
        (nh, budget - nh)
    } else {
        (total, 0)
    };
    let part = |rng: &mut Rng, n: usize, v4_ok: bool| -> String {
        let mut gs: Vec<String> = vec![];
        let mut left = n;
        while left > 0 {
            if v4_ok && left == 2 && rng.chance(1, 3) || left >= 2 && rng.chance(1, 30) {
                gs.push(gen_ip4(rng));
                left -= 2;
            } else {
                gs.push(group(rng));
                left -= 1;
            }
        }
        gs.join(":")
    };
    let mut s = part(rng, nh, true);
    if elide {
        s.push_str("::");
        s.push_str(&part(rng, nt, true));
    }
    if rng.chance(1, 4) {
        s = edit(&s, rng);
    }
    s
}

pub fn ip_requests(rng: &mut Rng, n: usize, tier: &str, out: &mut Vec<Req>) {
    // exhaustive short strings
    let (p_max, k) = if tier == "thorough" { (3, 4) } else { (2, 3) };
    for (which, alphabet) in [("6", "01f:.g"), ("4", "0125.6")] {
        for kk in 0..=k {
            out.push(Req::new(format!("c10.ipexh {which} {} {} i{kk}", stok(alphabet), stok("")), format!("ip{which}-exh.ip")));
        }
        for pl in 1..=p_max {
            for w in words(alphabet.as_bytes(), pl) {
                let pre = String::from_utf8(w).unwrap();
                out.push(Req::new(format!("c10.ipexh {which} {} {} i{k}", stok(alphabet), stok(&pre)), format!("ip{which}-exh.ip")));
            }
        }
    }
    for a in crate::gen::IPV6 {
        out.push(Req::new(format!("c10.ip6 {}", stok(a)), "ip6-table.ip"));
        out.push(Req::new(format!("c10.ip4 {}", stok(a)), "ip4-table.ip"));
    }
    for _ in 0..n {
        let s = gen_ip6(rng);
        out.push(Req::new(format!("c10.ip6 {}", stok(&s)), "ip6-gen.ip"));
        let s = gen_ip4(rng);
        out.push(Req::new(format!("c10.ip4 {}", stok(&s)), "ip4-gen.ip"));
        if rng.chance(1, 4) {
            // cross: each generator's strings through the other parser
            out.push(Req::new(format!("c10.ip6 {}", stok(&s)), "ip6-cross.ip"));
        }
    }
}

pub fn run(toks: &[&str]) -> Outcome {
    let arg = |i: usize| toks.get(i).and_then(|t| t.strip_prefix('s')).and_then(h_util::unhex_str);
    match toks[0] {
        "c10.ip6" | "c10.ip4" => {
            if toks.len() != 2 {
                return Outcome::bad();
            }
            let Some(s) = arg(1) else { return Outcome::bad() };
            let v = if toks[0] == "c10.ip6" { is6(&s) } else { is4(&s) };
            Outcome::new(if v { "t" } else { "f" })
        }
        "c10.ipexh" => {
            if toks.len() != 5 {
                return Outcome::bad();
            }
            let (Some(al), Some(pre), Some(k)) =
                (arg(2), arg(3), toks[4].strip_prefix('i').and_then(|k| k.parse::<usize>().ok()))
            else {
                return Outcome::bad();
            };
            run_exh(toks[1], &al, &pre, k)
        }
        _ => Outcome::bad(),
    }
}
