//! Second, independent transcription of the identifier grammars of the Matrix specification
//! (`Spec/IdGrammar.lean` is the first). The harness answers the `c10.spec.*` requests with
//! `struct'(s) || accepted(s)` and `gram'(s) && accepted(s)`; the Lean side answers `struct(s)`
//! and `gram(s)`. The two lines agree iff the transcriptions agree AND accepted ⇒ struct AND
//! gram ⇒ accepted.
use std::{net::Ipv6Addr, str::FromStr};

use crate::Kind;

fn v6(c: &[u8]) -> bool {
    std::str::from_utf8(c).ok().is_some_and(|c| Ipv6Addr::from_str(c).is_ok())
}

fn alnum(b: u8) -> bool {
    b.is_ascii_alphanumeric()
}
fn dns_char(b: u8) -> bool {
    alnum(b) || b == b'-' || b == b'.'
}
fn ipv6_char(b: u8) -> bool {
    b.is_ascii_hexdigit() || b == b':' || b == b'.'
}
fn is_port(p: &[u8]) -> bool {
    (1..=5).contains(&p.len()) && p.iter().all(u8::is_ascii_digit)
}
fn non_empty_all(s: &[u8], f: impl Fn(u8) -> bool) -> bool {
    !s.is_empty() && s.iter().all(|b| f(*b))
}
fn bracket_content(h: &[u8]) -> Option<&[u8]> {
    (h.len() >= 2 && h[0] == b'[' && h[h.len() - 1] == b']').then(|| &h[1..h.len() - 1])
}

fn struct_host(h: &[u8]) -> bool {
    non_empty_all(h, dns_char) || bracket_content(h).is_some_and(v6)
}
fn gram_host(h: &[u8]) -> bool {
    (non_empty_all(h, dns_char) && h.len() <= 255)
        || bracket_content(h)
            .is_some_and(|c| (2..=45).contains(&c.len()) && c.iter().all(|b| ipv6_char(*b)) && v6(c))
}

/// `front sep back` for some occurrence of `sep`.
fn cut_at(s: &[u8], sep: u8, front: impl Fn(&[u8]) -> bool, back: impl Fn(&[u8]) -> bool) -> bool {
    (0..s.len()).any(|i| s[i] == sep && front(&s[..i]) && back(&s[i + 1..]))
}

fn with_port(s: &[u8], host: fn(&[u8]) -> bool) -> bool {
    host(s) || cut_at(s, b':', host, is_port)
}
fn struct_server(s: &[u8]) -> bool {
    with_port(s, struct_host)
}
fn gram_server(s: &[u8]) -> bool {
    with_port(s, gram_host)
}

fn localpart_ok(lp: &[u8]) -> bool {
    !lp.contains(&0) && !lp.contains(&b':')
}
fn user_id_char(b: u8) -> bool {
    b.is_ascii_digit() || b.is_ascii_lowercase() || b"-.=_/+".contains(&b)
}
fn delimited(
    s: &[u8],
    sigil: u8,
    lp: impl Fn(&[u8]) -> bool,
    server: impl Fn(&[u8]) -> bool,
) -> bool {
    s.first() == Some(&sigil) && cut_at(&s[1..], b':', lp, server)
}
fn hash_id(s: &[u8], sigil: u8) -> bool {
    s.first() == Some(&sigil)
        && s.len() == 44
        && (s[1..].iter().all(|b| alnum(*b) || *b == b'+' || *b == b'/')
            || s[1..].iter().all(|b| alnum(*b) || *b == b'-' || *b == b'_'))
}
fn media_char(b: u8) -> bool {
    alnum(b) || b == b'-' || b == b'_'
}
fn mxc(s: &[u8], server: impl Fn(&[u8]) -> bool, media: impl Fn(&[u8]) -> bool) -> bool {
    s.starts_with(b"mxc://") && cut_at(&s[6..], b'/', server, media)
}
fn code_points(s: &[u8]) -> usize {
    s.iter().filter(|b| (**b & 0xC0) != 0x80).count()
}
fn secret_char(b: u8) -> bool {
    alnum(b) || b".=_-".contains(&b)
}
/// The ASCII characters of `s` are in the set (non-ASCII is not restricted by the structure).
fn ascii_in(s: &[u8], set: impl Fn(u8) -> bool) -> bool {
    s.iter().all(|b| *b >= 128 || set(*b))
}
fn key_version_char(b: u8) -> bool {
    alnum(b) || b == b'_'
}
fn base64_pad_char(b: u8) -> bool {
    alnum(b) || b == b'+' || b == b'/' || b == b'='
}

fn struct_alias(s: &[u8]) -> bool {
    s.len() <= 255 && delimited(s, b'#', localpart_ok, struct_server)
}
fn struct_room(s: &[u8]) -> bool {
    s.len() <= 255 && s.first() == Some(&b'!') && !s.contains(&0)
}
fn gram_alias(s: &[u8]) -> bool {
    s.len() <= 255 && delimited(s, b'#', |lp| !lp.is_empty() && localpart_ok(lp), gram_server)
}
fn gram_room(s: &[u8]) -> bool {
    s.len() <= 255
        && (delimited(s, b'!', |lp| !lp.is_empty() && localpart_ok(lp), gram_server)
            || hash_id(s, b'!'))
}

/// Required structure of an accepted identifier.
pub fn structure(kind: Kind, s: &[u8]) -> bool {
    match kind {
        Kind::Server => struct_server(s),
        Kind::User => s.len() <= 255 && delimited(s, b'@', localpart_ok, struct_server),
        Kind::Alias => struct_alias(s),
        Kind::Room => struct_room(s),
        Kind::RoomOrAlias => struct_room(s) || struct_alias(s),
        Kind::Event => {
            s.len() <= 255
                && s.first() == Some(&b'$')
                && (!s.contains(&b':')
                    || delimited(s, b'$', |lp| !lp.contains(&b':'), struct_server))
        }
        Kind::Mxc => mxc(s, struct_server, |m| m.iter().all(|b| media_char(*b))),
        Kind::RoomVersion => {
            non_empty_all(s, |b| alnum(b) || b == b'.' || b == b'-') && code_points(s) <= 32
        }
        Kind::SigningKeyVersion => !s.is_empty() && ascii_in(s, key_version_char),
        Kind::Base64PublicKey => !s.is_empty() && ascii_in(s, base64_pad_char),
        Kind::ClientSecret => !s.is_empty() && s.len() <= 255 && ascii_in(s, secret_char),
        Kind::SessionId => non_empty_all(s, secret_char) && s.len() <= 255,
        Kind::KeyAny => cut_at(s, b':', |a| !a.is_empty() && !a.contains(&b':'), |_| true),
        Kind::KeyVersion => cut_at(s, b':', |a| !a.is_empty() && !a.contains(&b':'), |n| {
            !n.is_empty() && ascii_in(n, key_version_char)
        }),
        Kind::KeyBase64 => cut_at(s, b':', |a| !a.is_empty() && !a.contains(&b':'), |n| {
            !n.is_empty() && ascii_in(n, base64_pad_char)
        }),
    }
}

fn port_too_big(s: &[u8], host: fn(&[u8]) -> bool) -> bool {
    cut_at(s, b':', host, |p| {
        is_port(p) && p.iter().fold(0u64, |a, b| a * 10 + u64::from(*b - b'0')) > 65535
    })
}

/// The server-name component (cut anywhere the structure allows) carries a port above 65535.
pub fn struct_big_port(kind: Kind, s: &[u8]) -> bool {
    let big = |srv: &[u8]| port_too_big(srv, struct_host);
    match kind {
        Kind::Server => big(s),
        Kind::User => delimited(s, b'@', |_| true, big),
        Kind::Alias | Kind::RoomOrAlias => delimited(s, b'#', |_| true, big),
        Kind::Event => delimited(s, b'$', |_| true, big),
        Kind::Mxc => mxc(s, big, |_| true),
        _ => false,
    }
}

/// Types for which "required structure and no over-large port" must imply acceptance: all but
/// those whose validators ask Unicode `char::is_alphanumeric`, which are included on ASCII input.
pub fn tight_applies(kind: Kind, s: &[u8]) -> bool {
    match kind {
        Kind::SigningKeyVersion | Kind::Base64PublicKey | Kind::ClientSecret | Kind::KeyVersion | Kind::KeyBase64 => {
            s.is_ascii()
        }
        _ => true,
    }
}

/// Recommended grammar: every such identifier must be accepted.
pub fn grammar(kind: Kind, s: &[u8]) -> bool {
    let alg = |a: &[u8]| {
        non_empty_all(a, |b| b.is_ascii_lowercase() || b.is_ascii_digit() || b == b'_' || b == b'.')
    };
    match kind {
        Kind::Server => gram_server(s),
        Kind::User => {
            s.len() <= 255 && delimited(s, b'@', |lp| non_empty_all(lp, user_id_char), gram_server)
        }
        Kind::Alias => gram_alias(s),
        Kind::Room => gram_room(s),
        Kind::RoomOrAlias => gram_room(s) || gram_alias(s),
        Kind::Event => {
            s.len() <= 255
                && (delimited(s, b'$', |lp| !lp.is_empty() && localpart_ok(lp), gram_server)
                    || hash_id(s, b'$'))
        }
        Kind::Mxc => mxc(s, gram_server, |m| non_empty_all(m, media_char)),
        Kind::RoomVersion => {
            non_empty_all(s, |b| alnum(b) || b == b'.' || b == b'-') && s.len() <= 32
        }
        Kind::SigningKeyVersion => non_empty_all(s, |b| alnum(b) || b == b'_'),
        Kind::Base64PublicKey => non_empty_all(s, |b| alnum(b) || b == b'+' || b == b'/'),
        Kind::ClientSecret | Kind::SessionId => non_empty_all(s, secret_char) && s.len() <= 255,
        Kind::KeyAny => {
            cut_at(s, b':', alg, |n| non_empty_all(n, |b| (33..=126).contains(&b) && b != b':'))
        }
        Kind::KeyVersion => cut_at(s, b':', alg, |n| non_empty_all(n, |b| alnum(b) || b == b'_')),
        Kind::KeyBase64 => {
            cut_at(s, b':', alg, |n| non_empty_all(n, |b| alnum(b) || b == b'+' || b == b'/'))
        }
    }
}
