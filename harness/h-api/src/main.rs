fn main() {
    let args = h_util::parse_args();
    h_util::quiet_panics();
    match args.prop.as_str() {
        other => {
            eprintln!("unknown property {other}");
            std::process::exit(2);
        }
    }
}
