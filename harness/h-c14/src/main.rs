//! C14 — sanitized HTML has only allow-listed elements, attributes, schemes and classes.
//!
//! Requests (strings are `s<hex utf-8>`; `<cfg>` is the 14-field array of `common::Cfg`; a forest
//! is `<count> node…`, node = `e <name> <nattrs> {<qkey> <name> <value>} <forest>` | `t <text>` | `c`):
//!   `c14.clean <cfg> <html> <forest of Html::parse(html)>` → `ok <forest after sanitize_with>`
//!       (adjacent text merged). Answered by the Lean MODEL on the dumped input tree.
//!   T1 cells, answered by the Lean SPEC (a mismatch is implementation-vs-spec on that cell):
//!   `c14.elem <mode> <name>`, `c14.attr <mode> <el> <attr>`, `c14.scheme <mode> <el> <attr> <value>`,
//!   `c14.class <mode> <el> <class>`, `c14.depth <mode> <k>` → `t`/`f`;
//!   `c14.repl <mode> <el>` → `to <name after replacement>`; `c14.replattr <mode> <el> <attr>` → `to <attr name after>`.
mod common;
mod extract;
mod gen;
mod spec;

use common::*;
use h_lib::{h_util, stok, Outcome, Req, Rng};
use ruma_html::{remove_html_reply_fallback, sanitize_html, Html, RemoveReplyFallback};

fn mode_tok(m: u8) -> &'static str {
    match m {
        0 => "none",
        1 => "strict",
        _ => "compat",
    }
}
fn parse_mode(s: &str) -> Option<u8> {
    match s {
        "none" => Some(0),
        "strict" => Some(1),
        "compat" => Some(2),
        _ => None,
    }
}
fn tf(b: bool) -> String {
    if b { "t".into() } else { "f".into() }
}
fn unstr(t: &str) -> Option<String> {
    h_util::unhex_str(t.strip_prefix('s')?)
}

pub fn clean_req(cfg: &Cfg, src: &str) -> String {
    let html = Html::parse(src);
    format!("c14.clean {} {}{}", cfg.toks(), stok(src), forest_toks(&dump(&html)))
}

fn run_clean(cfg: &Cfg, src: &str, tree_toks: &str) -> Outcome {
    let real = cfg.build();
    let html = Html::parse(src);
    let before = dump(&html);
    if forest_toks(&before).trim_start() != tree_toks {
        // the request does not carry the tree of its own input: unreadable, never defaulted
        return Outcome::bad();
    }
    html.sanitize_with(&real);
    let after = dump(&html);
    let out_str = html.to_string();
    let mut t3 = Vec::new();
    let pol = Policy { c: cfg };

    // (0) a configuration that was used (and cloned) before its list methods were called behaves like
    // the one built in one go
    {
        let reused = cfg.build_after_use();
        let h2 = Html::parse(src);
        h2.sanitize_with(&reused);
        if h2.to_string() != out_str {
            t3.push(format!(
                "the same builder calls on a configuration that had already been used give a different result: {:?} vs {:?}",
                &h2.to_string().chars().take(300).collect::<String>(),
                &out_str.chars().take(300).collect::<String>()
            ));
        }
    }
    // (a) the allow-list predicate on the output tree
    pol.walk(&after, 0, "output tree", &[], &mut t3);
    // (b) "as seen by an HTML parser": re-parse the serialised output with the real parser
    // If the configuration (no mode, an allow-list addition, or a replacement such as `code` -> `script`)
    // lets a raw-text / escapable-raw-text element survive, HTML itself does not preserve the tree across
    // serialise -> parse (element children of <script> become text, an inner `</script>` ends it early,
    // what follows is parsed as markup): the parser-level reading is then meaningless by construction of
    // the language, and the property (strict / compat allow lists) never keeps such an element. The
    // output TREE was checked in (a) either way.
    fn has_rawtext(f: &[N]) -> bool {
        f.iter().any(|n| match n {
            N::E { name, ch, .. } => {
                ["script", "style", "iframe", "xmp", "noembed", "noframes", "noscript", "plaintext", "textarea", "title", "template"]
                    .contains(&name.as_str())
                    || has_rawtext(ch)
            }
            _ => false,
        })
    }
    let re = dump(&Html::parse(&out_str));
    let exempt: &[&str] = if cfg.is_plain() { &[] } else { &["tbody", "tr", "colgroup"] };
    if !has_rawtext(&after) {
        pol.walk(&re, 0, "re-parsed output", exempt, &mut t3);
    }
    // (c) text outside removed subtrees is kept, in order; content of removed elements is gone.
    // The property fixes two bounds, not the exact text: everything outside subtrees that are
    // removed by name / nested at or beyond the maximum depth (counting all element ancestors of
    // the input) must remain; nothing from inside elements removed by name (mx-reply under
    // reply-fallback removal) may remain. (The exact text is the theorem clean_keeps_text_in_order
    // about the model, compared through T2.)
    let (mut least, mut most, mut got) = (String::new(), String::new(), String::new());
    pol.kept_text(&before, 0, &mut least);
    pol.kept_text_with(&before, 0, false, &mut most);
    text_of(&after, &mut got);
    if !subsequence(&least, &got) {
        t3.push(format!("text outside removed elements is not kept in order: expected {least:?}, output has {got:?}"));
    }
    if !subsequence(&got, &most) {
        t3.push(format!("content of removed elements remains: at most {most:?} may remain, output has {got:?}"));
    }
    // (d) the string entry points agree with parse + sanitize_with + to_string
    if cfg.is_plain() {
        if let Some(m) = cfg.sanitizer_mode() {
            let r = if cfg.rrf { RemoveReplyFallback::Yes } else { RemoveReplyFallback::No };
            if sanitize_html(src, m, r) != out_str {
                t3.push("sanitize_html differs from Html::parse + sanitize_with + to_string".into());
            }
        } else if cfg.rrf && remove_html_reply_fallback(src) != out_str {
            t3.push("remove_html_reply_fallback differs from Html::parse + sanitize_with + to_string".into());
        }
    }
    t3.truncate(4);
    Outcome { imp: format!("ok{}", forest_toks(&merge_text(after))), t3 }
}

fn run(req: &str) -> Outcome {
    let toks: Vec<&str> = req.split(' ').collect();
    let bad = Outcome::bad;
    match toks[0] {
        "c14.clean" => {
            let mut it = toks[1..].iter();
            let Some(v) = h_util::parse_tokens(&mut it) else { return bad() };
            let Some(cfg) = Cfg::from_value(&v) else { return bad() };
            let Some(src) = it.next().and_then(|t| unstr(t)) else { return bad() };
            let rest: Vec<&str> = it.copied().collect();
            run_clean(&cfg, &src, &rest.join(" "))
        }
        "c14.elem" if toks.len() == 3 => match (parse_mode(toks[1]), unstr(toks[2])) {
            (Some(m @ 1..=2), Some(el)) => Outcome::new(tf(probe_elem(m, &el))),
            _ => bad(),
        },
        "c14.attr" if toks.len() == 4 => match (parse_mode(toks[1]), unstr(toks[2]), unstr(toks[3])) {
            (Some(m @ 1..=2), Some(el), Some(a)) => Outcome::new(tf(probe_attr(m, &el, &a))),
            _ => bad(),
        },
        "c14.scheme" if toks.len() == 5 => {
            match (parse_mode(toks[1]), unstr(toks[2]), unstr(toks[3]), unstr(toks[4])) {
                (Some(m @ 1..=2), Some(el), Some(a), Some(v)) => Outcome::new(tf(probe_scheme(m, &el, &a, &v))),
                _ => bad(),
            }
        }
        "c14.class" if toks.len() == 4 => match (parse_mode(toks[1]), unstr(toks[2]), unstr(toks[3])) {
            (Some(m @ 1..=2), Some(el), Some(c)) => Outcome::new(tf(probe_class(m, &el, &c))),
            _ => bad(),
        },
        "c14.depth" if toks.len() == 3 => match (parse_mode(toks[1]), toks[2].parse::<u32>()) {
            (Some(m @ 1..=2), Ok(k)) if k <= 2000 => Outcome::new(tf(probe_depth(m, k))),
            _ => bad(),
        },
        "c14.repl" if toks.len() == 3 => match (parse_mode(toks[1]), unstr(toks[2])) {
            (Some(m @ 1..=2), Some(el)) => match probe_replacement(open_real(m), &el, "zz") {
                Some((n, _)) => Outcome::new(format!("to {}", stok(&n))),
                None => Outcome::new("unparsed"),
            },
            _ => bad(),
        },
        "c14.replattr" if toks.len() == 4 => match (parse_mode(toks[1]), unstr(toks[2]), unstr(toks[3])) {
            (Some(m @ 1..=2), Some(el), Some(a)) => match probe_replacement(open_real(m), &el, &a) {
                // The cell is about what the sanitizer does to the HTML attribute it was given.
                // Where the parser itself puts the attribute into a namespace (foreign content:
                // xlink:href, xml:lang, …) or changes its spelling (SVG: viewbox → viewBox) there
                // is no such cell; `cells` does not generate it.
                Some((_, Some(p))) if p.parsed_q == "0" && p.parsed == a => match p.after {
                    Some(n) => Outcome::new(format!("to {}", stok(if n == p.parsed { &a } else { &n }))),
                    None => Outcome::new("removed"),
                },
                Some((_, Some(_))) => bad(),
                _ => Outcome::new("unparsed"),
            },
            _ => bad(),
        },
        _ => bad(),
    }
}

// ------------------------------------------------------------------ generation

fn cells(tier: &str) -> Vec<Req> {
    let mut v = Vec::new();
    let eu = spec::element_universe();
    let au = spec::attr_universe();
    let thorough = tier == "thorough";
    for m in [1u8, 2] {
        let mt = mode_tok(m);
        for e in &eu {
            v.push(Req::new(format!("c14.elem {mt} {}", stok(e)), "cell.elem"));
        }
        let attr_els: Vec<&str> = if thorough {
            eu.clone()
        } else {
            spec::ELEMENTS.iter().chain(["font", "strike", "script", "svg", "x-fresh"].iter()).copied().collect()
        };
        for e in &attr_els {
            for a in &au {
                v.push(Req::new(format!("c14.attr {mt} {} {}", stok(e), stok(a)), "cell.attr"));
            }
        }
        for (e, a) in [("a", "href"), ("img", "src")] {
            for s in spec::scheme_universe() {
                for rest in [":x", "://h/p", "", "x"] {
                    v.push(Req::new(
                        format!("c14.scheme {mt} {} {} {}", stok(e), stok(a), stok(&format!("{s}{rest}"))),
                        "cell.scheme",
                    ));
                }
            }
        }
        for (e, attrs) in spec::ATTRS {
            for a in *attrs {
                for val in ["zz-fresh-scheme:x", "javascript:x", "v"] {
                    v.push(Req::new(format!("c14.scheme {mt} {} {} {}", stok(e), stok(a), stok(val)), "cell.scheme"));
                }
            }
        }
        for e in spec::ELEMENTS.iter().chain(["font", "x-fresh"].iter()) {
            for c in spec::class_universe() {
                v.push(Req::new(format!("c14.class {mt} {} {}", stok(e), stok(c)), "cell.class"));
            }
        }
        for k in (0..=120).chain([150, 299]) {
            v.push(Req::new(format!("c14.depth {mt} {k}"), "cell.depth"));
        }
        let open = open_real(m);
        for e in &eu {
            if probe_replacement(open, e, "zz").is_some() {
                v.push(Req::new(format!("c14.repl {mt} {}", stok(e)), "cell.repl"));
                let all = thorough || spec::ELEMENTS[..12].contains(e) || ["font", "strike", "span", "img", "code", "div"].contains(e);
                if all {
                    for a in &au {
                        // only where the parser (alone) yields a plain HTML attribute
                        let html_attr = matches!(probe_replacement(open, e, a), Some((_, Some(p))) if p.parsed_q == "0" && p.parsed == *a);
                        if html_attr {
                            v.push(Req::new(format!("c14.replattr {mt} {} {}", stok(e), stok(a)), "cell.replattr"));
                        }
                    }
                }
            }
        }
    }
    v
}

fn gen(rng: &mut Rng, n: usize, tier: &str) -> Vec<Req> {
    let thorough = tier == "thorough";
    let mut reqs = cells(tier);
    let strict = Cfg::mode(1);
    let compat = Cfg::mode(2);

    // every scheme spelling × colon spelling, alone and accompanied
    let mut docs = Vec::new();
    gen::scheme_matrix(&mut docs);
    for d in &docs {
        reqs.push(Req::new(clean_req(&strict, d), "schemes.strict"));
        reqs.push(Req::new(clean_req(&compat, d), "schemes.compat"));
    }
    // every subset of attributes (quick: up to 3 members) of the seven named elements
    for el in ["a", "img", "span", "code", "font", "ol", "div"] {
        let mut docs = Vec::new();
        gen::attr_subsets(rng, el, if thorough { 11 } else { 3 }, &mut docs);
        for d in &docs {
            let cfg = match rng.below(4) {
                0 => strict.clone(),
                1 => compat.clone(),
                2 => gen::plain_cfgs()[rng.below(5)].clone(),
                _ => gen::gen_cfg(rng),
            };
            reqs.push(Req::new(clean_req(&cfg, d), format!("attrsets.{el}")));
        }
    }
    // foreign content (namespaced attributes) × plain and random configurations
    let mut docs = Vec::new();
    gen::foreign_docs(rng, &mut docs);
    for d in &docs {
        let cfg = match rng.below(4) {
            0 | 1 => gen::plain_cfgs()[rng.below(5)].clone(),
            _ => gen::gen_cfg(rng),
        };
        reqs.push(Req::new(clean_req(&cfg, d), "foreign"));
    }
    // every builder list method on every listed name, alone and in the documented precedences
    let mut bm = Vec::new();
    gen::builder_matrix(rng, &mut bm);
    for (cfg, d) in &bm {
        reqs.push(Req::new(clean_req(cfg, d), "builder"));
    }
    // random documents × random configurations
    for i in 0..n {
        let cfg = gen::gen_cfg(rng);
        let (doc, cls) = match i % 20 {
            0 => {
                let k = 90 + rng.below(220);
                (gen::gen_deep(rng, k), "deep")
            }
            1 => {
                let k = 95 + rng.below(12);
                (gen::gen_deep(rng, k), "deep.boundary")
            }
            2..=5 => (gen::gen_doc(rng, &gen::HOSTILE), "hostile"),
            6 | 7 => (gen::gen_doc(rng, &gen::TABLEY), "tables"),
            8 => (gen::gen_allowed_doc(rng, cfg.mode == 2, true, true), "allowed"),
            _ => (gen::gen_doc(rng, &gen::MIXED), "mixed"),
        };
        let cls = format!("{cls}.{}", if cfg.is_plain() { "plain" } else { "custom" });
        reqs.push(Req::new(clean_req(&cfg, &doc), cls));
    }
    reqs
}

fn main() {
    // development aid: `h-c14 c14 mk --replay "<mode>[+rrf] <html>"` prints the request line
    let a: Vec<String> = std::env::args().collect();
    if a.get(2).map(|s| s.as_str()) == Some("mk") {
        let arg = a.get(4).expect("--replay \"<mode>[+rrf] <html>\"");
        let (m, src) = arg.split_once(' ').expect("mode and html");
        let (m, rrf) = match m.strip_suffix("+rrf") {
            Some(m) => (m, true),
            None => (m, false),
        };
        let mut cfg = Cfg::mode(parse_mode(m).expect("mode"));
        cfg.rrf = rrf;
        println!("{}", clean_req(&cfg, src));
        return;
    }
    h_lib::std_main(Some(&|| extract::extract("C14")), &gen, &run);
}
