//! C14 — sanitized HTML has only allow-listed elements, attributes, schemes and classes.
//!
//! Requests (strings are `s<hex utf-8>`; `<cfg>` is the 14-field array of `common::Cfg`; a forest
//! is `<count> node…`, node = `e <name> <nattrs> {<qkey> <name> <value>} <forest>` | `t <text>` | `c`):
//!   `c14.clean <cfg> <html> <forest of Html::parse(html)>` → `ok <forest after sanitize_with>`
//!       (adjacent text merged). Answered by the Lean MODEL on the dumped input tree.
//!   T1 cells, answered by the Lean SPEC (a mismatch is implementation-vs-spec on that cell):
//!   `c14.elem <mode> <name>`, `c14.attr <mode> <el> <attr>`, `c14.scheme <mode> <el> <attr> <value>`,
//!   `c14.class <mode> <el> <class>`, `c14.depth <mode> <k>` → `t`/`f`;
//!   `c14.repl <mode> <el>` → `to <name after replacement>`; `c14.replattr <mode> <el> <attr>` → `to <attr name after>`.
mod common;
mod gen;
mod spec;

use common::*;
use h_lib::{h_util, stok, Outcome, Req, Rng};
use ruma_html::{remove_html_reply_fallback, sanitize_html, Html, RemoveReplyFallback};

fn mode_tok(m: u8) -> &'static str {
    match m {
        0 => "none",
        1 => "strict",
        _ => "compat",
    }
}
fn parse_mode(s: &str) -> Option<u8> {
    match s {
        "none" => Some(0),
        "strict" => Some(1),
        "compat" => Some(2),
        _ => None,
    }
}
fn tf(b: bool) -> String {
    if b { "t".into() } else { "f".into() }
}
fn unstr(t: &str) -> Option<String> {
    h_util::unhex_str(t.strip_prefix('s')?)
}

pub fn clean_req(cfg: &Cfg, src: &str) -> String {
    let html = Html::parse(src);
    format!("c14.clean {} {}{}", cfg.toks(), stok(src), forest_toks(&dump(&html)))
}

fn run_clean(cfg: &Cfg, src: &str, tree_toks: &str) -> Outcome {
    let real = cfg.build();
    let html = Html::parse(src);
    let before = dump(&html);
    if forest_toks(&before).trim_start() != tree_toks {
        // the request does not carry the tree of its own input: unreadable, never defaulted
        return Outcome::bad();
    }
    html.sanitize_with(&real);
    let after = dump(&html);
    let out_str = html.to_string();
    let mut t3 = Vec::new();
    let pol = Policy { c: cfg };

    // (a) the allow-list predicate on the output tree
    pol.walk(&after, 0, "output tree", &[], &mut t3);
    // (b) "as seen by an HTML parser": re-parse the serialised output with the real parser
    let re = dump(&Html::parse(&out_str));
    let exempt: &[&str] = if cfg.is_plain() { &[] } else { &["tbody", "tr", "colgroup"] };
    pol.walk(&re, 0, "re-parsed output", exempt, &mut t3);
    // (c) text outside removed subtrees is kept, in order
    let (mut want, mut got) = (String::new(), String::new());
    pol.kept_text(&before, 0, &mut want);
    text_of(&after, &mut got);
    if want != got {
        t3.push(format!("text outside removed elements is not kept in order: expected {want:?}, output has {got:?}"));
    }
    // (d) the string entry points agree with parse + sanitize_with + to_string
    if cfg.is_plain() {
        if let Some(m) = cfg.sanitizer_mode() {
            let r = if cfg.rrf { RemoveReplyFallback::Yes } else { RemoveReplyFallback::No };
            if sanitize_html(src, m, r) != out_str {
                t3.push("sanitize_html differs from Html::parse + sanitize_with + to_string".into());
            }
        } else if cfg.rrf && remove_html_reply_fallback(src) != out_str {
            t3.push("remove_html_reply_fallback differs from Html::parse + sanitize_with + to_string".into());
        }
    }
    t3.truncate(4);
    Outcome { imp: format!("ok{}", forest_toks(&merge_text(after))), t3 }
}

fn run(req: &str) -> Outcome {
    let toks: Vec<&str> = req.split(' ').collect();
    let bad = Outcome::bad;
    match toks[0] {
        "c14.clean" => {
            let mut it = toks[1..].iter();
            let Some(v) = h_util::parse_tokens(&mut it) else { return bad() };
            let Some(cfg) = Cfg::from_value(&v) else { return bad() };
            let Some(src) = it.next().and_then(|t| unstr(t)) else { return bad() };
            let rest: Vec<&str> = it.copied().collect();
            run_clean(&cfg, &src, &rest.join(" "))
        }
        "c14.elem" if toks.len() == 3 => match (parse_mode(toks[1]), unstr(toks[2])) {
            (Some(m @ 1..=2), Some(el)) => Outcome::new(tf(probe_elem(m, &el))),
            _ => bad(),
        },
        "c14.attr" if toks.len() == 4 => match (parse_mode(toks[1]), unstr(toks[2]), unstr(toks[3])) {
            (Some(m @ 1..=2), Some(el), Some(a)) => Outcome::new(tf(probe_attr(m, &el, &a))),
            _ => bad(),
        },
        "c14.scheme" if toks.len() == 5 => {
            match (parse_mode(toks[1]), unstr(toks[2]), unstr(toks[3]), unstr(toks[4])) {
                (Some(m @ 1..=2), Some(el), Some(a), Some(v)) => Outcome::new(tf(probe_scheme(m, &el, &a, &v))),
                _ => bad(),
            }
        }
        "c14.class" if toks.len() == 4 => match (parse_mode(toks[1]), unstr(toks[2]), unstr(toks[3])) {
            (Some(m @ 1..=2), Some(el), Some(c)) => Outcome::new(tf(probe_class(m, &el, &c))),
            _ => bad(),
        },
        "c14.depth" if toks.len() == 3 => match (parse_mode(toks[1]), toks[2].parse::<u32>()) {
            (Some(m @ 1..=2), Ok(k)) if k <= 2000 => Outcome::new(tf(probe_depth(m, k))),
            _ => bad(),
        },
        "c14.repl" if toks.len() == 3 => match (parse_mode(toks[1]), unstr(toks[2])) {
            (Some(m @ 1..=2), Some(el)) => match probe_replacement(open_real(m), &el, "zz") {
                Some((n, _)) => Outcome::new(format!("to {}", stok(&n))),
                None => Outcome::new("unparsed"),
            },
            _ => bad(),
        },
        "c14.replattr" if toks.len() == 4 => match (parse_mode(toks[1]), unstr(toks[2]), unstr(toks[3])) {
            (Some(m @ 1..=2), Some(el), Some(a)) => match probe_replacement(open_real(m), &el, &a) {
                // the parser itself may rename an attribute (foreign content); the cell is about
                // what the sanitizer does to the attribute it was given
                Some((_, Some((b, n)))) => Outcome::new(format!("to {}", stok(if n == b { &a } else { &n }))),
                _ => Outcome::new("unparsed"),
            },
            _ => bad(),
        },
        _ => bad(),
    }
}

// ------------------------------------------------------------------ T1 extraction

fn lean_str(s: &str) -> String {
    // code point list (cheaper for the kernel than unfolding a string literal); the spelling is
    // kept beside it as a comment when it is printable
    let l = format!("[{}]", s.chars().map(|c| (c as u32).to_string()).collect::<Vec<_>>().join(", "));
    if !s.is_empty() && s.chars().all(|c| (' '..='~').contains(&c)) && !s.contains("-/") && !s.contains("/-") {
        format!("/-{s}-/ {l}")
    } else {
        l
    }
}
fn lean_list(v: &[String]) -> String {
    format!("[{}]", v.join(", "))
}
fn lean_strs(v: &[&str]) -> String {
    lean_list(&v.iter().map(|s| lean_str(s)).collect::<Vec<_>>())
}

struct Table {
    elements: Vec<&'static str>,
    attrs: Vec<(&'static str, Vec<&'static str>)>,
    schemes: Vec<(&'static str, &'static str, Vec<&'static str>)>,
    classes: Vec<(&'static str, Vec<&'static str>)>,
    max_depth: u32,
    repl_elements: Vec<(&'static str, String)>,
    repl_attrs: Vec<(&'static str, &'static str, String)>,
}

fn extract_mode(m: u8) -> Table {
    let eu = spec::element_universe();
    let au = spec::attr_universe();
    let su = spec::scheme_universe();
    let cu = spec::class_universe();
    let elements: Vec<_> = eu.iter().copied().filter(|e| probe_elem(m, e)).collect();
    let mut attrs = Vec::new();
    let mut schemes = Vec::new();
    let mut classes = Vec::new();
    let mut repl_elements = Vec::new();
    let mut repl_attrs = Vec::new();
    let open = open_real(m);
    for e in &eu {
        let kept: Vec<_> = au.iter().copied().filter(|a| probe_attr(m, e, a)).collect();
        if !kept.is_empty() {
            attrs.push((*e, kept));
        }
        for a in &au {
            if !probe_scheme(m, e, a, "zz-fresh-scheme:x") {
                let ok: Vec<_> =
                    su.iter().copied().filter(|s| probe_scheme(m, e, a, &format!("{s}:x"))).collect();
                schemes.push((*e, *a, ok));
            }
        }
        let ok: Vec<_> = cu.iter().copied().filter(|c| probe_class(m, e, c)).collect();
        if !ok.is_empty() {
            classes.push((*e, ok));
        }
        if let Some((n, _)) = probe_replacement(open, e, "zz") {
            if n != *e {
                repl_elements.push((*e, n));
            }
            for a in &au {
                if let Some((_, Some((b, n)))) = probe_replacement(open, e, a) {
                    if n != b {
                        repl_attrs.push((*e, *a, n));
                    }
                }
            }
        }
    }
    let max_depth = (0..=400).find(|k| !probe_depth(m, *k)).unwrap_or(1_000_000);
    Table { elements, attrs, schemes, classes, max_depth, repl_elements, repl_attrs }
}

fn table_lean(name: &str, doc: &str, t: &Table) -> String {
    let mut s = format!("/-- {doc} -/\ndef {name} : ModeTable where\n");
    s.push_str(&format!("  elements := {}\n", lean_strs(&t.elements)));
    s.push_str(&format!(
        "  attrs := {}\n",
        lean_list(&t.attrs.iter().map(|(e, a)| format!("({}, {})", lean_str(e), lean_strs(a))).collect::<Vec<_>>())
    ));
    s.push_str(&format!(
        "  schemes := {}\n",
        lean_list(
            &t.schemes
                .iter()
                .map(|(e, a, l)| format!("({}, {}, {})", lean_str(e), lean_str(a), lean_strs(l)))
                .collect::<Vec<_>>()
        )
    ));
    s.push_str(&format!(
        "  classes := {}\n",
        lean_list(&t.classes.iter().map(|(e, a)| format!("({}, {})", lean_str(e), lean_strs(a))).collect::<Vec<_>>())
    ));
    s.push_str(&format!("  maxDepth := {}\n", t.max_depth));
    s.push_str(&format!(
        "  replElements := {}\n",
        lean_list(&t.repl_elements.iter().map(|(e, n)| format!("({}, {})", lean_str(e), lean_str(n))).collect::<Vec<_>>())
    ));
    s.push_str(&format!(
        "  replAttrs := {}\n\n",
        lean_list(
            &t.repl_attrs
                .iter()
                .map(|(e, a, n)| format!("({}, {}, {})", lean_str(e), lean_str(a), lean_str(n)))
                .collect::<Vec<_>>()
        )
    ));
    s
}

/// T1: the private allow-lists, observed through one-element probes of the running implementation.
fn extract() -> String {
    let strict = extract_mode(1);
    let compat = extract_mode(2);
    let mut s = String::new();
    s.push_str("-- GENERATED by `h-c14 c14 extract` from the running implementation. Do not edit.\n");
    s.push_str("import RumaModel.Model.Html\nnamespace Ruma.Generated.C14\nopen Ruma Ruma.Html\n\n");
    s.push_str("/-- The stated universes over which the private allow-lists were probed. -/\n");
    s.push_str("def univ : Universe where\n");
    s.push_str(&format!("  elements := {}\n", lean_strs(&spec::element_universe())));
    s.push_str(&format!("  attrs := {}\n", lean_strs(&spec::attr_universe())));
    s.push_str(&format!("  schemes := {}\n", lean_strs(&spec::scheme_universe())));
    s.push_str(&format!("  classes := {}\n\n", lean_strs(&spec::class_universe())));
    s.push_str(&table_lean("strict", "Behaviour of `SanitizerConfig::strict()` on every point of the universes.", &strict));
    s.push_str(&table_lean("compat", "Behaviour of `SanitizerConfig::compat()` on every point of the universes.", &compat));

    // The static lists of the model, assembled from the observations: strict lists from the strict
    // table, compat-only schemes = accepted in compat but not in strict. Class *patterns* are not
    // observable (only their accept table above is); the model takes them from the spec.
    let group = |l: &Vec<(&'static str, &'static str, Vec<&'static str>)>| -> String {
        let mut els: Vec<&str> = Vec::new();
        for (e, _, _) in l {
            if !els.contains(e) {
                els.push(e);
            }
        }
        lean_list(
            &els.iter()
                .map(|e| {
                    format!(
                        "({}, {})",
                        lean_str(e),
                        lean_list(
                            &l.iter()
                                .filter(|x| x.0 == *e)
                                .map(|(_, a, s)| format!("({}, {})", lean_str(a), lean_strs(s)))
                                .collect::<Vec<_>>()
                        )
                    )
                })
                .collect::<Vec<_>>(),
        )
    };
    let compat_only: Vec<(&'static str, &'static str, Vec<&'static str>)> = compat
        .schemes
        .iter()
        .filter_map(|(e, a, l)| {
            let base = strict.schemes.iter().find(|x| x.0 == *e && x.1 == *a).map(|x| x.2.clone()).unwrap_or_default();
            let extra: Vec<_> = l.iter().copied().filter(|s| !base.contains(s)).collect();
            (!extra.is_empty()).then_some((*e, *a, extra))
        })
        .collect();
    let mut dep_els: Vec<&str> = Vec::new();
    for (e, _, _) in &strict.repl_attrs {
        if !dep_els.contains(e) {
            dep_els.push(e);
        }
    }
    s.push_str("/-- The static lists the model is instantiated with (class patterns: see `Spec.HtmlAllow`). -/\n");
    s.push_str("def lists (classes : List (Str × List Str)) : Lists where\n");
    s.push_str("  elements := strict.elements\n  deprecatedElements := strict.replElements\n  attrs := strict.attrs\n");
    s.push_str(&format!(
        "  deprecatedAttrs := {}\n",
        lean_list(
            &dep_els
                .iter()
                .map(|e| format!(
                    "({}, {})",
                    lean_str(e),
                    lean_list(
                        &strict
                            .repl_attrs
                            .iter()
                            .filter(|x| x.0 == *e)
                            .map(|(_, a, n)| format!("({}, {})", lean_str(a), lean_str(n)))
                            .collect::<Vec<_>>()
                    )
                ))
                .collect::<Vec<_>>()
        )
    ));
    s.push_str(&format!("  schemesStrict := {}\n", group(&strict.schemes)));
    s.push_str(&format!("  schemesCompat := {}\n", group(&compat_only)));
    s.push_str("  classes := classes\n  maxDepth := strict.maxDepth\n\n");
    s.push_str("end Ruma.Generated.C14\n");
    s
}

// ------------------------------------------------------------------ generation

fn cells(tier: &str) -> Vec<Req> {
    let mut v = Vec::new();
    let eu = spec::element_universe();
    let au = spec::attr_universe();
    let thorough = tier == "thorough";
    for m in [1u8, 2] {
        let mt = mode_tok(m);
        for e in &eu {
            v.push(Req::new(format!("c14.elem {mt} {}", stok(e)), "cell.elem"));
        }
        let attr_els: Vec<&str> = if thorough {
            eu.clone()
        } else {
            spec::ELEMENTS.iter().chain(["font", "strike", "script", "svg", "x-fresh"].iter()).copied().collect()
        };
        for e in &attr_els {
            for a in &au {
                v.push(Req::new(format!("c14.attr {mt} {} {}", stok(e), stok(a)), "cell.attr"));
            }
        }
        for (e, a) in [("a", "href"), ("img", "src")] {
            for s in spec::scheme_universe() {
                for rest in [":x", "://h/p", "", "x"] {
                    v.push(Req::new(
                        format!("c14.scheme {mt} {} {} {}", stok(e), stok(a), stok(&format!("{s}{rest}"))),
                        "cell.scheme",
                    ));
                }
            }
        }
        for (e, attrs) in spec::ATTRS {
            for a in *attrs {
                for val in ["zz-fresh-scheme:x", "javascript:x", "v"] {
                    v.push(Req::new(format!("c14.scheme {mt} {} {} {}", stok(e), stok(a), stok(val)), "cell.scheme"));
                }
            }
        }
        for e in spec::ELEMENTS.iter().chain(["font", "x-fresh"].iter()) {
            for c in spec::class_universe() {
                v.push(Req::new(format!("c14.class {mt} {} {}", stok(e), stok(c)), "cell.class"));
            }
        }
        for k in (0..=120).chain([150, 299]) {
            v.push(Req::new(format!("c14.depth {mt} {k}"), "cell.depth"));
        }
        let open = open_real(m);
        for e in &eu {
            if probe_replacement(open, e, "zz").is_some() {
                v.push(Req::new(format!("c14.repl {mt} {}", stok(e)), "cell.repl"));
                let all = thorough || spec::ELEMENTS[..12].contains(e) || ["font", "strike", "span", "img", "code", "div"].contains(e);
                if all {
                    for a in &au {
                        v.push(Req::new(format!("c14.replattr {mt} {} {}", stok(e), stok(a)), "cell.replattr"));
                    }
                }
            }
        }
    }
    v
}

fn gen(rng: &mut Rng, n: usize, tier: &str) -> Vec<Req> {
    let thorough = tier == "thorough";
    let mut reqs = cells(tier);
    let strict = Cfg::mode(1);
    let compat = Cfg::mode(2);

    // every scheme spelling × colon spelling, alone and accompanied
    let mut docs = Vec::new();
    gen::scheme_matrix(&mut docs);
    for d in &docs {
        reqs.push(Req::new(clean_req(&strict, d), "schemes.strict"));
        reqs.push(Req::new(clean_req(&compat, d), "schemes.compat"));
    }
    // every subset of attributes (quick: up to 3 members) of the seven named elements
    for el in ["a", "img", "span", "code", "font", "ol", "div"] {
        let mut docs = Vec::new();
        gen::attr_subsets(rng, el, if thorough { 11 } else { 3 }, &mut docs);
        for d in &docs {
            let cfg = match rng.below(4) {
                0 => strict.clone(),
                1 => compat.clone(),
                2 => gen::plain_cfgs()[rng.below(5)].clone(),
                _ => gen::gen_cfg(rng),
            };
            reqs.push(Req::new(clean_req(&cfg, d), format!("attrsets.{el}")));
        }
    }
    // foreign content (namespaced attributes) × plain and random configurations
    let mut docs = Vec::new();
    gen::foreign_docs(rng, &mut docs);
    for d in &docs {
        let cfg = match rng.below(4) {
            0 | 1 => gen::plain_cfgs()[rng.below(5)].clone(),
            _ => gen::gen_cfg(rng),
        };
        reqs.push(Req::new(clean_req(&cfg, d), "foreign"));
    }
    // random documents × random configurations
    for i in 0..n {
        let cfg = gen::gen_cfg(rng);
        let (doc, cls) = match i % 20 {
            0 => {
                let k = 90 + rng.below(220);
                (gen::gen_deep(rng, k), "deep")
            }
            1 => {
                let k = 95 + rng.below(12);
                (gen::gen_deep(rng, k), "deep.boundary")
            }
            2..=5 => (gen::gen_doc(rng, &gen::HOSTILE), "hostile"),
            6 | 7 => (gen::gen_doc(rng, &gen::TABLEY), "tables"),
            8 => (gen::gen_allowed_doc(rng, cfg.mode == 2, true, true), "allowed"),
            _ => (gen::gen_doc(rng, &gen::MIXED), "mixed"),
        };
        let cls = format!("{cls}.{}", if cfg.is_plain() { "plain" } else { "custom" });
        reqs.push(Req::new(clean_req(&cfg, &doc), cls));
    }
    reqs
}

fn main() {
    // development aid: `h-c14 c14 mk --replay "<mode>[+rrf] <html>"` prints the request line
    let a: Vec<String> = std::env::args().collect();
    if a.get(2).map(|s| s.as_str()) == Some("mk") {
        let arg = a.get(4).expect("--replay \"<mode>[+rrf] <html>\"");
        let (m, src) = arg.split_once(' ').expect("mode and html");
        let (m, rrf) = match m.strip_suffix("+rrf") {
            Some(m) => (m, true),
            None => (m, false),
        };
        let mut cfg = Cfg::mode(parse_mode(m).expect("mode"));
        cfg.rrf = rrf;
        println!("{}", clean_req(&cfg, src));
        return;
    }
    h_lib::std_main(Some(&extract), &gen, &run);
}
