//! Grammar-based generator of HTML inputs and sanitizer configurations (shared by h-c14/h-c15).
#![allow(dead_code)]
use h_lib::Rng;

use crate::common::{Cfg, Names, PerEl, Schemes};
use crate::spec;

pub const DEPRECATED: &[&str] = &["font", "strike"];
pub const FORBIDDEN: &[&str] = &[
    "script", "style", "iframe", "object", "embed", "form", "input", "button", "select", "option",
    "textarea", "video", "audio", "source", "link", "meta", "base", "title", "noscript", "template",
    "marquee", "center", "big", "tt", "nobr", "applet", "frameset", "frame", "body", "html", "head",
    "section", "article", "dl", "dt", "dd", "small", "mark", "ins", "q", "cite", "tfoot", "col",
    "colgroup", "xmp", "plaintext", "listing", "image", "ruby", "rt", "area", "map", "label",
];
pub const FOREIGN: &[&str] = &[
    "svg", "math", "circle", "g", "path", "foreignObject", "desc", "use", "mi", "mo", "mtext",
    "annotation-xml", "animate", "set",
];
pub const CUSTOM: &[&str] = &["x-foo", "mx-reply", "x-probe", "mx-reply2", "custom-el"];

pub const SCHEME_SPELLINGS: &[&str] = &[
    "https", "http", "ftp", "mailto", "magnet", "matrix", "mxc", "javascript", "data", "vbscript",
    "file", "tel", "HTTP", "Https", "MXC", "jAvAsCrIpT", " http", "\thttp", "\nhttps", "http ",
    "java\tscript", "java&#10;script", "&#106;avascript", "&#x1;javascript", "", "x-fresh", "mxcc",
    "httpx", "htt", "h", "&#104;ttps", "ht&#116;p",
];
pub const COLONS: &[&str] = &[":", ":", ":", ":", "&colon;", "&#58;", "&#x3a;", "&#x3A", "%3a", "", " :", "&#58"];
pub const URI_RESTS: &[&str] = &[
    "//x/y", "alert(1)", "x", "//matrix.org/a?b=c#d", "?xt=urn:btih:abc", "u@h", "", "//h/&quot;x",
    "/r:matrix.org", "//server/media", "text/html,<script>1</script>",
];
pub const RELATIVE: &[&str] = &["/path", "#frag", "//host/x", "x", "", "a/b:c", "?q=http:", "./x"];

pub const CLASS_VALUES: &[&str] = &[
    "language-rust", "language-", "language", "lang-x", "language-a language-b", "x language-y",
    "language-y x", " language-z ", "language-\u{a0}x", "LANGUAGE-x", "language-*", "", "a\tb\nc",
    "language-é", "x", "x y z", "language-a\u{c}language-b", "language-a\u{2003}x", "hljs language-js hljs",
    "  ", "language-a  language-b", "mx-a", "*",
    // two or more kept classes around a removed one: the rewritten value is a join of several
    "language-a x language-b", "x language-a language-b y", "language-a\tx\nlanguage-b", "language-a language-b x",
    "a b language-c language-d e language-f",
];
pub const COLORS: &[&str] = &["#ff0000", "red", "#FFF", "", "rgb(1,2,3)", "javascript:x"];
pub const MISC_VALUES: &[&str] = &["v", "", "a b", "1", "-3", "_blank", "x\"y", "é", "http://x/", "mxc://s/m", "javascript:alert(1)"];
pub const TEXTS: &[&str] = &[
    "a", "b", " ", "text", "x &lt; y", "&amp;", "é", "日本", "\n", "a b", "1 < 2", "&", "&#x41;",
    "\u{a0}", "t", "hello world", "<", "]]>", "&lt;script&gt;", "\t", "🙂",
];

pub const GLOBAL_ATTRS: &[&str] = &[
    "style", "id", "class", "title", "lang", "dir", "onclick", "onerror", "onload", "hidden",
    "data-x", "data-mx-color", "data-mx-bg-color", "data-mx-spoiler", "data-mx-maths", "href",
    "src", "target", "name", "color", "alt", "width", "height", "start", "rel", "xlink:href",
    "xmlns", "xml:lang", "xmlns:xlink", "tabindex", "srcset", "action", "background",
];

pub fn attr_pool(el: &str) -> &'static [&'static str] {
    match el {
        "a" => &["href", "target", "class", "name", "rel", "style", "onclick", "title", "id", "download", "alt"],
        "img" => &["src", "alt", "title", "width", "height", "class", "srcset", "onerror", "style", "align", "data-mx-emoticon"],
        "span" => &["data-mx-bg-color", "data-mx-color", "data-mx-spoiler", "data-mx-maths", "style", "class", "color", "title"],
        "code" => &["class", "style", "id", "lang", "data-x"],
        "font" => &["color", "data-mx-color", "data-mx-bg-color", "face", "size", "style", "class"],
        "ol" => &["start", "type", "reversed", "class", "style"],
        "div" => &["data-mx-maths", "class", "style", "align", "id"],
        _ => GLOBAL_ATTRS,
    }
}

pub fn pick<'a>(rng: &mut Rng, xs: &'a [&'a str]) -> &'a str {
    xs[rng.below(xs.len())]
}

pub fn uri_value(rng: &mut Rng) -> String {
    match rng.below(10) {
        0 => pick(rng, RELATIVE).to_string(),
        1..=4 => {
            // a well-formed allowed URI
            let s = pick(rng, &["https", "http", "ftp", "mailto", "magnet", "matrix", "mxc"]);
            format!("{s}:{}", pick(rng, URI_RESTS))
        }
        _ => format!("{}{}{}", pick(rng, SCHEME_SPELLINGS), pick(rng, COLONS), pick(rng, URI_RESTS)),
    }
}

pub fn attr_value(rng: &mut Rng, attr: &str) -> String {
    match attr {
        "href" | "src" | "xlink:href" | "action" | "background" | "srcset" => uri_value(rng),
        "class" => pick(rng, CLASS_VALUES).to_string(),
        "color" | "data-mx-color" | "data-mx-bg-color" => {
            if rng.chance(1, 6) { uri_value(rng) } else { pick(rng, COLORS).to_string() }
        }
        _ => {
            if rng.chance(1, 8) { uri_value(rng) } else { pick(rng, MISC_VALUES).to_string() }
        }
    }
}

/// Write ` name=value` in one of the spellings the tokenizer accepts. `value` may contain
/// character references on purpose; quotes that would end the value are escaped.
pub fn write_attr(rng: &mut Rng, out: &mut String, name: &str, value: &str) {
    out.push(' ');
    if rng.chance(1, 12) {
        out.push_str(&name.to_uppercase());
    } else {
        out.push_str(name);
    }
    let plain = !value.is_empty()
        && value.chars().all(|c| c.is_ascii_alphanumeric() || "-_:/.#&;%".contains(c));
    match rng.below(8) {
        0 if value.is_empty() => {}
        1 if plain => {
            out.push('=');
            out.push_str(value);
        }
        2 | 3 => {
            out.push_str("='");
            out.push_str(&value.replace('\'', "&#39;"));
            out.push('\'');
        }
        _ => {
            out.push_str("=\"");
            out.push_str(&value.replace('"', "&quot;"));
            out.push('"');
        }
    }
}

pub struct Profile {
    /// weights: allowed, deprecated, forbidden, foreign, custom
    pub w: [u32; 5],
    pub malformed: u32, // chance in 100 of a malformed construct at each step
    pub comments: u32,
}

pub const MIXED: Profile = Profile { w: [55, 8, 20, 7, 10], malformed: 8, comments: 6 };
pub const HOSTILE: Profile = Profile { w: [25, 5, 40, 15, 15], malformed: 25, comments: 12 };
pub const TABLEY: Profile = Profile { w: [90, 2, 5, 0, 3], malformed: 20, comments: 3 };

pub fn elem_name(rng: &mut Rng, p: &Profile) -> &'static str {
    let tot: u32 = p.w.iter().sum();
    let mut r = (rng.next() % tot as u64) as u32;
    for (i, w) in p.w.iter().enumerate() {
        if r < *w {
            return match i {
                0 => pick(rng, spec::ELEMENTS),
                1 => pick(rng, DEPRECATED),
                2 => pick(rng, FORBIDDEN),
                3 => pick(rng, FOREIGN),
                _ => pick(rng, CUSTOM),
            };
        }
        r -= w;
    }
    "p"
}

const VOID: &[&str] = &["br", "hr", "img", "input", "link", "meta", "base", "source", "embed", "col", "area", "frame", "image"];

pub fn write_attrs(rng: &mut Rng, out: &mut String, el: &str) {
    let k = match rng.below(10) {
        0..=3 => 0,
        4..=6 => 1,
        7 | 8 => 2,
        _ => 3 + rng.below(3),
    };
    let pool = attr_pool(el);
    for _ in 0..k {
        let a = if rng.chance(1, 5) { pick(rng, GLOBAL_ATTRS) } else { pick(rng, pool) };
        let v = attr_value(rng, a);
        write_attr(rng, out, a, &v);
    }
}

pub fn gen_nodes(rng: &mut Rng, out: &mut String, p: &Profile, depth: u32, budget: &mut i32) {
    let n = 1 + rng.below(3);
    for _ in 0..n {
        if *budget <= 0 {
            return;
        }
        *budget -= 1;
        let r = rng.below(100) as u32;
        if r < p.comments {
            match rng.below(5) {
                0 => out.push_str("<!-- c -->"),
                1 => out.push_str("<?pi x?>"),
                2 => out.push_str("<!DOCTYPE html>"),
                3 => out.push_str("<![CDATA[x]]>"),
                _ => out.push_str("<!--<b>-->"),
            }
        } else if r < p.comments + p.malformed {
            match rng.below(6) {
                0 => {
                    out.push_str("</");
                    out.push_str(elem_name(rng, p));
                    out.push('>');
                }
                1 => {
                    // unclosed
                    let e = elem_name(rng, p);
                    out.push('<');
                    out.push_str(e);
                    write_attrs(rng, out, e);
                    out.push('>');
                    if depth > 0 {
                        gen_nodes(rng, out, p, depth - 1, budget);
                    }
                }
                2 => {
                    // misnested formatting
                    out.push_str("<b><i>x</b>y</i>");
                }
                3 => {
                    // foster parenting
                    out.push_str("<table>");
                    out.push_str(pick(rng, TEXTS));
                    let e = elem_name(rng, p);
                    out.push('<');
                    out.push_str(e);
                    write_attrs(rng, out, e);
                    out.push('>');
                    out.push_str("<tr><td>c</td></tr></table>");
                }
                4 => out.push_str("<a href=\"http://x\"><a href='javascript:x'>n</a></a>"),
                _ => out.push_str("<p><div>x</p></div><"),
            }
        } else if r < p.comments + p.malformed + 30 || depth == 0 {
            out.push_str(pick(rng, TEXTS));
        } else {
            let e = elem_name(rng, p);
            out.push('<');
            out.push_str(e);
            write_attrs(rng, out, e);
            if rng.chance(1, 30) {
                out.push('/');
            }
            out.push('>');
            if !VOID.contains(&e) {
                gen_nodes(rng, out, p, depth - 1, budget);
                if !rng.chance(1, 12) {
                    out.push_str("</");
                    out.push_str(e);
                    out.push('>');
                }
            }
        }
    }
}

pub fn gen_doc(rng: &mut Rng, p: &Profile) -> String {
    let mut out = String::new();
    let mut budget = 4 + rng.below(30) as i32;
    let depth = 1 + rng.below(6) as u32;
    gen_nodes(rng, &mut out, p, depth, &mut budget);
    out
}

/// A chain of `k` nested elements (allowed, ignored and deprecated mixed) around a leaf.
pub fn gen_deep(rng: &mut Rng, k: usize) -> String {
    // elements that nest in each other without the parser closing or re-parenting anything
    const NEST_OK: &[&str] = &["div", "span", "b", "i", "em", "strong", "u", "s", "del", "sup", "sub", "code", "blockquote", "details"];
    const NEST_IGN: &[&str] = &["x-foo", "section", "small", "center", "font", "strike", "mx-reply", "object", "ins"];
    let style = rng.below(4);
    let mut names = Vec::with_capacity(k);
    for i in 0..k {
        let e = match style {
            0 => "div",
            1 => pick(rng, NEST_OK),
            2 => {
                if rng.chance(1, 4) { pick(rng, NEST_IGN) } else { pick(rng, NEST_OK) }
            }
            _ => {
                if i % 2 == 0 { "span" } else { pick(rng, NEST_IGN) }
            }
        };
        // formatting elements: html5ever keeps at most 3 equal entries in the list of active
        // formatting elements (Noah's Ark); irrelevant for the tree dump, which is what is compared
        names.push(e);
    }
    let mut s = String::new();
    for e in &names {
        s.push('<');
        s.push_str(e);
        if rng.chance(1, 10) {
            write_attrs(rng, &mut s, e);
        }
        s.push('>');
        if rng.chance(1, 20) {
            s.push_str(pick(rng, TEXTS));
        }
    }
    s.push_str(pick(rng, &["leaf", "<a href=\"https://x\">l</a>", "<img src=\"mxc://a/b\">", "<br>", "<!-- c -->z"]));
    if rng.chance(2, 3) {
        for e in names.iter().rev() {
            s.push_str("</");
            s.push_str(e);
            s.push('>');
            if rng.chance(1, 25) {
                s.push_str("t");
            }
        }
    }
    s
}

/// Every subset of the attribute pool of `el` with at most `max` members: one document per subset,
/// attributes written in a random order with random values.
pub fn attr_subsets(rng: &mut Rng, el: &str, max: usize, out: &mut Vec<String>) {
    let pool = attr_pool(el);
    let n = pool.len().min(11);
    for mask in 0u32..(1 << n) {
        if (mask.count_ones() as usize) > max {
            continue;
        }
        let mut attrs: Vec<&str> = (0..n).filter(|i| mask & (1 << i) != 0).map(|i| pool[i]).collect();
        rng.shuffle(&mut attrs);
        let mut s = format!("<{el}");
        for a in attrs {
            let v = attr_value(rng, a);
            write_attr(rng, &mut s, a, &v);
        }
        s.push('>');
        if !VOID.contains(&el) {
            s.push_str("t</");
            s.push_str(el);
            s.push('>');
        }
        out.push(s);
    }
}

/// Every scheme spelling × colon spelling on a URI attribute, alone and accompanied by an
/// earlier- and a later-sorting attribute.
pub fn scheme_matrix(out: &mut Vec<String>) {
    for (el, attr, before, after) in [("a", "href", "class=\"x\"", "target=\"_blank\""), ("img", "src", "alt=\"a\"", "title=\"t\"")] {
        for s in SCHEME_SPELLINGS {
            for c in COLONS {
                let v = format!("{s}{c}//x/y").replace('"', "&quot;");
                let close = if el == "a" { "t</a>" } else { "" };
                out.push(format!("<{el} {attr}=\"{v}\">{close}"));
                out.push(format!("<{el} {before} {attr}=\"{v}\">{close}"));
                out.push(format!("<{el} {attr}=\"{v}\" {after}>{close}"));
            }
        }
    }
}

/// Foreign content: html5ever puts `xlink:href`, `xml:lang`, `xmlns`, `xmlns:xlink` of elements
/// inside `<svg>`/`<math>` into a namespace (the serializer writes the prefix back); elements
/// that "break out" of foreign content (`img`, `span`, `div`, `font color=…`) are HTML elements
/// again, and the same spellings are then plain HTML attributes with a colon in their name.
pub fn foreign_docs(rng: &mut Rng, out: &mut Vec<String>) {
    const NS_ATTRS: &[&str] = &["xlink:href", "xml:lang", "xmlns:xlink", "xmlns", "xlink:title", "xml:space", "xlink:show"];
    for wrap in ["svg", "math", "svg><g", "math><mi", "svg><foreignObject", "svg><desc", "math><annotation-xml encoding=\"text/html\""] {
        for el in ["a", "img", "span", "code", "div", "ol", "font", "b", "circle", "mtext", "x-foo", "mx-reply"] {
            for k in 0..4 {
                let mut s = format!("<{wrap}><{el}");
                let mut attrs: Vec<&str> = Vec::new();
                attrs.push(NS_ATTRS[(k + rng.below(NS_ATTRS.len())) % NS_ATTRS.len()]);
                if k >= 1 {
                    attrs.push(pick(rng, attr_pool(el)));
                }
                if k >= 2 {
                    attrs.push(pick(rng, NS_ATTRS));
                    attrs.push(pick(rng, &["href", "src", "title", "lang", "class"]));
                }
                rng.shuffle(&mut attrs);
                for a in attrs {
                    let v = if a.ends_with("href") || a == "src" { uri_value(rng) } else { attr_value(rng, a) };
                    write_attr(rng, &mut s, a, &v);
                }
                s.push('>');
                s.push_str(pick(rng, TEXTS));
                if rng.chance(2, 3) {
                    s.push_str(&format!("</{el}>"));
                }
                if rng.chance(1, 2) {
                    s.push_str("<b>x</b>");
                }
                out.push(s);
            }
        }
    }
}

// ------------------------------------------------------------------ allow-list grammar (C15)

/// A well-nested document using only allowed elements, attributes, schemes and classes, in the
/// serializer's own spelling, nested at most `max_depth` deep. `deprecated`: also use `font`
/// (with `color`, `data-mx-color`, `data-mx-bg-color`) and `strike`.
pub fn gen_allowed_doc(rng: &mut Rng, compat: bool, deprecated: bool, reply: bool) -> String {
    let mut out = String::new();
    let mut budget = 3 + rng.below(25) as i32;
    let depth = 1 + rng.below(7) as u32;
    allowed_flow(rng, &mut out, depth, &mut budget, compat, deprecated, reply, false);
    out
}

fn allowed_text(rng: &mut Rng, out: &mut String) {
    out.push_str(pick(rng, &["a", "text", "x &lt; y", "&amp;", "é", "日本", "a b", "hello", "1", "🙂", "&gt;"]));
}

fn allowed_uri(rng: &mut Rng, compat: bool) -> String {
    let mut s: Vec<&str> = vec!["https", "http", "ftp", "mailto", "magnet"];
    if compat {
        s.push("matrix");
    }
    format!("{}:{}", pick(rng, &s), pick(rng, &["//x/y", "u@h", "?xt=urn:btih:abc", "//matrix.org/a?b=c#d", "x", ""]))
}

#[allow(clippy::too_many_arguments)]
fn allowed_phrasing(rng: &mut Rng, out: &mut String, depth: u32, budget: &mut i32, compat: bool, deprecated: bool, in_a: bool) {
    let n = 1 + rng.below(3);
    for _ in 0..n {
        if *budget <= 0 || depth == 0 || rng.chance(2, 5) {
            allowed_text(rng, out);
            continue;
        }
        *budget -= 1;
        let mut pool: Vec<&str> = vec!["b", "i", "u", "strong", "em", "s", "del", "sup", "sub", "code", "span", "br", "img"];
        if !in_a {
            pool.push("a");
        }
        if deprecated {
            pool.push("font");
            pool.push("strike");
            pool.push("font");
        }
        let e = pick(rng, &pool);
        match e {
            "br" => out.push_str("<br>"),
            "img" => {
                // attributes in sorted order, as the serializer writes them
                out.push_str("<img");
                if rng.chance(1, 2) { out.push_str(" alt=\"a b\""); }
                if rng.chance(1, 3) { out.push_str(" height=\"3\""); }
                out.push_str(&format!(" src=\"mxc://{}\"", pick(rng, &["s/m", "matrix.org/abc", ""])));
                if rng.chance(1, 3) { out.push_str(" title=\"t\""); }
                if rng.chance(1, 3) { out.push_str(" width=\"10\""); }
                out.push('>');
            }
            _ => {
                out.push('<');
                out.push_str(e);
                match e {
                    "a" => {
                        out.push_str(&format!(" href=\"{}\"", allowed_uri(rng, compat)));
                        if rng.chance(1, 3) { out.push_str(" target=\"_blank\""); }
                    }
                    "code" => {
                        if rng.chance(1, 2) {
                            out.push_str(&format!(" class=\"{}\"", pick(rng, &["language-rust", "language-", "language-a language-b", "language-c++"])));
                        }
                    }
                    "span" => {
                        if rng.chance(1, 3) { out.push_str(" data-mx-bg-color=\"#ff0000\""); }
                        if rng.chance(1, 3) { out.push_str(" data-mx-color=\"red\""); }
                        if rng.chance(1, 4) { out.push_str(" data-mx-maths=\"x^2\""); }
                        if rng.chance(1, 4) { out.push_str(" data-mx-spoiler=\"\""); }
                    }
                    "font" => {
                        // `color` and `data-mx-color` never both (two attributes of one name
                        // after the rewrite are outside "documented replacement")
                        if rng.chance(1, 2) { out.push_str(" color=\"#00ff00\""); }
                        else if rng.chance(1, 2) { out.push_str(" data-mx-color=\"blue\""); }
                        if rng.chance(1, 3) { out.push_str(" data-mx-bg-color=\"#000\""); }
                    }
                    _ => {}
                }
                out.push('>');
                allowed_phrasing(rng, out, depth - 1, budget, compat, deprecated, in_a || e == "a");
                out.push_str("</");
                out.push_str(e);
                out.push('>');
            }
        }
    }
}

#[allow(clippy::too_many_arguments)]
fn allowed_flow(rng: &mut Rng, out: &mut String, depth: u32, budget: &mut i32, compat: bool, deprecated: bool, reply: bool, in_a: bool) {
    let n = 1 + rng.below(3);
    for _ in 0..n {
        if *budget <= 0 || depth == 0 {
            allowed_phrasing(rng, out, depth, budget, compat, deprecated, in_a);
            continue;
        }
        *budget -= 1;
        let mut pool = vec!["p", "div", "blockquote", "ul", "ol", "h1", "h2", "h3", "h4", "h5", "h6", "pre", "hr", "table", "details", "phrasing", "phrasing"];
        if reply {
            pool.push("mx-reply");
        }
        match pick(rng, &pool) {
            "phrasing" => allowed_phrasing(rng, out, depth, budget, compat, deprecated, in_a),
            "hr" => out.push_str("<hr>"),
            "p" => {
                out.push_str("<p>");
                allowed_phrasing(rng, out, depth - 1, budget, compat, deprecated, in_a);
                out.push_str("</p>");
            }
            e @ ("h1" | "h2" | "h3" | "h4" | "h5" | "h6") => {
                out.push_str(&format!("<{e}>"));
                allowed_phrasing(rng, out, depth - 1, budget, compat, deprecated, in_a);
                out.push_str(&format!("</{e}>"));
            }
            "pre" => {
                out.push_str("<pre><code>");
                allowed_text(rng, out);
                out.push_str("</code></pre>");
            }
            "ul" => {
                out.push_str("<ul>");
                for _ in 0..1 + rng.below(3) {
                    out.push_str("<li>");
                    allowed_flow(rng, out, depth.saturating_sub(2), budget, compat, deprecated, false, in_a);
                    out.push_str("</li>");
                }
                out.push_str("</ul>");
            }
            "ol" => {
                if rng.chance(1, 2) { out.push_str("<ol start=\"3\">"); } else { out.push_str("<ol>"); }
                for _ in 0..1 + rng.below(3) {
                    out.push_str("<li>");
                    allowed_phrasing(rng, out, depth.saturating_sub(2), budget, compat, deprecated, in_a);
                    out.push_str("</li>");
                }
                out.push_str("</ol>");
            }
            "table" => {
                out.push_str("<table>");
                if rng.chance(1, 3) { out.push_str("<caption>c</caption>"); }
                if rng.chance(1, 2) { out.push_str("<thead><tr><th>h</th><th>k</th></tr></thead>"); }
                out.push_str("<tbody>");
                for _ in 0..1 + rng.below(2) {
                    out.push_str("<tr><td>");
                    allowed_phrasing(rng, out, depth.saturating_sub(4), budget, compat, deprecated, in_a);
                    out.push_str("</td><td>x</td></tr>");
                }
                out.push_str("</tbody></table>");
            }
            "details" => {
                out.push_str("<details><summary>");
                allowed_phrasing(rng, out, depth.saturating_sub(2), budget, compat, deprecated, in_a);
                out.push_str("</summary>");
                allowed_flow(rng, out, depth - 1, budget, compat, deprecated, false, in_a);
                out.push_str("</details>");
            }
            "mx-reply" => {
                out.push_str("<mx-reply><blockquote><a href=\"https://matrix.to/#/!r:h/$e\">In reply to</a> <a href=\"https://matrix.to/#/@u:h\">@u:h</a><br>quoted</blockquote></mx-reply>");
            }
            e => {
                // div, blockquote
                if e == "div" && rng.chance(1, 4) {
                    out.push_str("<div data-mx-maths=\"\\frac{1}{2}\">");
                } else {
                    out.push_str(&format!("<{e}>"));
                }
                allowed_flow(rng, out, depth - 1, budget, compat, deprecated, false, in_a);
                out.push_str(&format!("</{e}>"));
            }
        }
    }
}

/// Allowed elements nested exactly `k` deep (k ≤ 100 is within the limit).
pub fn gen_allowed_deep(rng: &mut Rng, k: usize) -> String {
    const NEST_OK: &[&str] = &["div", "span", "blockquote", "details", "em", "sup"];
    let names: Vec<&str> = (0..k).map(|_| if rng.chance(1, 2) { "div" } else { pick(rng, NEST_OK) }).collect();
    // phrasing elements must not contain flow elements if the parse is to be a fixpoint of
    // serialisation? html5ever keeps <span><div> as written; only <p> and headings close.
    let mut s = String::new();
    for e in &names {
        s.push_str(&format!("<{e}>"));
    }
    s.push_str("x");
    for e in names.iter().rev() {
        s.push_str(&format!("</{e}>"));
    }
    s
}


// ------------------------------------------------------------------ builder matrix

/// A small document around element `e` (inside the wrapper the parser needs for it), carrying all
/// of the spec's attributes for it plus two others, with one allowed child and text.
pub fn doc_around(rng: &mut Rng, e: &str) -> String {
    let mut s = String::new();
    let (open, close) = match e {
        "li" => ("<ul>", "</ul>"),
        "thead" | "tbody" | "caption" => ("<table>", "</table>"),
        "tr" => ("<table><tbody>", "</tbody></table>"),
        "th" | "td" => ("<table><tbody><tr>", "</tr></tbody></table>"),
        "summary" => ("<details>", "</details>"),
        _ => ("", ""),
    };
    s.push_str(open);
    s.push('<');
    s.push_str(e);
    let mut attrs: Vec<&str> = spec::ATTRS.iter().filter(|(el, _)| *el == e).flat_map(|(_, a)| a.iter().copied()).collect();
    attrs.push("class");
    attrs.push("title");
    attrs.dedup();
    rng.shuffle(&mut attrs);
    for a in attrs {
        let v = match a {
            "href" => pick(rng, &["https://x/y", "matrix:u/a:b", "tel:1", "javascript:x", "data:x"]).to_string(),
            "src" => pick(rng, &["mxc://s/m", "http://x/y", "data:x"]).to_string(),
            "class" => pick(rng, &["language-rust x", "language-a language-b", "x", "language-r y language-s"]).to_string(),
            _ => attr_value(rng, a),
        };
        write_attr(rng, &mut s, a, &v);
    }
    s.push('>');
    if !VOID.contains(&e) {
        let inner = match e {
            "table" => "<tbody><tr><td>c</td></tr></tbody>",
            "thead" | "tbody" => "<tr><td>c</td></tr>",
            "tr" => "<td>c</td>",
            "ul" | "ol" => "<li>c</li>",
            _ => "t<em>c</em>",
        };
        s.push_str(inner);
        s.push_str(&format!("</{e}>"));
    }
    s.push_str(close);
    s.push_str("<i>after</i>");
    s
}

/// Every list method of the builder on every name the spec lists (and a few it does not), alone
/// and in the combinations whose precedence the documentation fixes: remove / ignore / allow of
/// each element; remove / allow of each attribute of each element; deny / allow of schemes with an
/// attribute before and after the URI attribute; remove / allow of class patterns.
pub fn builder_matrix(rng: &mut Rng, out: &mut Vec<(Cfg, String)>) {
    let n = |v: &[&str]| -> Names { v.iter().map(|s| s.to_string()).collect() };
    for mode in [0u8, 1, 2] {
        // elements
        for e in spec::ELEMENTS.iter().copied().chain(["font", "strike", "x-foo", "script", "center"]) {
            let doc = doc_around(rng, e);
            for k in 0..6 {
                let mut c = Cfg::mode(mode);
                match k {
                    0 => c.remove_elements = Some(n(&[e])),
                    1 => c.ignore_elements = Some(n(&[e])),
                    2 => {
                        c.remove_elements = Some(n(&[e, "u"]));
                        c.ignore_elements = Some(n(&["b", e]));
                        c.allow_elements = Some((false, n(&[e])));
                    }
                    3 => {
                        c.ignore_elements = Some(n(&[e]));
                        c.allow_elements = Some((true, n(&[e, "i"])));
                    }
                    4 => c.allow_elements = Some((true, n(&[e, "em"]))),
                    _ => c.allow_elements = Some((false, n(&[e]))),
                }
                c.rrf = rng.chance(1, 4);
                out.push((c, doc.clone()));
            }
        }
        // attributes
        for (el, attrs) in spec::ATTRS {
            for a in attrs.iter().copied().chain(["title", "class"]) {
                let doc = doc_around(rng, el);
                for k in 0..4 {
                    let mut c = Cfg::mode(mode);
                    match k {
                        0 => c.remove_attrs = Some(vec![(el.to_string(), n(&[a]))]),
                        1 => {
                            c.remove_attrs = Some(vec![(el.to_string(), n(&[a]))]);
                            c.allow_attrs = Some((false, vec![(el.to_string(), n(&[a, "title"]))]));
                        }
                        2 => c.allow_attrs = Some((true, vec![(el.to_string(), n(&[a]))])),
                        _ => c.allow_attrs = Some((false, vec![(el.to_string(), n(&[a]))])),
                    }
                    out.push((c, doc.clone()));
                }
            }
        }
        // schemes: the URI attribute alone, after an attribute that sorts earlier, before one that sorts later
        for (el, attr, before, after) in [("a", "href", "class=\"x\"", "target=\"_blank\""), ("img", "src", "alt=\"a\"", "title=\"t\"")] {
            for scheme in ["https", "javascript", "tel", "matrix", "mxc", "data"] {
                let close = if el == "a" { "t</a>" } else { "" };
                let docs = [
                    format!("<{el} {attr}=\"{scheme}:x\">{close}"),
                    format!("<{el} {before} {attr}=\"{scheme}:x\">{close}"),
                    format!("<{el} {attr}=\"{scheme}:x\" {after}>{close}"),
                    format!("<{el} {before} {attr}=\"{scheme}:x\" {after}>{close}"),
                ];
                let sch = |l: &[&str]| -> Schemes { vec![(el.to_string(), vec![(attr.to_string(), n(l))])] };
                for k in 0..5 {
                    let mut c = Cfg::mode(mode);
                    match k {
                        0 => c.deny_schemes = Some(sch(&[scheme])),
                        1 => {
                            c.deny_schemes = Some(sch(&["x-other", scheme]));
                            c.allow_schemes = Some((false, sch(&[scheme, "https"])));
                        }
                        2 => c.allow_schemes = Some((true, sch(&[scheme]))),
                        3 => c.allow_schemes = Some((false, sch(&[scheme]))),
                        _ => c.allow_schemes = Some((true, sch(&["tel"]))),
                    }
                    out.push((c.clone(), docs[rng.below(4)].clone()));
                    out.push((c, docs[rng.below(4)].clone()));
                }
            }
        }
        // classes
        for pat in ["language-r*", "x", "*", "language-?", "lang*"] {
            for val in ["language-rust x", "language-a language-b", "x", "language-r y language-s", "language-a x language-b"] {
                let doc = format!("<code class=\"{val}\">c</code><span class=\"{val}\">s</span>");
                for k in 0..4 {
                    let mut c = Cfg::mode(mode);
                    let pe = |l: &[&str]| -> PerEl { vec![("code".to_string(), n(l)), ("span".to_string(), n(l))] };
                    match k {
                        0 => c.remove_classes = Some(pe(&[pat])),
                        1 => {
                            c.remove_classes = Some(pe(&[pat]));
                            c.allow_classes = Some((false, pe(&[pat, "x"])));
                            c.allow_attrs = Some((false, vec![("span".to_string(), n(&["class"]))]));
                        }
                        2 => c.allow_classes = Some((true, pe(&[pat]))),
                        _ => {
                            c.allow_classes = Some((false, pe(&[pat])));
                            c.allow_attrs = Some((false, vec![("span".to_string(), n(&["class"]))]));
                        }
                    }
                    out.push((c, doc.clone()));
                }
            }
        }
    }
}

// ------------------------------------------------------------------ configurations

const CFG_ELEMS: &[&str] = &[
    "span", "a", "img", "code", "div", "p", "font", "strike", "u", "center", "marquee", "script",
    "x-foo", "mx-reply", "b", "table", "tbody", "small", "section", "s", "object", "svg",
];
const CFG_ATTRS: &[&str] = &[
    "style", "id", "class", "href", "src", "data-x", "color", "title", "name", "target", "alt",
    "data-mx-color", "data-mx-bg-color", "onclick", "face", "start", "xlink:href",
];
const CFG_SCHEMES: &[&str] = &["http", "https", "javascript", "data", "mxc", "matrix", "tel", "x-fresh", "ftp", "", "h"];
const CFG_CLASSES: &[&str] = &["language-*", "lang-?", "x", "*", "a*b", "", "language-r*", "hljs", "language-", "?", "*-*", "mx-*"];

fn names(rng: &mut Rng, pool: &[&str], max: usize) -> Names {
    let k = rng.below(max + 1);
    (0..k).map(|_| pick(rng, pool).to_string()).collect()
}
fn perel(rng: &mut Rng, pool: &[&str]) -> PerEl {
    let k = rng.below(4);
    (0..k).map(|_| (pick(rng, CFG_ELEMS).to_string(), names(rng, pool, 4))).collect()
}
fn schemes(rng: &mut Rng) -> Schemes {
    let k = rng.below(3);
    (0..k)
        .map(|_| {
            let el = pick(rng, &["a", "img", "span", "x-foo", "font", "div"]).to_string();
            let m = (0..1 + rng.below(2))
                .map(|_| (pick(rng, &["href", "src", "title", "data-x", "color", "class", "target"]).to_string(), names(rng, CFG_SCHEMES, 3)))
                .collect();
            (el, m)
        })
        .collect()
}
fn pairs(rng: &mut Rng, pool: &[&str]) -> Vec<(String, String)> {
    let k = rng.below(4);
    (0..k).map(|_| (pick(rng, pool).to_string(), pick(rng, pool).to_string())).collect()
}

pub fn gen_cfg(rng: &mut Rng) -> Cfg {
    let mut c = Cfg::mode(match rng.below(5) {
        0 => 0,
        1 | 2 => 1,
        _ => 2,
    });
    c.rrf = rng.chance(1, 3);
    if rng.chance(1, 2) {
        return c; // plain modes × reply-fallback removal: half of all cases
    }
    let p = 4; // each field present with chance 1/p
    if rng.chance(1, p) {
        c.replace_elements = Some((rng.chance(1, 2), pairs(rng, CFG_ELEMS)));
    }
    if rng.chance(1, p) {
        c.remove_elements = Some(names(rng, CFG_ELEMS, 3));
    }
    if rng.chance(1, p) {
        c.ignore_elements = Some(names(rng, CFG_ELEMS, 3));
    }
    if rng.chance(1, p) {
        c.allow_elements = Some((rng.chance(1, 2), names(rng, CFG_ELEMS, 6)));
    }
    if rng.chance(1, p) {
        let k = rng.below(3);
        c.replace_attrs = Some((
            rng.chance(1, 2),
            (0..k).map(|_| (pick(rng, CFG_ELEMS).to_string(), pairs(rng, CFG_ATTRS))).collect(),
        ));
    }
    if rng.chance(1, p) {
        c.remove_attrs = Some(perel(rng, CFG_ATTRS));
    }
    if rng.chance(1, p) {
        c.allow_attrs = Some((rng.chance(1, 2), perel(rng, CFG_ATTRS)));
    }
    if rng.chance(1, p) {
        c.deny_schemes = Some(schemes(rng));
    }
    if rng.chance(1, p) {
        c.allow_schemes = Some((rng.chance(1, 2), schemes(rng)));
    }
    if rng.chance(1, p) {
        c.remove_classes = Some(perel(rng, CFG_CLASSES));
    }
    if rng.chance(1, p) {
        c.allow_classes = Some((rng.chance(1, 2), perel(rng, CFG_CLASSES)));
    }
    if rng.chance(1, p) {
        c.max_depth = Some(*rng.pick(&[0u32, 1, 2, 3, 5, 50, 99, 100, 101, 150, 1000]));
    }
    c
}

/// The four configurations the helper functions `sanitize_html` expose, plus reply-fallback-only.
pub fn plain_cfgs() -> Vec<Cfg> {
    let mut v = Vec::new();
    for m in [1u8, 2] {
        for r in [false, true] {
            let mut c = Cfg::mode(m);
            c.rrf = r;
            v.push(c);
        }
    }
    let mut c = Cfg::mode(0);
    c.rrf = true;
    v.push(c);
    v
}
