//! Shared by h-c14 and h-c15: sanitizer configurations as data (token codec, builder calls on the
//! real `SanitizerConfig`), tree dumps of `ruma_html::Html`, the spec-side allow-list predicate
//! used by the direct oracles (T3), and the one-element probes of the private allow-lists (T1).
#![allow(dead_code)]
use std::collections::{HashMap, HashSet};
use std::fmt::Write as _;
use std::sync::Mutex;

use h_lib::h_util::{self, stok};
use ruma_html::{
    Children, ElementAttributesReplacement, ElementAttributesSchemes, Html, HtmlSanitizerMode,
    ListBehavior, NameReplacement, NodeData, NodeRef, PropertiesNames, SanitizerConfig,
};
use serde_json::{json, Value};

use crate::spec;

// ------------------------------------------------------------------ interning ('static names)

static INTERN: Mutex<Option<HashSet<&'static str>>> = Mutex::new(None);

pub fn leak(s: &str) -> &'static str {
    let mut g = INTERN.lock().unwrap();
    let set = g.get_or_insert_with(HashSet::new);
    if let Some(x) = set.get(s) {
        return x;
    }
    let l: &'static str = Box::leak(s.to_owned().into_boxed_str());
    set.insert(l);
    l
}

// ------------------------------------------------------------------ configurations as data

pub type Names = Vec<String>;
pub type PerEl = Vec<(String, Names)>;
pub type Schemes = Vec<(String, Vec<(String, Names)>)>;

/// Every field of `SanitizerConfig`, as the public builder sets them. `bool` = `ListBehavior::Override`.
#[derive(Clone, Default, Debug)]
pub struct Cfg {
    pub mode: u8, // 0 none, 1 strict, 2 compat
    pub replace_elements: Option<(bool, Vec<(String, String)>)>,
    pub remove_elements: Option<Names>,
    pub rrf: bool,
    pub ignore_elements: Option<Names>,
    pub allow_elements: Option<(bool, Names)>,
    pub replace_attrs: Option<(bool, Vec<(String, Vec<(String, String)>)>)>,
    pub remove_attrs: Option<PerEl>,
    pub allow_attrs: Option<(bool, PerEl)>,
    pub deny_schemes: Option<Schemes>,
    pub allow_schemes: Option<(bool, Schemes)>,
    pub remove_classes: Option<PerEl>,
    pub allow_classes: Option<(bool, PerEl)>,
    pub max_depth: Option<u32>,
}

fn names_v(n: &Names) -> Value {
    Value::Array(n.iter().map(|s| json!(s)).collect())
}
fn perel_v(p: &PerEl) -> Value {
    Value::Array(p.iter().map(|(e, n)| json!([e, names_v(n)])).collect())
}
fn schemes_v(p: &Schemes) -> Value {
    Value::Array(p.iter().map(|(e, m)| json!([e, perel_v(m)])).collect())
}
fn pairs_v(p: &[(String, String)]) -> Value {
    Value::Array(p.iter().map(|(a, b)| json!([a, b])).collect())
}
fn opt<T>(o: &Option<T>, f: impl Fn(&T) -> Value) -> Value {
    o.as_ref().map(f).unwrap_or(Value::Null)
}
fn beh<T>(o: &Option<(bool, T)>, f: impl Fn(&T) -> Value) -> Value {
    o.as_ref().map(|(b, t)| json!([b, f(t)])).unwrap_or(Value::Null)
}

impl Cfg {
    pub fn mode(m: u8) -> Cfg {
        Cfg { mode: m, ..Default::default() }
    }
    pub fn is_plain(&self) -> bool {
        self.replace_elements.is_none()
            && self.remove_elements.is_none()
            && self.ignore_elements.is_none()
            && self.allow_elements.is_none()
            && self.replace_attrs.is_none()
            && self.remove_attrs.is_none()
            && self.allow_attrs.is_none()
            && self.deny_schemes.is_none()
            && self.allow_schemes.is_none()
            && self.remove_classes.is_none()
            && self.allow_classes.is_none()
            && self.max_depth.is_none()
    }

    /// Positional array of 14 fields, token-encoded with the shared codec.
    pub fn to_value(&self) -> Value {
        json!([
            self.mode,
            beh(&self.replace_elements, |p| pairs_v(p)),
            opt(&self.remove_elements, names_v),
            self.rrf,
            opt(&self.ignore_elements, names_v),
            beh(&self.allow_elements, names_v),
            beh(&self.replace_attrs, |p| Value::Array(
                p.iter().map(|(e, m)| json!([e, pairs_v(m)])).collect()
            )),
            opt(&self.remove_attrs, perel_v),
            beh(&self.allow_attrs, perel_v),
            opt(&self.deny_schemes, schemes_v),
            beh(&self.allow_schemes, schemes_v),
            opt(&self.remove_classes, perel_v),
            beh(&self.allow_classes, perel_v),
            self.max_depth,
        ])
    }
    pub fn toks(&self) -> String {
        h_util::jtoks(&self.to_value())
    }

    pub fn from_value(v: &Value) -> Option<Cfg> {
        let a = v.as_array()?;
        if a.len() != 14 {
            return None;
        }
        fn s(v: &Value) -> Option<String> {
            v.as_str().map(|x| x.to_owned())
        }
        fn names(v: &Value) -> Option<Names> {
            v.as_array()?.iter().map(s).collect()
        }
        fn pairs(v: &Value) -> Option<Vec<(String, String)>> {
            v.as_array()?
                .iter()
                .map(|p| {
                    let p = p.as_array()?;
                    Some((s(p.first()?)?, s(p.get(1)?)?))
                })
                .collect()
        }
        fn perel(v: &Value) -> Option<PerEl> {
            v.as_array()?
                .iter()
                .map(|p| {
                    let p = p.as_array()?;
                    Some((s(p.first()?)?, names(p.get(1)?)?))
                })
                .collect()
        }
        fn schemes(v: &Value) -> Option<Schemes> {
            v.as_array()?
                .iter()
                .map(|p| {
                    let p = p.as_array()?;
                    Some((s(p.first()?)?, perel(p.get(1)?)?))
                })
                .collect()
        }
        fn o<T>(v: &Value, f: impl Fn(&Value) -> Option<T>) -> Option<Option<T>> {
            if v.is_null() {
                Some(None)
            } else {
                f(v).map(Some)
            }
        }
        fn b<T>(v: &Value, f: impl Fn(&Value) -> Option<T>) -> Option<Option<(bool, T)>> {
            if v.is_null() {
                return Some(None);
            }
            let p = v.as_array()?;
            Some(Some((p.first()?.as_bool()?, f(p.get(1)?)?)))
        }
        Some(Cfg {
            mode: match a[0].as_u64()? {
                m @ 0..=2 => m as u8,
                _ => return None,
            },
            replace_elements: b(&a[1], pairs)?,
            remove_elements: o(&a[2], names)?,
            rrf: a[3].as_bool()?,
            ignore_elements: o(&a[4], names)?,
            allow_elements: b(&a[5], names)?,
            replace_attrs: b(&a[6], |v| {
                v.as_array()?
                    .iter()
                    .map(|p| {
                        let p = p.as_array()?;
                        Some((s(p.first()?)?, pairs(p.get(1)?)?))
                    })
                    .collect()
            })?,
            remove_attrs: o(&a[7], perel)?,
            allow_attrs: b(&a[8], perel)?,
            deny_schemes: o(&a[9], schemes)?,
            allow_schemes: b(&a[10], schemes)?,
            remove_classes: o(&a[11], perel)?,
            allow_classes: b(&a[12], perel)?,
            max_depth: match &a[13] {
                Value::Null => None,
                v => Some(u32::try_from(v.as_u64()?).ok()?),
            },
        })
    }

    /// The same configuration, but the mode configuration is USED (and cloned) before the list methods
    /// are applied to it: a configuration is a value, and a builder call on a configuration that has
    /// already sanitized something must give what the same call on a fresh one gives.
    pub fn build_after_use(&self) -> SanitizerConfig {
        self.build_impl(true)
    }

    /// The real configuration, through the public builder only.
    pub fn build(&self) -> SanitizerConfig {
        self.build_impl(false)
    }

    fn build_impl(&self, use_first: bool) -> SanitizerConfig {
        fn lb(b: bool) -> ListBehavior {
            if b {
                ListBehavior::Override
            } else {
                ListBehavior::Add
            }
        }
        fn leaks(n: &Names) -> Vec<&'static str> {
            n.iter().map(|s| leak(s)).collect()
        }
        fn with_props<R>(
            p: &PerEl,
            f: impl FnOnce(Vec<PropertiesNames<'_>>) -> R,
        ) -> R {
            let store: Vec<(&'static str, Vec<&'static str>)> =
                p.iter().map(|(e, n)| (leak(e), leaks(n))).collect();
            f(store.iter().map(|(e, n)| PropertiesNames { parent: e, properties: n }).collect())
        }
        fn with_schemes<R>(
            p: &Schemes,
            f: impl FnOnce(Vec<ElementAttributesSchemes<'_>>) -> R,
        ) -> R {
            let store: Vec<(&'static str, Vec<(&'static str, Vec<&'static str>)>)> = p
                .iter()
                .map(|(e, m)| (leak(e), m.iter().map(|(a, n)| (leak(a), leaks(n))).collect()))
                .collect();
            let props: Vec<(&'static str, Vec<PropertiesNames<'_>>)> = store
                .iter()
                .map(|(e, m)| {
                    (*e, m.iter().map(|(a, n)| PropertiesNames { parent: a, properties: n }).collect())
                })
                .collect();
            f(props
                .iter()
                .map(|(e, m)| ElementAttributesSchemes { element: e, attr_schemes: m })
                .collect())
        }
        let mut c = match self.mode {
            0 => SanitizerConfig::new(),
            1 => SanitizerConfig::strict(),
            _ => SanitizerConfig::compat(),
        };
        // Every builder method overwrites its field: before each real call the same method is
        // called with a decoy list (names that occur in generated documents, the opposite
        // `ListBehavior`), which must leave no trace.
        let decoy_names: Names = vec!["b".into(), "x-foo".into(), "span".into(), "a".into()];
        let decoy_perel: PerEl = vec![
            ("a".into(), vec!["href".into(), "class".into(), "language-*".into(), "x".into()]),
            ("code".into(), vec!["class".into(), "x".into(), "*".into()]),
            ("span".into(), vec!["style".into(), "data-mx-color".into()]),
        ];
        let decoy_schemes: Schemes = vec![
            ("a".into(), vec![("href".into(), vec!["javascript".into(), "https".into(), "x-fresh".into()])]),
            ("img".into(), vec![("src".into(), vec!["http".into(), "mxc".into()])]),
        ];
        if use_first {
            let probe = ruma_html::Html::parse(
                "<p><code class=\"language-rust zz other\">t</code><a class=\"c\" href=\"https://x/\" title=\"t\">l</a><font color=\"#fff\">f</font><span data-mx-color=\"#000\">s</span></p>",
            );
            probe.sanitize_with(&c);
            c = c.clone();
        }
        // The builder methods are independent setters (each overwrites its own field), so the order in
        // which they are called must not matter. The order used here is a permutation derived from the
        // configuration itself (deterministic per request, different across requests), so that e.g.
        // `remove_reply_fallback()` is called before `remove_elements(..)` as often as after it.
        let mut order: Vec<usize> = (0..13).collect();
        {
            let mut h: u64 = 0xcbf2_9ce4_8422_2325;
            for b in format!("{self:?}").bytes() {
                h ^= b as u64;
                h = h.wrapping_mul(0x0000_0100_0000_01b3);
            }
            for i in (1..order.len()).rev() {
                h = h.wrapping_mul(6364136223846793005).wrapping_add(1442695040888963407);
                order.swap(i, ((h >> 33) as usize) % (i + 1));
            }
        }
        for step in order {
            match step {
                0 => {
                if let Some((b, p)) = &self.replace_elements {
                    c = c.replace_elements(
                        [NameReplacement { old: "b", new: "i" }, NameReplacement { old: "span", new: "x-foo" }],
                        lb(!*b),
                    );
                    c = c.replace_elements(
                        p.iter().map(|(o, n)| NameReplacement { old: leak(o), new: leak(n) }),
                        lb(*b),
                    );
                }
                }
                1 => {
                if let Some(n) = &self.remove_elements {
                    c = c.remove_elements(leaks(&decoy_names));
                    c = c.remove_elements(leaks(n));
                }
                }
                2 => {
                if self.rrf {
                    c = c.remove_reply_fallback();
                }
                }
                3 => {
                if let Some(n) = &self.ignore_elements {
                    c = c.ignore_elements(leaks(&decoy_names));
                    c = c.ignore_elements(leaks(n));
                }
                }
                4 => {
                if let Some((b, n)) = &self.allow_elements {
                    c = c.allow_elements(leaks(&decoy_names), lb(!*b));
                    c = c.allow_elements(leaks(n), lb(*b));
                }
                }
                5 => {
                if let Some((b, p)) = &self.replace_attrs {
                    let decoy = [NameReplacement { old: "href", new: "src" }, NameReplacement { old: "class", new: "id" }];
                    c = c.replace_attributes(
                        [ElementAttributesReplacement { element: "a", replacements: &decoy }],
                        lb(!*b),
                    );
                    let store: Vec<(&'static str, Vec<NameReplacement>)> = p
                        .iter()
                        .map(|(e, m)| {
                            (
                                leak(e),
                                m.iter().map(|(o, n)| NameReplacement { old: leak(o), new: leak(n) }).collect(),
                            )
                        })
                        .collect();
                    c = c.replace_attributes(
                        store.iter().map(|(e, m)| ElementAttributesReplacement { element: e, replacements: m }),
                        lb(*b),
                    );
                }
                }
                6 => {
                if let Some(p) = &self.remove_attrs {
                    c = with_props(&decoy_perel, |v| c.remove_attributes(v));
                    c = with_props(p, |v| c.remove_attributes(v));
                }
                }
                7 => {
                if let Some((b, p)) = &self.allow_attrs {
                    c = with_props(&decoy_perel, |v| c.allow_attributes(v, lb(!*b)));
                    c = with_props(p, |v| c.allow_attributes(v, lb(*b)));
                }
                }
                8 => {
                if let Some(p) = &self.deny_schemes {
                    c = with_schemes(&decoy_schemes, |v| c.deny_schemes(v));
                    c = with_schemes(p, |v| c.deny_schemes(v));
                }
                }
                9 => {
                if let Some((b, p)) = &self.allow_schemes {
                    c = with_schemes(&decoy_schemes, |v| c.allow_schemes(v, lb(!*b)));
                    c = with_schemes(p, |v| c.allow_schemes(v, lb(*b)));
                }
                }
                10 => {
                if let Some(p) = &self.remove_classes {
                    c = with_props(&decoy_perel, |v| c.remove_classes(v));
                    c = with_props(p, |v| c.remove_classes(v));
                }
                }
                11 => {
                if let Some((b, p)) = &self.allow_classes {
                    c = with_props(&decoy_perel, |v| c.allow_classes(v, lb(!*b)));
                    c = with_props(p, |v| c.allow_classes(v, lb(*b)));
                }
                }
                12 => {
                if self.max_depth.is_some() {
                    c = c.max_depth(7);
                }
                if let Some(d) = self.max_depth {
                    c = c.max_depth(d);
                }
                }
                _ => unreachable!(),
            }
        }
        c
    }

    pub fn sanitizer_mode(&self) -> Option<HtmlSanitizerMode> {
        match self.mode {
            1 => Some(HtmlSanitizerMode::Strict),
            2 => Some(HtmlSanitizerMode::Compat),
            _ => None,
        }
    }
}

// ------------------------------------------------------------------ trees

#[derive(Clone, PartialEq, Eq, Debug)]
pub enum N {
    E { name: String, attrs: Vec<(String, String, String)>, ch: Vec<N> },
    T(String),
    O,
}

/// Sort key of the parts of an attribute name that precede the local name in html5ever's derived
/// `Ord` of `QualName` (`prefix: Option<Prefix>`, then `ns`): order-embedding string.
fn qkey(q: &ruma_html::QualName) -> String {
    let mut s = match &q.prefix {
        None => String::from("0"),
        Some(p) => format!("1{}\u{1}", &**p),
    };
    s.push_str(&q.ns);
    s
}

pub fn dump_node(n: &NodeRef) -> N {
    match n.data() {
        NodeData::Element(d) => N::E {
            name: d.name.local.to_string(),
            attrs: d
                .attrs
                .borrow()
                .iter()
                .map(|a| (qkey(&a.name), a.name.local.to_string(), a.value.to_string()))
                .collect(),
            ch: dump_children(n.children()),
        },
        NodeData::Text(t) => N::T(t.borrow().to_string()),
        _ => N::O,
    }
}

pub fn dump_children(ch: Children) -> Vec<N> {
    ch.map(|c| dump_node(&c)).collect()
}

pub fn dump(html: &Html) -> Vec<N> {
    dump_children(html.children())
}

/// Canonical form for comparison: adjacent text nodes merged (the sanitizer re-parents children of
/// ignored elements without merging text; the property does not speak about text node boundaries).
pub fn merge_text(f: Vec<N>) -> Vec<N> {
    let mut out: Vec<N> = Vec::new();
    for n in f {
        match n {
            N::T(s) => {
                if let Some(N::T(prev)) = out.last_mut() {
                    prev.push_str(&s);
                } else {
                    out.push(N::T(s));
                }
            }
            N::E { name, attrs, ch } => out.push(N::E { name, attrs, ch: merge_text(ch) }),
            N::O => out.push(N::O),
        }
    }
    out
}

fn node_tok(n: &N, out: &mut String) {
    match n {
        N::E { name, attrs, ch } => {
            write!(out, " e {} {}", stok(name), attrs.len()).unwrap();
            for (q, a, v) in attrs {
                write!(out, " {} {} {}", stok(q), stok(a), stok(v)).unwrap();
            }
            forest_tok(ch, out);
        }
        N::T(s) => write!(out, " t {}", stok(s)).unwrap(),
        N::O => out.push_str(" c"),
    }
}

/// ` <count> node…` (leading space included).
pub fn forest_tok(f: &[N], out: &mut String) {
    write!(out, " {}", f.len()).unwrap();
    for n in f {
        node_tok(n, out);
    }
}

pub fn forest_toks(f: &[N]) -> String {
    let mut s = String::new();
    forest_tok(f, &mut s);
    s
}

pub fn text_of(f: &[N], out: &mut String) {
    for n in f {
        match n {
            N::T(s) => out.push_str(s),
            N::E { ch, .. } => text_of(ch, out),
            N::O => {}
        }
    }
}

pub fn depth_of(f: &[N]) -> u32 {
    f.iter().map(|n| if let N::E { ch, .. } = n { 1 + depth_of(ch) } else { 0 }).max().unwrap_or(0)
}

pub fn count_elems(f: &[N]) -> usize {
    f.iter().map(|n| if let N::E { ch, .. } = n { 1 + count_elems(ch) } else { 0 }).sum()
}

// ------------------------------------------------------------------ spec-side predicate (T3)

fn last<'a, V>(l: &'a [(String, V)], k: &str) -> Option<&'a V> {
    // the builder collects into a HashMap: a later entry with the same key wins
    l.iter().rev().find(|(e, _)| e == k).map(|(_, v)| v)
}

/// Standard glob: `*` any sequence, `?` exactly one character (the documented meaning of the class
/// patterns). Written independently of the `wildmatch` crate.
pub fn glob(p: &[char], s: &[char]) -> bool {
    match p.split_first() {
        None => s.is_empty(),
        Some(('*', rest)) => (0..=s.len()).any(|i| glob(rest, &s[i..])),
        Some(('?', rest)) => !s.is_empty() && glob(rest, &s[1..]),
        Some((c, rest)) => s.first() == Some(c) && glob(rest, &s[1..]),
    }
}
pub fn glob_str(p: &str, s: &str) -> bool {
    glob(&p.chars().collect::<Vec<_>>(), &s.chars().collect::<Vec<_>>())
}

/// What the configuration *means*, from the documentation of the builder and the spec lists.
pub struct Policy<'a> {
    pub c: &'a Cfg,
}

impl Policy<'_> {
    fn strict(&self) -> bool {
        self.c.mode != 0
    }
    fn compat(&self) -> bool {
        self.c.mode == 2
    }
    pub fn max_depth(&self) -> Option<u32> {
        self.c.max_depth.or(self.strict().then_some(spec::MAX_DEPTH))
    }
    /// Element names that are dropped together with their content.
    pub fn elem_removed(&self, name: &str) -> bool {
        self.c.remove_elements.as_ref().is_some_and(|s| s.iter().any(|x| x == name))
            || (self.c.rrf && name == spec::REPLY)
    }
    /// Element may appear in the output.
    pub fn elem_ok(&self, name: &str) -> bool {
        if self.elem_removed(name) {
            return false;
        }
        if self.c.ignore_elements.as_ref().is_some_and(|s| s.iter().any(|x| x == name)) {
            return false;
        }
        if self.c.allow_elements.is_some() || self.strict() {
            let list = self.c.allow_elements.as_ref().is_some_and(|(_, l)| l.iter().any(|x| x == name));
            let over = self.c.allow_elements.as_ref().is_some_and(|(b, _)| *b);
            let mode = !over && self.strict() && spec::ELEMENTS.contains(&name);
            return list || mode;
        }
        true
    }
    pub fn attr_ok(&self, el: &str, attr: &str) -> bool {
        if self
            .c
            .remove_attrs
            .as_ref()
            .and_then(|m| last(m, el))
            .is_some_and(|s| s.iter().any(|x| x == attr))
        {
            return false;
        }
        if self.c.allow_attrs.is_some() || self.strict() {
            let list = self
                .c
                .allow_attrs
                .as_ref()
                .and_then(|(_, m)| last(m, el))
                .is_some_and(|s| s.iter().any(|x| x == attr));
            let over = self.c.allow_attrs.as_ref().is_some_and(|(b, _)| *b);
            let mode = !over
                && self.strict()
                && spec::ATTRS.iter().any(|(e, l)| *e == el && l.contains(&attr));
            return list || mode;
        }
        true
    }
    /// `None`: the attribute carries no scheme restriction; `Some(list)`: the value must start
    /// with `<scheme>:` for one of the list.
    pub fn scheme_list(&self, el: &str, attr: &str) -> Option<Vec<String>> {
        if self.c.allow_schemes.is_none() && !self.strict() {
            return None;
        }
        let mut out: Option<Vec<String>> = None;
        if let Some(l) = self
            .c
            .allow_schemes
            .as_ref()
            .and_then(|(_, m)| last(m, el))
            .and_then(|m| last(m, attr))
        {
            out.get_or_insert_with(Vec::new).extend(l.iter().cloned());
        }
        let over = self.c.allow_schemes.as_ref().is_some_and(|(b, _)| *b);
        if !over && self.strict() {
            for (e, a, l) in spec::SCHEMES_STRICT {
                if *e == el && *a == attr {
                    out.get_or_insert_with(Vec::new).extend(l.iter().map(|s| s.to_string()));
                }
            }
        }
        if !over && self.compat() {
            for (e, a, l) in spec::SCHEMES_COMPAT {
                if *e == el && *a == attr {
                    out.get_or_insert_with(Vec::new).extend(l.iter().map(|s| s.to_string()));
                }
            }
        }
        out
    }
    pub fn denied(&self, el: &str, attr: &str, value: &str) -> bool {
        self.c
            .deny_schemes
            .as_ref()
            .and_then(|m| last(m, el))
            .and_then(|m| last(m, attr))
            .is_some_and(|l| l.iter().any(|s| value.starts_with(&format!("{s}:"))))
    }
    pub fn value_ok(&self, el: &str, attr: &str, value: &str) -> bool {
        if self.denied(el, attr, value) {
            return false;
        }
        match self.scheme_list(el, attr) {
            None => true,
            Some(l) => l.iter().any(|s| value.starts_with(&format!("{s}:"))),
        }
    }
    pub fn class_ok(&self, el: &str, class: &str) -> bool {
        if self
            .c
            .remove_classes
            .as_ref()
            .and_then(|m| last(m, el))
            .is_some_and(|l| l.iter().any(|p| glob_str(p, class)))
        {
            return false;
        }
        if self.c.allow_classes.is_some() || self.strict() {
            let list = self
                .c
                .allow_classes
                .as_ref()
                .and_then(|(_, m)| last(m, el))
                .is_some_and(|l| l.iter().any(|p| glob_str(p, class)));
            let over = self.c.allow_classes.as_ref().is_some_and(|(b, _)| *b);
            let mode = !over
                && self.strict()
                && spec::CLASSES
                    .iter()
                    .any(|(e, l)| *e == el && l.iter().any(|p| glob_str(p, class)));
            return list || mode;
        }
        true
    }

    /// Walk a forest for the allow-list predicate; failures are appended to `out` (at most a few).
    /// `exempt`: element names exempt from the element check (parser-implied table structure when
    /// walking a re-parsed serialisation under a non-plain configuration).
    pub fn walk(&self, f: &[N], depth: u32, what: &str, exempt: &[&str], out: &mut Vec<String>) {
        for n in f {
            if out.len() >= 4 {
                return;
            }
            match n {
                N::T(_) => {}
                N::O => out.push(format!("{what}: a comment or other non-element, non-text node remains")),
                N::E { name, attrs, ch } => {
                    if !self.elem_ok(name) && !exempt.contains(&name.as_str()) {
                        if self.c.rrf && name == spec::REPLY {
                            out.push(format!("{what}: mx-reply remains although reply-fallback removal was requested"));
                        } else {
                            out.push(format!("{what}: element <{name}> is not allowed"));
                        }
                    }
                    if let Some(m) = self.max_depth() {
                        if depth >= m {
                            out.push(format!("{what}: element <{name}> nested at level {} > {m}", depth + 1));
                        }
                    }
                    for (q, a, v) in attrs {
                        if (self.c.allow_attrs.is_some() || self.strict()) && q != "0" {
                            // the allow lists hold HTML attribute names; an attribute in a
                            // namespace is serialized with its prefix and is none of them
                            out.push(format!("{what}: namespaced attribute {a} ({q:?}) remains on <{name}> under an attribute allow list"));
                            continue;
                        }
                        if !self.attr_ok(name, a) {
                            out.push(format!("{what}: attribute {a} is not allowed on <{name}>"));
                            continue;
                        }
                        if a == "class" {
                            for cl in v.split_whitespace() {
                                if !self.class_ok(name, cl) {
                                    out.push(format!("{what}: class {cl:?} is not allowed on <{name}>"));
                                }
                            }
                        } else if !self.value_ok(name, a, v) {
                            out.push(format!(
                                "{what}: <{name} {a}={v:?}> carries a URI scheme that is not allowed (other attributes: {})",
                                attrs.iter().filter(|x| x.1 != *a).map(|x| x.1.as_str()).collect::<Vec<_>>().join(",")
                            ));
                        }
                    }
                    self.walk(ch, depth + 1, what, exempt, out);
                }
            }
        }
    }

    /// Name after the documented replacements (deprecated elements of the mode, list replacements).
    pub fn elem_replacement(&self, name: &str) -> Option<String> {
        let m: Option<HashMap<&str, &str>> = self
            .c
            .replace_elements
            .as_ref()
            .map(|(_, l)| l.iter().map(|(a, b)| (a.as_str(), b.as_str())).collect());
        if let Some(r) = m.as_ref().and_then(|m| m.get(name)) {
            return Some(r.to_string());
        }
        let over = self.c.replace_elements.as_ref().is_some_and(|(b, _)| *b);
        if !over && self.strict() {
            return spec::DEPRECATED_ELEMENTS.iter().find(|(o, _)| *o == name).map(|(_, n)| n.to_string());
        }
        None
    }

    /// Text that must survive, in order: everything outside removed subtrees. `f` is the INPUT
    /// forest; removal = removed element name (after replacement), mx-reply under reply-fallback
    /// removal, nesting at or beyond the maximum depth, comments.
    pub fn kept_text(&self, f: &[N], depth: u32, out: &mut String) {
        self.kept_text_with(f, depth, true, out)
    }

    /// `with_depth = false`: only subtrees removed by name (and comments) are left out — the most
    /// that may remain (content of removed elements / of mx-reply under reply-fallback removal
    /// must not).
    pub fn kept_text_with(&self, f: &[N], depth: u32, with_depth: bool, out: &mut String) {
        for n in f {
            match n {
                N::T(s) => out.push_str(s),
                N::O => {}
                N::E { name, ch, .. } => {
                    let name2 = self.elem_replacement(name).unwrap_or_else(|| name.clone());
                    if self.elem_removed(&name2)
                        || (with_depth && self.max_depth().is_some_and(|m| depth >= m))
                    {
                        continue;
                    }
                    self.kept_text_with(ch, depth + 1, with_depth, out);
                }
            }
        }
    }
}

/// `a` is a subsequence of `b` (characters in order, not necessarily adjacent).
pub fn subsequence(a: &str, b: &str) -> bool {
    let mut it = b.chars();
    a.chars().all(|c| it.any(|d| d == c))
}

// ------------------------------------------------------------------ running the implementation

pub fn sanitize_tree(cfg: &SanitizerConfig, html_src: &str) -> (Vec<N>, Vec<N>, String) {
    let html = Html::parse(html_src);
    let before = dump(&html);
    html.sanitize_with(cfg);
    let after = dump(&html);
    (before, after, html.to_string())
}

// ------------------------------------------------------------------ T1 probes

pub fn esc_attr(v: &str) -> String {
    v.replace('&', "&amp;").replace('"', "&quot;")
}

fn probe_base(mode: u8, el: &str) -> Cfg {
    let mut c = Cfg::mode(mode);
    c.replace_elements = Some((false, vec![("x-probe".into(), el.into())]));
    c
}

fn first_elem(f: &[N]) -> Option<(&String, &Vec<(String, String, String)>)> {
    match f.first()? {
        N::E { name, attrs, .. } => Some((name, attrs)),
        _ => None,
    }
}

/// Is an element named `el` kept by the plain mode? (`x-probe` is renamed to `el` by a list
/// replacement before the allow decision, so every name — also `td`, `html`, `caption`, which the
/// parser would not create in this context — can be probed.)
pub fn probe_elem(mode: u8, el: &str) -> bool {
    let c = probe_base(mode, el);
    let (_, after, _) = sanitize_tree(&c.build(), "<x-probe>t</x-probe>");
    first_elem(&after).is_some_and(|(n, _)| n == el)
}

/// Is attribute `attr` kept on element `el` (the element itself being allowed by an added list)?
pub fn probe_attr(mode: u8, el: &str, attr: &str) -> bool {
    let mut c = probe_base(mode, el);
    c.allow_elements = Some((false, vec![el.into()]));
    c.allow_schemes = Some((false, vec![(el.into(), vec![(attr.into(), vec!["v".into()])])]));
    // no class is filtered, so that a kept `class` attribute shows as kept
    c.allow_classes = Some((false, vec![(el.into(), vec!["*".into()])]));
    let (_, after, _) = sanitize_tree(&c.build(), &format!("<x-probe {attr}=\"v:x\">t</x-probe>"));
    first_elem(&after).is_some_and(|(n, a)| n == el && a.iter().any(|x| x.1 == attr))
}

/// Is `<el attr=value>` kept (element and attribute being allowed by added lists)? `false` means
/// the value was rejected by a scheme list.
pub fn probe_scheme(mode: u8, el: &str, attr: &str, value: &str) -> bool {
    let mut c = probe_base(mode, el);
    c.allow_elements = Some((false, vec![el.into()]));
    c.allow_attrs = Some((false, vec![(el.into(), vec![attr.into()])]));
    let (_, after, _) =
        sanitize_tree(&c.build(), &format!("<x-probe {attr}=\"{}\">t</x-probe>", esc_attr(value)));
    first_elem(&after).is_some_and(|(n, _)| n == el)
}

/// Is class `class` kept on `el` (element and `class` attribute allowed by added lists)?
pub fn probe_class(mode: u8, el: &str, class: &str) -> bool {
    let mut c = probe_base(mode, el);
    c.allow_elements = Some((false, vec![el.into()]));
    c.allow_attrs = Some((false, vec![(el.into(), vec!["class".into()])]));
    let (_, after, _) =
        sanitize_tree(&c.build(), &format!("<x-probe class=\"{}\">t</x-probe>", esc_attr(class)));
    first_elem(&after).is_some_and(|(n, a)| n == el && a.iter().any(|x| x.1 == "class" && x.2 == class))
}

/// Is an allowed element with `k` element ancestors kept?
pub fn probe_depth(mode: u8, k: u32) -> bool {
    let mut s = String::new();
    for _ in 0..k {
        s.push_str("<div>");
    }
    s.push_str("<b>t</b>");
    let (_, after, _) = sanitize_tree(&Cfg::mode(mode).build(), &s);
    fn has_b(f: &[N]) -> bool {
        f.iter().any(|n| matches!(n, N::E { name, ch, .. } if name == "b" || has_b(ch)))
    }
    has_b(&after)
}

fn path_to(f: &[N], el: &str) -> Option<Vec<usize>> {
    for (i, n) in f.iter().enumerate() {
        if let N::E { name, ch, .. } = n {
            if name == el {
                return Some(vec![i]);
            }
            if let Some(mut p) = path_to(ch, el) {
                p.insert(0, i);
                return Some(p);
            }
        }
    }
    None
}

fn at<'a>(f: &'a [N], p: &[usize]) -> Option<&'a N> {
    let n = f.get(*p.first()?)?;
    if p.len() == 1 {
        return Some(n);
    }
    match n {
        N::E { ch, .. } => at(ch, &p[1..]),
        _ => None,
    }
}

/// A configuration of the given mode that allows every element and attribute of the universes and
/// checks no scheme, so that only *replacements* show.
pub fn open_cfg(mode: u8) -> Cfg {
    let els: Names = spec::element_universe().iter().map(|s| s.to_string()).collect();
    let attrs: Names = spec::attr_universe().iter().map(|s| s.to_string()).collect();
    let mut c = Cfg::mode(mode);
    c.allow_elements = Some((false, els.clone()));
    c.allow_attrs = Some((false, els.iter().map(|e| (e.clone(), attrs.clone())).collect()));
    c.allow_schemes = Some((true, vec![]));
    c.allow_classes = Some((false, els.iter().map(|e| (e.clone(), vec!["*".to_string()])).collect()));
    c.max_depth = Some(1000);
    c
}

/// `open_cfg(mode).build()`, built once per process.
pub fn open_real(mode: u8) -> &'static SanitizerConfig {
    static OPEN: std::sync::OnceLock<Vec<SanitizerConfig>> = std::sync::OnceLock::new();
    &OPEN.get_or_init(|| (0..=2).map(|m| open_cfg(m).build()).collect())[mode as usize]
}

/// What the parser made of the probed attribute and what the sanitizer left of it.
pub struct AttrProbe {
    /// `qkey` of the attribute as parsed: `"0"` for an HTML attribute (no prefix, no namespace)
    pub parsed_q: String,
    /// local name as parsed
    pub parsed: String,
    /// local name of the element's first attribute after sanitising (`None`: no attribute left)
    pub after: Option<String>,
}

/// Parse `<el attr="v">` (inside whatever wrapper the parser needs for `el`) and report the name
/// of the element after sanitising under `cfg`, and its attribute as parsed and after sanitising.
/// `None`: the parser does not create an element of that name in any wrapper tried.
pub fn probe_replacement(cfg: &SanitizerConfig, el: &str, attr: &str) -> Option<(String, Option<AttrProbe>)> {
    const WRAPS: &[&str] = &["", "<table>", "<table><tbody><tr>", "<table><tbody>", "<select>", "<svg>", "<math>", "<ruby>", "<details>"];
    for w in WRAPS {
        let src = format!("{w}<{el} {attr}=\"v\">t</{el}>");
        let html = Html::parse(&src);
        let before = dump(&html);
        let Some(p) = path_to(&before, el) else { continue };
        let parsed_attr = match at(&before, &p) {
            Some(N::E { attrs, .. }) => attrs.first().map(|a| (a.0.clone(), a.1.clone())),
            _ => None,
        };
        html.sanitize_with(cfg);
        let after = dump(&html);
        return match at(&after, &p) {
            Some(N::E { name, attrs, .. }) => Some((
                name.clone(),
                parsed_attr.map(|(q, b)| AttrProbe { parsed_q: q, parsed: b, after: attrs.first().map(|a| a.1.clone()) }),
            )),
            _ => Some((String::new(), None)),
        };
    }
    None
}
