//! Spec side of the harness, written from the Matrix client-server specification
//! (§ m.room.message msgtypes, "formatted_body" recommendations) — NOT from the code under test.
//! The same tables are in `lean/RumaModel/Spec/HtmlAllow.lean`.
//! Also the stated universes over which the private allow-lists are extracted behaviourally (T1).

/// Elements the specification allows (order of the spec text), plus `mx-reply` (rich reply
/// fallback wrapper, stripped only when reply-fallback removal is requested).
pub const ELEMENTS: &[&str] = &[
    "del", "h1", "h2", "h3", "h4", "h5", "h6", "blockquote", "p", "a", "ul", "ol", "sup", "sub",
    "li", "b", "i", "u", "strong", "em", "s", "code", "hr", "br", "div", "table", "thead", "tbody",
    "tr", "th", "td", "caption", "pre", "span", "img", "details", "summary", "mx-reply",
];

/// Allowed attributes per element.
pub const ATTRS: &[(&str, &[&str])] = &[
    ("a", &["target", "href"]),
    ("ol", &["start"]),
    ("code", &["class"]),
    ("div", &["data-mx-maths"]),
    ("span", &["data-mx-bg-color", "data-mx-color", "data-mx-spoiler", "data-mx-maths"]),
    ("img", &["width", "height", "alt", "title", "src"]),
];

/// URI schemes per element and attribute (strict = the specification).
pub const SCHEMES_STRICT: &[(&str, &str, &[&str])] = &[
    ("a", "href", &["https", "http", "ftp", "mailto", "magnet"]),
    ("img", "src", &["mxc"]),
];
/// Additional schemes of compat mode (documented in `SanitizerConfig::compat`).
pub const SCHEMES_COMPAT: &[(&str, &str, &[&str])] = &[("a", "href", &["matrix"])];

/// Class patterns per element.
pub const CLASSES: &[(&str, &[&str])] = &[("code", &["language-*"])];

pub const MAX_DEPTH: u32 = 100;

/// Deprecated elements and attributes with their documented replacements.
pub const DEPRECATED_ELEMENTS: &[(&str, &str)] = &[("font", "span"), ("strike", "s")];
pub const DEPRECATED_ATTRS: &[(&str, &str, &str)] = &[("font", "color", "data-mx-color")];

pub const REPLY: &str = "mx-reply";

// ------------------------------------------------------------------ universes (T1)

/// All HTML (current + obsolete), SVG and MathML element names, plus fresh names. The spec's own
/// elements come first, in the spec's order, so that "universe filtered by the implementation"
/// can be compared with the spec list as a list.
pub fn element_universe() -> Vec<&'static str> {
    let mut v: Vec<&'static str> = ELEMENTS.to_vec();
    v.extend(DEPRECATED_ELEMENTS.iter().map(|p| p.0));
    const MORE: &[&str] = &[
        // HTML living standard
        "html", "head", "title", "base", "link", "meta", "style", "body", "article", "section",
        "nav", "aside", "hgroup", "header", "footer", "address", "dl", "dt", "dd", "figure",
        "figcaption", "main", "menu", "search", "cite", "q", "dfn", "abbr", "ruby", "rt", "rp",
        "data", "time", "var", "samp", "kbd", "small", "mark", "bdi", "bdo", "wbr", "ins",
        "picture", "source", "iframe", "embed", "object", "video", "audio", "track", "map", "area",
        "colgroup", "col", "tfoot", "form", "label", "input", "button", "select", "datalist",
        "optgroup", "option", "textarea", "output", "progress", "meter", "fieldset", "legend",
        "dialog", "script", "noscript", "template", "slot", "canvas",
        // obsolete HTML
        "applet", "acronym", "bgsound", "dir", "frame", "frameset", "noframes", "isindex",
        "keygen", "listing", "menuitem", "nextid", "noembed", "param", "plaintext", "rb", "rtc",
        "xmp", "basefont", "big", "blink", "center", "marquee", "multicol", "nobr", "spacer", "tt",
        "image",
        // SVG
        "svg", "g", "defs", "desc", "symbol", "use", "switch", "path", "rect", "circle", "ellipse",
        "line", "polyline", "polygon", "text", "tspan", "textpath", "marker", "pattern",
        "clippath", "mask", "filter", "foreignobject", "lineargradient", "radialgradient", "stop",
        "animate", "animatemotion", "animatetransform", "set", "view", "metadata", "feblend",
        "feimage",
        // MathML
        "math", "mi", "mn", "mo", "ms", "mtext", "mrow", "mfrac", "msqrt", "mroot", "mstyle",
        "merror", "mpadded", "mphantom", "msub", "msup", "msubsup", "munder", "mover",
        "munderover", "mtable", "mtr", "mtd", "maction", "semantics", "annotation",
        "annotation-xml", "mglyph", "malignmark",
        // fresh
        "x-fresh", "zz", "mx-reply2", "spanx", "aa",
    ];
    for m in MORE {
        if !v.contains(m) {
            v.push(m);
        }
    }
    v
}

/// Every attribute of the spec, the HTML global attributes, URL-carrying attributes, event
/// handlers, namespaced spellings and fresh names.
pub fn attr_universe() -> Vec<&'static str> {
    let mut v: Vec<&'static str> = Vec::new();
    for (_, a) in ATTRS {
        for x in *a {
            if !v.contains(x) {
                v.push(x);
            }
        }
    }
    const MORE: &[&str] = &[
        "color", "name", "style", "id", "lang", "dir", "hidden", "tabindex", "accesskey",
        "contenteditable", "draggable", "spellcheck", "translate", "slot", "is", "part", "nonce",
        "role", "autofocus", "inert", "popover", "itemprop", "itemscope", "itemtype", "rel", "rev",
        "download", "ping", "hreflang", "type", "referrerpolicy", "srcset", "sizes", "srcdoc",
        "crossorigin", "usemap", "ismap", "loading", "decoding", "longdesc", "lowsrc", "dynsrc",
        "background", "bgcolor", "border", "align", "valign", "cellpadding", "cellspacing",
        "colspan", "rowspan", "face", "size", "action", "formaction", "method", "value", "data",
        "code", "codebase", "cite", "poster", "manifest", "profile", "classid", "archive", "open",
        "reversed", "compact", "data-mx-pill", "data-mx-emoticon", "data-x", "data-mx-colour",
        "aria-label", "aria-hidden", "onclick", "ondblclick", "onerror", "onload", "onmouseover",
        "onmouseout", "onfocus", "onblur", "onkeydown", "onsubmit", "ontoggle", "onanimationstart",
        "onbegin", "onpointerdown", "xlink:href", "xml:lang", "xml:space", "xmlns", "xmlns:xlink",
        "fill", "stroke", "d", "viewbox", "transform", "mathvariant", "encoding", "x-fresh", "zz",
        "hrefx", "srcx", "classx",
    ];
    for m in MORE {
        if !v.contains(m) {
            v.push(m);
        }
    }
    v
}

/// Scheme spellings (the text before the colon of a URI value).
pub fn scheme_universe() -> Vec<&'static str> {
    vec![
        "https", "http", "ftp", "mailto", "magnet", "mxc", "matrix", "javascript", "data",
        "vbscript", "file", "blob", "about", "tel", "sms", "irc", "ircs", "xmpp", "geo", "ws",
        "wss", "cid", "ftps", "sftp", "gopher", "HTTP", "Https", "hTTp", "MXC", "Matrix",
        "jAvAsCrIpT", " http", "\thttp", "\nhttps", "http ", "htt", "httpx", "mx", "mxcc", "",
        "java\tscript", "\u{1}javascript", "x-fresh", "zz",
    ]
}

pub fn class_universe() -> Vec<&'static str> {
    vec![
        "language-rust", "language-", "language-c++", "language-a-b", "language", "languag",
        "lang-rust", "xlanguage-rust", "LANGUAGE-rust", "Language-x", "language_rust",
        "language-*", "*", "x", "hljs", "language-é", "mx-x", "zz",
    ]
}
